#!/usr/bin/env python3
"""Writes seeded/README.md and the table between the SEEDED-TABLE markers of DESIGN.md from seeded/*/meta.json
plus the hand-kept history below (was the change caught by rules that existed before it was seen?)."""
import json
import os
import re

VERIF = os.path.dirname(os.path.dirname(os.path.abspath(__file__)))

# name -> (first verdict when the change was first run against the checks, what was done)
HISTORY = {
    'C01-A': ('caught', 'R-truncate-on-conflict existed (under C04); afterwards also listed under C01'),
    'C01-B': ('caught', 'R-payload-complete (applied-index source) existed under C09; afterwards listed under C01 and turned from a text comparison into an entailment'),
    'C02-A': ('missed', 'new rule R-commit-subscription (callback waits at the appended (index, term))'),
    'C02-B': ('missed', 'new rule R-request-id-unique (request id counter only incremented)'),
    'C03-B': ('caught', 'R-term-vote-writes existed'),
    'C04-A': ('caught', 'R-commit-rule existed'),
    'C04-B': ('analysis-error', 'counting idiom `1 + sum(.. for m in table.values() ..)` not recognised; R-majority now understands comprehension counters and checks the counted population'),
    'C06-A': ('missed', 'C06 rules were not written yet; R-dump-before-trim (wait status clause) was written knowing this change'),
    'C06-B': ('missed', 'C06 rules were not written yet; R-restart-keeps-journal (trim position clause) was written knowing this change'),
    'C08-A': ('caught', 'R-write-then-publish existed'),
    'C08-B': ('caught', 'R-meta-atomic existed'),
    'C09-A': ('caught', 'designed in section 3 (enabled version after the names snapshot); implemented after the sub-agent summary had been read'),
    'C09-B': ('missed', 'new rule R-transfer-restart'),
    'C10-A': ('caught', 'R-gate-live existed'),
    'C10-B': ('missed', 'R-rollback-paired extended: adopting the snapshot position must restore the member set'),
    'C11-A': ('caught', 'R-chunk-length (small-domain evaluation of the classifier) existed'),
    'C11-B': ('analysis-error', 'R-chunk-kinds reworked: per-kind effect sequence by path-sensitive exploration instead of matching one branch per kind'),
    'C13-A': ('caught', 'R-length-range existed'),
    'C13-B': ('caught', 'R-decode-contained existed'),
    'C05-A': ('caught', 'R-chunk-length existed (under C11); afterwards also listed under C05'),
    'C05-B': ('missed', 'new rule R-vote-refusal-justified'),
    'C13r2-A': ('missed', 'new rule R-disconnect-idempotent'),
    'C13r2-B': ('missed', 'new rule R-length-symmetry'),
    'C14-A': ('missed', 'new rule R-silent-timeout'),
    'C14-B': ('caught', 'R-drop-teardown existed'),
    'C15-A': ('caught', 'R-consumer-state existed'),
    'C15-B': ('missed', 'R-cmd-shapes extended: shape selection evaluated for empty/non-empty args x kwargs; listed under C15'),
    'C16-A': ('missed', 'R-lock-guards extended: acquire returns True only after the table write'),
    'C16-B': ('analysis-error', 'expiry comparisons are now found through one level of helper methods and a leading `not`'),
    'C17-A': ('caught', 'R-version-in-payload existed'),
    'C17-B': ('caught', 'R-apply-step existed'),
    'C18-A': ('caught', 'R-majority population check existed (added after C04-B)'),
    'C18-B': ('missed', 'new rule R-readonly-id-unique'),
    'C19-A': ('caught', 'R-request-id-unique existed (added after C02-B; same change delivered independently)'),
    'C19-B': ('caught', 'R-result-publish (per-call result object) existed'),
    'C20-A': ('analysis-error', 'the edit removed the anchor of the lastResponseTime role and every check failed closed; role binding is now lazy per segment, the role is anchored on the handler, and R-majority flags tables that are filled for read-only nodes too'),
    'C20-B': ('missed', 'R-hasquorum: the mini interpreter now models set algebra over node categories incl. stale members of the connected set'),
    'C01r2-A': ('missed', 'R-match-writes extended: on election matchIndex/nextIndex are re-assigned for every node (same change delivered by three independent agents)'),
    'C01r2-B': ('caught', 'R-tail-drop-monotone existed (C08); now also listed under C06'),
    'C03r2-A': ('caught', 'R-majority small-domain evaluation existed'),
    'C03r2-B': ('missed', 'same change as C01r2-A'),
    'C04r2-A': ('caught', 'R-match-writes existed'),
    'C04r2-B': ('missed', 'same change as C01r2-A'),
    'C02r2-A': ('caught', 'R-disposition (FastQueue refuses before inserting) existed'),
    'C02r2-B': ('caught', 'R-majority population check existed (same change as C04-B, delivered independently)'),
    'C06r2-A': ('missed', 'new rule R-commit-persisted-value'),
    'C06r2-B': ('missed', 'R-dump-atomic extended: writers must use distinct temporary names'),
    'C09r2-A': ('caught', 'R-dump-before-trim existed (same change as C06-A, delivered independently); now also listed under C09'),
    'C09r2-B': ('missed', 'R-dump-atomic extended: a chunk flagged first always restarts the reassembly'),
    'C10r2-A': ('analysis-error', 'pending-marker detection required the refusal directly under the None test; generalised, after which the existing "both gates dominate the mutation" clause reports it'),
    'C10r2-B': ('caught', 'R-apply-on-append existed'),
    'C11r2-A': ('caught', 'R-bounded-write existed'),
    'C11r2-B': ('missed', 'R-chunk-length extended: the chunked bytes must be pickled from the entry fetched in this pass'),
    'C13r2-A': ('missed', 'new rule R-disconnect-idempotent'),
    'C13r2-B': ('missed', 'new rule R-length-symmetry'),
    'C14-A': ('missed', 'new rule R-silent-timeout'),
    'C15-B': ('missed', 'R-cmd-shapes extended: shape selection evaluated for empty/non-empty args x kwargs; listed under C15'),
    'C08r2-A': ('missed', 'new rule R-offset-coherent (in-memory and published end offset agree at every record write / return)'),
    'C08r2-B': ('caught', 'R-record-layout (reader loop bound) existed'),
    'C17r2-A': ('caught', 'R-version-select existed'),
    'C17r2-B': ('missed', 'R-version-pairing extended: every (wildcard) store of the enabled version reaches a table rebuild on all normal paths'),
    'C05r2-B': ('missed', 'new rule R-serializer-idle'),
    'C05r2-A': ('missed', 'new rule R-hint-floor (a lowered failure hint stays above the first stored index)'),
    'C14r2-A': ('missed', 'new rule R-disc-attribution'),
    'C14r2-B': ('missed', 'new rule R-established-checked'),
    'C15r2-A': ('missed', 'new rule R-none-is-a-value (with positive fixture)'),
    'C15r2-B': ('caught', 'R-delegate-agree existed'),
    'C16r2-A': ('missed', 'R-late-acquire extended: both ends of the elapsed time come from the same clock'),
    'C16r2-B': ('caught', 'R-consumer-state existed'),
    'C18r2-A': ('missed', 'R-apply-on-append extended: with dynamic membership on, no path after storing entries avoids the scan; listed under C18'),
    'C18r2-B': ('caught', 'R-disposition existed'),
    'C19r2-A': ('caught', 'R-commit-subscription existed'),
    'C19r2-B': ('analysis-error', 'R-cb-linear: a local holding the same dict (equality fact) is the table; rebinding the local is not a reset'),
    'C20r2-A': ('missed', 'R-response-time-writes extended: a connection-event callback must not refresh the table'),
    'C20r2-B': ('analysis-error', 'fallback site found through .get(); a clock default for a missing entry is a violation'),
    'C01r3-A': ('missed', 'R-commit-gate extended: the verified index is derived from the message, not from the own log end'),
    'C01r3-B': ('caught', 'R-vote-grant existed'),
    'C02r3-A': ('missed', 'R-disposition extended: the handler reporting QUEUE_FULL catches nothing but the queue\'s Full'),
    'C02r3-B': ('caught', 'R-cb-linear existed'),
    'C03r3-A': ('caught', 'R-vote-grant / R-vote-refusal-justified existed'),
    'C03r3-B': ('missed', 'new rule R-tally-reset'),
    'C04r3-A': ('caught', 'R-vote-grant existed'),
    'C04r3-B': ('missed', 'R-rollback-paired extended: the rolled-back list starts at the truncation index; listed under C04'),
    'C05r3-A': ('caught', 'R-reply-exhaustive existed'),
    'C05r3-B': ('caught', 'R-step-down existed'),
    'C06r3-A': ('missed', 'R-log-owners extended: the head drop goes up to the id reported with SUCCESS'),
    'C06r3-B': ('caught', 'R-version-in-payload existed'),
    'C08r3-A': ('caught', 'R-bounded-write existed'),
    'C08r3-B': ('missed', 'R-offset-coherent extended: the publish helper writes the header unless it compares with a cache primed from the file'),
    'C09r3-A': ('caught', 'R-payload-complete existed'),
    'C09r3-B': ('missed', 'R-dump-atomic: temporary names are compared after resolving locals and attributes bound once in __init__'),
    'C10r3-A': ('caught', 'R-owners-membership (added the hour before) reported the function; R-rollback-paired now also checks that the restore installs the given set'),
    'C10r3-B': ('missed', 'R-payload-complete extended: the member component contains the writing node; listed under C10'),
    'C11r3-A': ('missed', 'new rule R-read-ungated'),
    'C11r3-B': ('caught', 'R-cmd-shapes existed'),
    'C13r3-A': ('missed', 'R-consume-once extended: the end of the buffered frames is decided by `is None`, not by truthiness'),
    'C13r3-B': ('missed', 'R-decode-contained extended: every raising step on data derived from the payload is a decode step (tuple unpacking may raise)'),
    'C17r3-A': ('missed', 'new rule R-enumeration-siblings'),
    'C17r3-B': ('caught', 'R-payload-complete (snapshot position) existed'),
    'C14r3-A': ('missed', 'R-drop-teardown extended: dropNode removes the key under which addNode filed the node'),
    'C14r3-B': ('analysis-error', 'R-readonly-id-unique: without a counter, a read-only identity built from something that can repeat is a violation'),
    'C15r3-A': ('missed', 'new rule R-heap-discipline'),
    'C15r3-B': ('caught', 'R-version-pairing existed'),
    'C16r3-A': ('missed', 'R-lock-guards extended: pop() on the lock table is a deletion too'),
    'C16r3-B': ('caught', 'R-late-acquire (path form) existed'),
    'C18r3-A': ('missed', 'R-sender-total extended: the per-node loop of a send round is not left from inside; listed under C18'),
    'C18r3-B': ('caught', 'R-request-id-unique existed'),
    'C19r3-A': ('caught', 'R-disposition (put_nowait order) existed; R-queue-locked now reports a queue without a lock instead of an analysis error'),
    'C19r3-B': ('caught', 'R-success-guard existed'),
    'C20r3-A': ('caught', 'R-response-time-writes / R-owners-liveness existed'),
    'C20r3-B': ('caught', 'R-match-writes (reset on election) existed'),
    'C01r4-A': ('missed', 'R-commit-rule tightened: the term tested is that of the entry at the candidate index, not of the last log entry'),
    'C01r4-B': ('caught', 'R-match-writes existed'),
    'C02r4-A': ('caught', 'R-success-guard existed'),
    'C02r4-B': ('caught', 'R-majority (counted population) existed'),
    'C03r4-A': ('caught', 'R-vote-grant existed'),
    'C03r4-B': ('caught', 'R-commit-rule existed'),
    'C04r4-A': ('missed', 'same clause as C01r4-A'),
    'C04r4-B': ('caught', 'R-commit-persisted-value existed'),
    'C05r4-A': ('caught', 'R-majority existed'),
    'C05r4-B': ('caught', 'R-commit-rule existed'),
    'C06r4-A': ('caught', 'R-write-then-publish existed'),
    'C06r4-B': ('caught', 'R-dump-atomic (first chunk restarts) existed'),
    'C09r4-A': ('caught', 'R-owners-membership / R-rollback-paired (restore installs the set) existed'),
    'C09r4-B': ('missed', 'R-dump-atomic extended: the rename is not inside the with-block that writes the temporary file'),
    'C10r4-A': ('caught', 'R-rollback-paired (rolled-back entries) existed'),
    'C10r4-B': ('missed', 'R-apply-on-append extended: the dispatcher re-applies every membership command it executes'),
    'C08r4-A': ('missed', 'R-record-layout extended: a size guard in front of an early exit of the reopening reader must be false for every size the writer produces'),
    'C08r4-B': ('missed', 'new rule R-commit-index-setter-only: no journal operation calls the commit-index setter or rewrites its store'),
    'C11r4-A': ('missed', 'R-chunk-kinds extended: first / middle chunks are answered (reply event) before the handler returns'),
    'C11r4-B': ('caught', 'R-length-range existed'),
    'C13r4-A': ('missed', 'R-write-fifo extended: every exit that skips the trim entails a non-positive send count'),
    'C14r4-A': ('missed', 'new rule R-connecting-registered: CONNECTING is followed by a poller subscription (or a reset) on every normal exit'),
    'C14r4-B': ('missed', 'new rule R-interval-clock: clock reads that feed interval tests of the transport / connection classes are monotonic'),
    'C15r4-A': ('caught', 'R-success-guard existed'),
    'C15r4-B': ('missed', 'R-delegate-agree extended: a wrapper named like a builtin operation hands every parameter to it, also when it is not a pure delegation'),
    'C16r4-A': ('analysis-error', 'R-lock-guards extended: boolean returns are normalised to branches, so an isAcquired without the age test is reported instead of losing the anchor'),
    'C16r4-B': ('caught', 'R-lock-guards existed'),
    'C17r4-A': ('caught', 'R-id-order existed'),
    'C17r4-B': ('caught', 'R-version-pairing existed'),
    'C18r4-A': ('missed', 'R-payload-complete extended: the member component takes nodes from the voter set and self only'),
    'C18r4-B': ('missed', 'new rule R-leader-change-notified: the waiting-reply table is swept before another leader is adopted'),
    'C19r4-A': ('missed', 'R-leader-change-notified (added for C18r4-B)'),
    'C19r4-B': ('caught', 'R-disposition existed'),
    'C20r4-A': ('analysis-error', 'R-majority extended: a threshold cached in an attribute is evaluated, and must be recomputed wherever the voter set changes'),
    'C20r4-B': ('caught', 'R-hasquorum existed'),
    'C01r5-A': ('missed', 'R-sender-prev-adjacent extended: at the send the pair still equals helper(<next index>) on every path (a pair computed before the batch loop is stale)'),
    'C01r5-B': ('caught', 'R-majority (counted population) existed'),
    'C02r5-A': ('caught', 'R-result-publish existed'),
    'C02r5-B': ('analysis-error', 'R-gate-live: the gate is analysed with boolean returns normalised, so `return mutate(..) and marker is None` is reported as a mutation in front of the gate'),
    'C03r5-A': ('caught', 'R-term-vote-writes existed'),
    'C03r5-B': ('caught', 'R-majority (counted population) existed'),
    'C04r5-A': ('caught', 'R-gate-live (marker set for every appended membership entry) existed'),
    'C04r5-B': ('missed', 'R-gate-live extended: exactly `<index remembered for the election no-op> <= lastApplied` is entailed at the mutation'),
    'C05r5-A': ('caught', 'R-timer-reset existed'),
    'C05r5-B': ('missed', 'R-transfer-flags extended: the chunk slice runs from the transfer offset to that offset plus the batch size'),
    'C06r5-A': ('caught', 'R-bounded-write existed'),
    'C06r5-B': ('caught', 'R-payload-complete (snapshot position) existed'),
    'C09r5-A': ('caught', 'R-payload-complete (applied-index source) existed'),
    'C09r5-B': ('missed', 'R-transfer-restart extended: a transfer is cancelled under the same kind of key it was started with'),
    'C10r5-A': ('caught', 'R-removed-excluded existed'),
    'C10r5-B': ('caught', 'R-rollback-paired / R-log-owners existed'),
    'C08r5-A': ('caught', 'R-tail-drop-monotone / R-offset-coherent existed'),
    'C08r5-B': ('missed', 'R-head-drop-atomic extended: an early return of the head drop is evaluated against the list model for lengths 0..4'),
    'C11r5-A': ('caught', 'R-sender-prev-adjacent (stale pair clause, added for C01r5-A) existed'),
    'C11r5-B': ('missed', 'new rule R-owners-chunk-buffer: the chunk reassembly buffer is written only by the handler'),
    'C13r5-A': ('caught', 'R-write-fifo existed'),
    'C13r5-B': ('caught', 'R-decode-contained existed'),
    'C14r5-A': ('missed', 'R-silent-timeout extended: some function between the poll handler and the socket read refreshes the stamp on every path after reading'),
    'C14r5-B': ('missed', 'R-attribution extended: an incoming connection is refused only where the looked-up node is None'),
    'C15r5-A': ('caught', 'R-delegate-agree existed'),
    'C15r5-B': ('missed', 'new rule R-reset-replaces: reset(newData) assigns the container from its argument on every path'),
    'C16r5-A': ('missed', 'new rule R-lock-client-identity: the default client id contains process id and object id'),
    'C16r5-B': ('missed', 'R-lock-client-identity: every call of the lock implementation gets a clock read as the current time'),
    'C17r5-A': ('caught', 'R-version-select existed'),
    'C17r5-B': ('caught', 'R-setversion-guards existed'),
    'C18r5-A': ('caught', 'R-majority existed'),
    'C18r5-B': ('caught', 'R-cb-linear existed'),
    'C19r5-A': ('caught', 'R-cb-linear existed'),
    'C19r5-B': ('caught', 'R-success-guard existed'),
    'C20r5-A': ('missed', 'R-fallback-every-tick tightened: the deadline is now minus the configured fallback timeout itself'),
    'C20r5-B': ('missed', 'new rule R-state-before-notify: the state setter stores the state before running a user callback'),
}


def main():
    rows = []
    d = os.path.join(VERIF, 'seeded')
    for name in sorted(os.listdir(d)):
        mp = os.path.join(d, name, 'meta.json')
        if not os.path.exists(mp):
            continue
        meta = json.load(open(mp))
        det = meta.get('detected_by')
        if isinstance(det, dict):
            rules = ', '.join(det.get('rules', []))
            props = ', '.join(det.get('properties', []))
        else:
            rules, props = '-', '-'
        first, what = HISTORY.get(name, ('?', ''))
        meta['first_run_verdict'] = first
        meta['follow_up'] = what
        json.dump(meta, open(mp, 'w'), indent=1)
        patch = open(os.path.join(d, name, 'patch.diff')).read()
        files = sorted(set(re.findall(r'^\+\+\+ b/(\S+)', patch, re.M)))
        rows.append('| %s | %s | %s | %s | %s | %s | %s |' % (name, meta.get('breaks_property'), ', '.join(f.replace('pysyncobj/', '') for f in files), props, rules, first, what))
    head = ('| change | breaks | files | checks that fire now | rules | first run | follow-up |\n'
            '|---|---|---|---|---|---|---|\n')
    table = head + '\n'.join(rows) + '\n'
    caught_first = sum(1 for r in rows if '| caught |' in r)
    summary = ('%d kept changes; %d were reported by rules that existed before the change was run, %d needed a new or extended rule '
               '(first run: missed or analysis-error). All %d are reported now.\n' % (len(rows), caught_first, len(rows) - caught_first, len([r for r in rows if '| - | - |' not in r])))
    with open(os.path.join(d, 'README.md'), 'w') as f:
        f.write('# Seeded changes\n\nEach directory holds `patch.diff` (apply with `git -C /repo apply`), the demonstration `demo.py`, the author\'s `notes.md` and `meta.json` '
                '(what it breaks, what it needs to manifest, what was run to confirm it, which checks detect it). Produced by independent sub-agents that saw only the '
                'property text and a scratch worktree; confirmed by `tools/verify_mutant.sh`; evaluated by `tools/mutant_eval.py`.\n\n' + summary + '\n' + table)
    dp = os.path.join(VERIF, 'DESIGN.md')
    s = open(dp).read()
    if '<!-- SEEDED-TABLE -->' in s:
        a = s.index('<!-- SEEDED-TABLE -->')
        b = s.index('<!-- /SEEDED-TABLE -->')
        s = s[:a] + '<!-- SEEDED-TABLE -->\n' + summary + '\n' + table + s[b:]
        open(dp, 'w').write(s)
    print(summary)


if __name__ == '__main__':
    main()
