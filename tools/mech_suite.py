#!/usr/bin/env python3
"""For the mechanical mutants that no static check reported (output of mech_mutants.py), run the repository's baseline
test suite on a scratch copy with the mutant applied: the ones that also pass the suite are the population the task is
about (test-passing changes) and are listed for triage.  Scratch copies live under /tmp and are removed.
usage: mech_suite.py [json from mech_mutants] [parallel] [max]"""
import json
import os
import shutil
import subprocess
import sys
import tempfile
from concurrent.futures import ThreadPoolExecutor

sys.path.insert(0, os.path.dirname(os.path.abspath(__file__)))
import mech_mutants as M  # noqa

DESELECT = ['test_encryptionCorrectPassword', 'test_encryptionWrongPassword', 'test_readOnlyNodes', 'test_syncobjAdminStatus', 'test_largeCommands']
SKIP_FUNC_PARTS = ('__init__', 'keepalive', '_createServer', '_onUtility', '_utilityCallback', 'setOn', '_maybeBind', 'getStatus', 'printStatus')


def run(m):
    fn, where, line, op, what, new_src = m
    tmp = tempfile.mkdtemp(prefix='mech_suite_')
    try:
        subprocess.run(['git', '-C', '/repo', 'archive', '--format=tar', 'HEAD', '-o', os.path.join(tmp, 'src.tar')], check=True)
        subprocess.run(['tar', '-xf', 'src.tar'], cwd=tmp, check=True)
        with open(os.path.join(tmp, 'pysyncobj', fn), 'w') as f:
            f.write(new_src)
        cmd = ['/venv/bin/python', '-m', 'pytest', '-q', '-x', '-p', 'no:cacheprovider', '--timeout=300', 'test_syncobj.py']
        for d in DESELECT:
            cmd += ['--deselect', 'test_syncobj.py::' + d]
        try:
            r = subprocess.run(cmd, cwd=tmp, capture_output=True, text=True, timeout=1500, env=dict(os.environ, PYTHONPATH=tmp))
            tail = (r.stdout.strip().splitlines() or ['?'])[-1]
            rc = r.returncode
        except subprocess.TimeoutExpired:
            tail, rc = 'timeout', 124
        return {'file': fn, 'func': where, 'line': line, 'op': op, 'what': what, 'suite_rc': rc, 'suite': tail[:120]}
    finally:
        shutil.rmtree(tmp, ignore_errors=True)


def main():
    src = sys.argv[1] if len(sys.argv) > 1 else '/tmp/mech_mutants.json'
    par = int(sys.argv[2]) if len(sys.argv) > 2 else 5
    mx = int(sys.argv[3]) if len(sys.argv) > 3 else 10000
    res = json.load(open(src))
    surv = [r for r in res if not r['fired'] and not r['errors'] and not any(p in r['func'] for p in SKIP_FUNC_PARTS)]
    surv = surv[:mx]
    byfile = {}
    for fn in set(r['file'] for r in surv):
        byfile[fn] = M.gen(fn)
    todo = []
    for r in surv:
        ms = [m for m in byfile[r['file']] if m[2] == r['line'] and m[3] == r['op'] and m[4] == r['what'] and m[1] == r['func']]
        if ms:
            todo.append(ms[0])
    print('%d survivors to run through the suite' % len(todo), flush=True)
    out = []
    with ThreadPoolExecutor(max_workers=par) as ex:
        for r in ex.map(run, todo):
            out.append(r)
            print('%s %-18s %-45s L%-5d %-12s %-50s | %s' % ('PASS' if r['suite_rc'] == 0 else 'fail', r['file'], r['func'][-45:], r['line'], r['op'], r['what'][:50], r['suite']), flush=True)
            json.dump(out, open('/tmp/mech_suite.json', 'w'), indent=1)
    print('%d of %d survive the suite too' % (sum(1 for r in out if r['suite_rc'] == 0), len(out)))


if __name__ == '__main__':
    main()
