#!/usr/bin/env python3
"""Regenerates sa/baseline_funcs.json: the qualified names of all functions of /repo/pysyncobj at the time the
rules were confirmed.  Used only to decide which private helpers the fallback (helper-inlined) view puts back."""
import json, os, sys
sys.path.insert(0, os.path.dirname(os.path.dirname(os.path.abspath(__file__))))
from sa.pyir import Program
P = Program(sys.argv[1] if len(sys.argv) > 1 else '/repo')
names = sorted(P.functions)
out = os.path.join(os.path.dirname(os.path.dirname(os.path.abspath(__file__))), 'sa', 'baseline_funcs.json')
json.dump({'functions': names}, open(out, 'w'), indent=0)
print(len(names), 'functions ->', out)
