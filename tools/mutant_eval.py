#!/usr/bin/env python3
"""Runs every implemented check against every seeded change under /verif/seeded/<name>/patch.diff.
Each change is applied to a scratch copy of /repo/pysyncobj (temp dir, removed afterwards); /repo is never touched.
usage: mutant_eval.py [name ...] [--patch FILE]   prints one line per change: which properties' checks fire."""
import json
import os
import shutil
import subprocess
import sys
import tempfile
from concurrent.futures import ThreadPoolExecutor

VERIF = os.path.dirname(os.path.dirname(os.path.abspath(__file__)))
sys.path.insert(0, VERIF)
from sa.props import PROPS  # noqa


def eval_patch(name, patch):
    tmp = tempfile.mkdtemp(prefix='mut_eval_')
    try:
        shutil.copytree('/repo/pysyncobj', os.path.join(tmp, 'pysyncobj'))
        r = subprocess.run(['patch', '-p1', '-s', '-i', patch], cwd=tmp, capture_output=True, text=True)
        if r.returncode != 0:
            return name, None, 'patch does not apply: ' + r.stdout + r.stderr
        env = dict(os.environ, VERIF_EVIDENCE_DIR=os.path.join(tmp, 'ev'))
        fired = {}
        errors = {}
        for pid in sorted(PROPS):
            r = subprocess.run([os.path.join(VERIF, 'check'), pid, '--repo', tmp], capture_output=True, text=True, env=env)
            if r.returncode == 1:
                fired[pid] = [l[8:] for l in r.stdout.splitlines() if l.startswith('FINDING ')]
            elif r.returncode != 0:
                errors[pid] = [l for l in r.stdout.splitlines() if 'ANALYSIS-ERROR' in l][:1]
        return name, fired, errors
    finally:
        shutil.rmtree(tmp, ignore_errors=True)


def main():
    args = sys.argv[1:]
    jobs = []
    if '--patch' in args:
        p = args[args.index('--patch') + 1]
        jobs.append((os.path.basename(p), p))
    else:
        names = args or sorted(os.listdir(os.path.join(VERIF, 'seeded')))
        for n in names:
            p = os.path.join(VERIF, 'seeded', n, 'patch.diff')
            if os.path.exists(p):
                jobs.append((n, p))
    with ThreadPoolExecutor(max_workers=14) as ex:
        results = list(ex.map(lambda j: eval_patch(*j), jobs))
    caught = 0
    for name, fired, errors in results:
        if fired is None:
            print('%-12s ERROR %s' % (name, errors))
            continue
        meta_p = os.path.join(VERIF, 'seeded', name, 'meta.json')
        target = None
        if os.path.exists(meta_p):
            meta = json.load(open(meta_p))
            target = meta.get('breaks_property')
            rules = sorted(set(f.split()[0] for fl in fired.values() for f in fl))
            meta['detected_by'] = {'properties': sorted(fired), 'rules': rules,
                                   'analysis_errors': sorted(errors)} if (fired or errors) else 'not detected by any check'
            json.dump(meta, open(meta_p, 'w'), indent=1)
        status = 'CAUGHT' if fired else ('ANALYSIS-ERROR' if errors else 'missed')
        if fired:
            caught += 1
        print('%-12s target=%s %s %s %s' % (name, target, status, ','.join(sorted(fired)), ('errors:' + ','.join(sorted(errors))) if errors else ''))
        for pid, fl in sorted(fired.items()):
            for f in fl[:2]:
                print('      %s: %s' % (pid, f[:230]))
        for pid, e in sorted(errors.items()):
            print('      %s: %s' % (pid, e))
    print('%d/%d caught' % (caught, len(results)))


if __name__ == '__main__':
    main()
