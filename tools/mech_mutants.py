#!/usr/bin/env python3
"""Mechanical mutation sweep (a measuring stick for the rules, not a check): applies single syntactic mutations
(statement deletion, comparison flips, condition negation, and/or swap, constant +-1) to the protocol functions of a
scratch copy of /repo/pysyncobj and records which mutants the static checks report.  Survivors are listed for manual
triage: many are equivalent or harmless (logging, statistics), the rest point at rule gaps.

usage: mech_mutants.py [max mutants] [seed] [--files a.py,b.py] [--out FILE]"""
import ast
import json
import os
import random
import shutil
import subprocess
import sys
import tempfile
from concurrent.futures import ThreadPoolExecutor

VERIF = os.path.dirname(os.path.dirname(os.path.abspath(__file__)))
sys.path.insert(0, VERIF)
from sa.props import PROPS  # noqa

REPO = '/repo'
FILES = ['syncobj.py', 'journal.py', 'tcp_connection.py', 'transport.py', 'serializer.py', 'batteries.py', 'fast_queue.py']
SKIP_FUNCS = {'getStatus', '_getStatus', '_printStatus', 'printStatus', '__repr__', '__str__', 'destroy', '_destroy', '_doDestroy', '__del__',
              'waitReady', 'waitBinded', '_autoTickThread', 'isReady', '_isReady'}
FLIP = {ast.Lt: '<=', ast.LtE: '<', ast.Gt: '>=', ast.GtE: '>', ast.Eq: '!=', ast.NotEq: '==', ast.Is: 'is not', ast.IsNot: 'is', ast.In: 'not in', ast.NotIn: 'in'}


def seg(src_lines, node):
    """(start offset, end offset) of node in the joined source"""
    starts = [0]
    for l in src_lines:
        starts.append(starts[-1] + len(l))
    return starts[node.lineno - 1] + node.col_offset, starts[node.end_lineno - 1] + node.end_col_offset


def gen(fn):
    src = open(os.path.join(REPO, 'pysyncobj', fn)).read()
    lines = src.splitlines(True)
    tree = ast.parse(src)
    out = []

    def func_of(stack):
        names = [n.name for n in stack if isinstance(n, (ast.FunctionDef, ast.ClassDef))]
        return '.'.join(names)

    def visit(node, stack):
        if isinstance(node, ast.FunctionDef) and node.name in SKIP_FUNCS:
            return
        st2 = stack + [node]
        in_func = any(isinstance(n, ast.FunctionDef) for n in st2)
        if in_func:
            where = func_of(st2)
            # statement deletion
            if isinstance(node, (ast.Expr, ast.Assign, ast.AugAssign)) and not (isinstance(node, ast.Expr) and isinstance(node.value, ast.Constant)):
                txt = ast.get_source_segment(src, node) or ''
                if 'logger.' not in txt and 'logging.' not in txt:
                    a, b = seg(lines, node)
                    out.append((fn, where, node.lineno, 'delete', txt.split('\n')[0][:60], src[:a] + 'pass' + src[b:]))
            if isinstance(node, (ast.Break, ast.Continue)):
                a, b = seg(lines, node)
                out.append((fn, where, node.lineno, 'delete-' + type(node).__name__.lower(), '', src[:a] + 'pass' + src[b:]))
            if isinstance(node, ast.Compare) and len(node.ops) == 1 and type(node.ops[0]) in FLIP:
                l, r = node.left, node.comparators[0]
                la, lb = seg(lines, l)
                ra, rb = seg(lines, r)
                new = src[:lb] + ' ' + FLIP[type(node.ops[0])] + ' ' + src[ra:]
                out.append((fn, where, node.lineno, 'flip-cmp', (ast.get_source_segment(src, node) or '')[:60], new))
            if isinstance(node, (ast.If, ast.While)) and not (isinstance(node.test, ast.Constant)):
                a, b = seg(lines, node.test)
                out.append((fn, where, node.lineno, 'negate-cond', (ast.get_source_segment(src, node.test) or '')[:60], src[:a] + 'not (' + src[a:b] + ')' + src[b:]))
            if isinstance(node, ast.BoolOp) and len(node.values) == 2:
                a0, b0 = seg(lines, node.values[0])
                a1, b1 = seg(lines, node.values[1])
                op = ' or ' if isinstance(node.op, ast.And) else ' and '
                out.append((fn, where, node.lineno, 'swap-boolop', (ast.get_source_segment(src, node) or '')[:60], src[:b0] + op + src[a1:]))
            if isinstance(node, ast.Constant) and isinstance(node.value, int) and not isinstance(node.value, bool) and 0 <= node.value <= 8:
                a, b = seg(lines, node)
                out.append((fn, where, node.lineno, 'const+1', str(node.value), src[:a] + str(node.value + 1) + src[b:]))
        for c in ast.iter_child_nodes(node):
            visit(c, st2)
    visit(tree, [])
    good = []
    for m in out:
        try:
            compile(m[5], fn, 'exec')
            good.append(m)
        except SyntaxError:
            pass
    return good


def run(m):
    fn, where, line, op, what, new_src = m
    tmp = tempfile.mkdtemp(prefix='mech_')
    try:
        shutil.copytree(os.path.join(REPO, 'pysyncobj'), os.path.join(tmp, 'pysyncobj'))
        with open(os.path.join(tmp, 'pysyncobj', fn), 'w') as f:
            f.write(new_src)
        env = dict(os.environ, VERIF_EVIDENCE_DIR=os.path.join(tmp, 'ev'))
        fired, errs = [], []
        for pid in sorted(PROPS):
            r = subprocess.run([os.path.join(VERIF, 'check'), pid, '--repo', tmp], capture_output=True, text=True, env=env)
            if r.returncode == 1:
                fired.append(pid + ':' + ','.join(sorted(set(l.split()[1] for l in r.stdout.splitlines() if l.startswith('FINDING ')))))
            elif r.returncode != 0:
                errs.append(pid)
        return {'file': fn, 'func': where, 'line': line, 'op': op, 'what': what, 'fired': fired, 'errors': errs}
    finally:
        shutil.rmtree(tmp, ignore_errors=True)


def main():
    args = [a for a in sys.argv[1:] if not a.startswith('--')]
    n = int(args[0]) if args else 200
    seed = int(args[1]) if len(args) > 1 else 1
    files = FILES
    out = '/tmp/mech_mutants.json'
    for i, a in enumerate(sys.argv):
        if a == '--files':
            files = sys.argv[i + 1].split(',')
        if a == '--out':
            out = sys.argv[i + 1]
    allm = []
    for fn in files:
        allm += gen(fn)
    rnd = random.Random(seed)
    rnd.shuffle(allm)
    sample = allm[:n]
    print('%d mutants generated, %d sampled' % (len(allm), len(sample)))
    with ThreadPoolExecutor(max_workers=int(os.environ.get('MECH_JOBS', '14'))) as ex:
        res = list(ex.map(run, sample))
    det = [r for r in res if r['fired']]
    err = [r for r in res if not r['fired'] and r['errors']]
    surv = [r for r in res if not r['fired'] and not r['errors']]
    print('reported: %d   analysis-error only: %d   survived: %d' % (len(det), len(err), len(surv)))
    json.dump(res, open(out, 'w'), indent=1)
    for r in sorted(surv, key=lambda r: (r['file'], r['line'])):
        print('SURVIVED %-18s %-45s L%-5d %-12s %s' % (r['file'], r['func'][-45:], r['line'], r['op'], r['what']))
    for r in sorted(err, key=lambda r: (r['file'], r['line'])):
        print('ERROR    %-18s %-45s L%-5d %-12s %s  [%s]' % (r['file'], r['func'][-45:], r['line'], r['op'], r['what'], ','.join(r['errors'])))


if __name__ == '__main__':
    main()
