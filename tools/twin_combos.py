#!/usr/bin/env python3
"""Stacks several behaviour-preserving twins (selftest/twins/*.diff) on one scratch copy of /repo/pysyncobj and runs
all checks on the result: compound refactorings must stay silent too.
usage: twin_combos.py [N combos] [k per combo] [seed]"""
import os
import random
import shutil
import subprocess
import sys
import tempfile
from concurrent.futures import ThreadPoolExecutor

VERIF = os.path.dirname(os.path.dirname(os.path.abspath(__file__)))
sys.path.insert(0, VERIF)
from sa.props import PROPS  # noqa

TW = os.path.join(VERIF, 'selftest', 'twins')


def try_combo(names):
    tmp = tempfile.mkdtemp(prefix='twin_combo_')
    try:
        shutil.copytree('/repo/pysyncobj', os.path.join(tmp, 'pysyncobj'))
        applied = []
        for n in names:
            r = subprocess.run(['patch', '-p1', '-s', '--no-backup-if-mismatch', '-F', '0', '-i', os.path.join(TW, n)], cwd=tmp, capture_output=True, text=True)
            if r.returncode != 0:
                # undo partial application by restarting without this twin
                shutil.rmtree(os.path.join(tmp, 'pysyncobj'))
                shutil.copytree('/repo/pysyncobj', os.path.join(tmp, 'pysyncobj'))
                for a in applied:
                    subprocess.run(['patch', '-p1', '-s', '--no-backup-if-mismatch', '-F', '0', '-i', os.path.join(TW, a)], cwd=tmp, capture_output=True, text=True)
                continue
            applied.append(n)
        for fn in os.listdir(os.path.join(tmp, 'pysyncobj')):
            if fn.endswith('.py'):
                src = open(os.path.join(tmp, 'pysyncobj', fn)).read()
                compile(src, fn, 'exec')
        env = dict(os.environ, VERIF_EVIDENCE_DIR=os.path.join(tmp, 'ev'))
        fired, errors = {}, {}
        for pid in sorted(PROPS):
            r = subprocess.run([os.path.join(VERIF, 'check'), pid, '--repo', tmp], capture_output=True, text=True, env=env)
            if r.returncode == 1:
                fired[pid] = [l[8:160] for l in r.stdout.splitlines() if l.startswith('FINDING ')]
            elif r.returncode != 0:
                errors[pid] = [l[:200] for l in r.stdout.splitlines() if 'ANALYSIS-ERROR' in l][:1]
        return applied, fired, errors
    finally:
        shutil.rmtree(tmp, ignore_errors=True)


def main():
    n = int(sys.argv[1]) if len(sys.argv) > 1 else 12
    k = int(sys.argv[2]) if len(sys.argv) > 2 else 3
    seed = int(sys.argv[3]) if len(sys.argv) > 3 else 1
    rnd = random.Random(seed)
    twins = sorted(f for f in os.listdir(TW) if f.endswith('.diff'))
    combos = [rnd.sample(twins, k) for _ in range(n)]
    with ThreadPoolExecutor(max_workers=8) as ex:
        results = list(ex.map(try_combo, combos))
    bad = 0
    for applied, fired, errors in results:
        status = 'silent' if not fired and not errors else ('FALSE ALARM' if fired else 'analysis-error')
        if status != 'silent':
            bad += 1
        print('%-14s %s' % (status, ' + '.join(a[:-5] for a in applied)))
        for pid, fl in fired.items():
            for f in fl[:2]:
                print('      %s: %s' % (pid, f))
        for pid, e in errors.items():
            print('      %s: %s' % (pid, e))
    print('%d/%d combinations silent' % (len(results) - bad, len(results)))


if __name__ == '__main__':
    main()
