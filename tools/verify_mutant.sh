#!/bin/bash
# usage: verify_mutant.sh <src dir with patch.diff demo.py notes.md> <property id> <name> [delay seconds]
# Confirms a candidate seeded change in a scratch worktree of /repo (outside /repo and /verif):
#   demo passes on the pristine tree, fails with the patch, the patch applies, and the baseline suite
#   (minus the 4 always-failing + 1 flaky tests) still passes with the patch.  Writes /verif/seeded/<name>/.
SRC="$1"; PROP="$2"; NAME="$3"; DELAY="${4:-0}"
sleep "$DELAY"
W=/tmp/vm/$NAME
rm -rf "$W"; git -C /repo worktree prune
git -C /repo worktree add --detach "$W" HEAD -q || exit 3
mkdir -p "$W/MUTANTS/X"; cp "$SRC"/patch.diff "$SRC"/demo.py "$W/MUTANTS/X/" 2>/dev/null
cp "$SRC"/*.py "$W/MUTANTS/X/" 2>/dev/null
cd "$W"
run_demo() {
  if grep -q "^def test_\|import pytest" MUTANTS/X/demo.py && ! grep -q "__main__" MUTANTS/X/demo.py; then
    PYTHONPATH="$W" timeout 300 /venv/bin/python -m pytest -q -p no:cacheprovider -x MUTANTS/X/demo.py >"$1" 2>&1
  else
    PYTHONPATH="$W" timeout 300 /venv/bin/python MUTANTS/X/demo.py >"$1" 2>&1
  fi
  echo $?
}
RC_PRISTINE=$(run_demo /tmp/vm/$NAME.demo_pristine.log)
git apply MUTANTS/X/patch.diff; RC_APPLY=$?
RC_MUT=$(run_demo /tmp/vm/$NAME.demo_mutant.log)
timeout 1500 /venv/bin/python -m pytest -q -p no:cacheprovider --timeout=900 test_syncobj.py \
  --deselect test_syncobj.py::test_encryptionCorrectPassword --deselect test_syncobj.py::test_encryptionWrongPassword \
  --deselect test_syncobj.py::test_readOnlyNodes --deselect test_syncobj.py::test_syncobjAdminStatus \
  --deselect test_syncobj.py::test_largeCommands > /tmp/vm/$NAME.suite.log 2>&1
RC_SUITE=$?
SUITE_LINE=$(tail -1 /tmp/vm/$NAME.suite.log)
cd /; git -C /repo worktree remove --force "$W"; rm -rf "$W"
OUT=/verif/seeded/$NAME
KEEP=no
if [ "$RC_PRISTINE" = "0" ] && [ "$RC_APPLY" = "0" ] && [ "$RC_MUT" != "0" ] && [ "$RC_SUITE" = "0" ]; then KEEP=yes; fi
echo "$NAME prop=$PROP pristine_rc=$RC_PRISTINE apply_rc=$RC_APPLY mutant_rc=$RC_MUT suite_rc=$RC_SUITE keep=$KEEP :: $SUITE_LINE" | tee /tmp/vm/$NAME.result
if [ "$KEEP" = "yes" ]; then
  mkdir -p "$OUT"; cp "$SRC/patch.diff" "$OUT/patch.diff"; cp "$SRC/demo.py" "$OUT/demo.py"; cp "$SRC/notes.md" "$OUT/notes.md" 2>/dev/null
  python3 - "$OUT" "$PROP" "$NAME" "$RC_PRISTINE" "$RC_MUT" "$SUITE_LINE" <<'PY'
import json, sys, re
out, prop, name, rcp, rcm, suite = sys.argv[1:7]
notes = open(out + '/notes.md').read() if __import__('os').path.exists(out + '/notes.md') else ''
needs = ''
m = re.search(r'(?is)\*\*Needs?\*\*[^\n]*\n?(.*?)(\n\s*\n|\n\*\*)', notes)
if m:
    needs = (m.group(0)).strip()[:900]
meta = {
  'breaks_property': prop,
  'origin': 'independent sub-agent given only the property text and a scratch worktree of /repo (commit %s)' % __import__('subprocess').check_output(['git', '-C', '/repo', 'rev-parse', '--short', 'HEAD']).decode().strip(),
  'needs_to_manifest': needs or 'see notes.md',
  'confirmed_by_me': {
     'scratch_worktree': '/tmp/vm/%s (removed)' % name,
     'demo_on_pristine_exit': int(rcp), 'demo_with_patch_exit': int(rcm),
     'git_apply': 'ok',
     'suite_with_patch': suite.strip(),
     'suite_cmd': 'pytest test_syncobj.py minus the 4 always-failing and 1 flaky baseline tests',
  },
  'detected_by': 'filled in by tools/mutant_eval.py',
}
json.dump(meta, open(out + '/meta.json', 'w'), indent=1)
PY
fi
