#!/usr/bin/env python3
"""Regenerates /verif/MANIFEST.json from sa/props.py (run after changing the property table)."""
import json
import os
import sys
HERE = os.path.dirname(os.path.dirname(os.path.abspath(__file__)))
sys.path.insert(0, HERE)
from sa.props import PROPS, NOT_APPLICABLE   # noqa

ALL = ['C%02d' % i for i in range(1, 21)]
BASELINE = "cd /repo && /venv/bin/python -m pytest -ra -q -p no:cacheprovider --timeout=900 --continue-on-collection-errors test_syncobj.py"

checks = []
for pid in ALL:
    if pid not in PROPS:
        continue
    s = PROPS[pid]
    checks.append({
        'property_id': pid,
        'quick_cmd': './check %s --tier quick' % pid,
        'thorough_cmd': './check %s --tier thorough' % pid,
        'evidence_file': 'evidence/%s.json' % pid,
        'replay_cmd_template': './check %s --tier quick   # static finding, see {path}' % pid,
        'engine': 'sa',
        'level_claimed': {
            'category': 'other',
            'text': s['level_text'],
            'design_ref': 'DESIGN.md section 3, %s' % pid,
        },
        'level_note': s['level_note'],
        'technique': s['technique'],
    })
na = []
for pid in ALL:
    if pid not in PROPS:
        na.append({'property_id': pid, 'reason': NOT_APPLICABLE.get(pid, 'no static rule implemented for this property')})
m = {
    'version': 1,
    'setup_cmd': 'true',
    'hooks': {
        'guard': 'BAKWC_PYSYNCOBJ_VERIF',
        'enable': 'none needed: the checks parse /repo/pysyncobj/*.py with the ast module; no instrumentation exists in the repository',
        'baseline_off_cmd': BASELINE,
        'source_commits': [],
        'add_only': True,
    },
    'engines': [{
        'name': 'sa',
        'path': 'sa/',
        'serves_properties': [c['property_id'] for c in checks],
        'kind_free_text': 'repository-specific static analysis: AST front end with role binding through the public API, '
                          'per-function CFG with exception edges, path-sensitive must-fact exploration with a '
                          'difference-constraint entailment oracle, call graph / effect summaries, small-domain evaluation '
                          'of extracted arithmetic, table and sibling agreement rules',
    }],
    'checks': checks,
    'not_applicable': na,
    'notes': 'All checks are static: they parse the current working tree of /repo and never import or run it. '
             'Exit 0 = every rule instance held or is a listed known finding; exit 1 + VIOLATION line = a rule instance is '
             'broken (construct named in evidence/<id>.violation.json); exit 2 + ANALYSIS-ERROR = an anchor vanished or the '
             'code uses a construct the analyser does not interpret. Genuine defects repaired in /repo are listed as '
             '"fixed:" entries in known_findings.json; recorded ones under "known".',
}
with open(os.path.join(HERE, 'MANIFEST.json'), 'w') as f:
    json.dump(m, f, indent=1)
print('MANIFEST.json: %d checks, %d not applicable' % (len(checks), len(na)))
