"""D22 (C15): ReplSet.pop() is replicated as "pop an arbitrary element" and executed by set.pop(), whose choice
depends on the hash-table layout.  Two replicas holding equal sets -- one that replayed the log, one restored from
a snapshot payload (pickle rebuilds a compact table) -- remove different elements and stay different.
Run: /venv/bin/python findings/D22_replset_pop_layout_dependent.py   (exit 1 = defect shown)"""
import pickle
import sys
sys.path.insert(0, '/repo')
from pysyncobj.batteries import ReplSet

a = ReplSet()
for i in range(200):
    a.add(i, _doApply=True)
for i in range(200):
    if i not in (9, 16):
        a.discard(i, _doApply=True)
b = ReplSet()
b._deserialize(pickle.loads(pickle.dumps(a._serialize())))      # what a node restored from a snapshot holds
assert a.rawData() == b.rawData() == {9, 16}
ra, rb = a.pop(_doApply=True), b.pop(_doApply=True)               # the same replicated command on both replicas
print('replica A popped', ra, '-> left', a.rawData(), '| replica B popped', rb, '-> left', b.rawData())
sys.exit(1 if a.rawData() != b.rawData() else 0)
