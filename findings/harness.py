import sys, os, pickle, struct
sys.path.insert(0, os.environ.get('REPO', '/repo'))
from pysyncobj import SyncObj, SyncObjConf, replicated
from pysyncobj.syncobj import _COMMAND_TYPE, _bchr
from pysyncobj.transport import Transport
from pysyncobj.node import TCPNode

class MockT(Transport):
    def __init__(self, syncObj, selfNode, otherNodes):
        Transport.__init__(self, syncObj, selfNode, otherNodes)
        self.sent = []
        self.added=[]; self.dropped=[]
    def send(self, node, message):
        self.sent.append((node, message)); return True
    def addNode(self, n): self.added.append(n)
    def dropNode(self, n): self.dropped.append(n)

class Obj(SyncObj):
    def __init__(self, selfAddr, others, **kw):
        conf = SyncObjConf(autoTick=False, **kw)
        self.vals = []
        SyncObj.__init__(self, selfAddr, others, conf, transportClass=MockT)
    @replicated
    def add(self, x):
        self.vals.append(x); return len(self.vals)
    @replicated
    def boom(self):
        raise ValueError('boom')

def T(o): return o._SyncObj__transport
def cmd(o, name, *args):
    mid = o._methodToID[name + '_v0']
    return _bchr(_COMMAND_TYPE.REGULAR) + pickle.dumps((mid, args) if args else mid, 2)
def inject(o, node, msg): o._SyncObj__onMessageReceived(TCPNode(node) if isinstance(node, str) else node, msg)
def connect(o, addr): o._SyncObj__onNodeConnected(TCPNode(addr))
def log(o): 
    l = o._SyncObj__raftLog
    return [l[i] for i in range(len(l))]
def make_leader(o):
    o._SyncObj__raftElectionDeadline = 0
    o._onTick(0.0)
    n = (len(o.otherNodes)+1)//2
    for i in range(n):
        inject(o, 'x:1', {'type':'response_vote','term':o.raftCurrentTerm})
    assert o._isLeader()
