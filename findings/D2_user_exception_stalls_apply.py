"""D2 (C12, known finding): an exception raised by a replicated method leaves the apply loop.
Run: cd /verif/findings && /venv/bin/python D2_user_exception_stalls_apply.py   (exits 1 while the defect exists)"""
from harness import *
from harness import _bchr, _COMMAND_TYPE, pickle
o = Obj('a:1', ['b:2', 'c:3'])
connect(o, 'b:2')
ents = [(cmd(o, 'boom'), 2, 1), (cmd(o, 'add', 'y'), 3, 1)]
inject(o, 'b:2', {'type': 'append_entries', 'term': 1, 'commit_index': 3, 'prevLogIdx': 1, 'prevLogTerm': 0, 'entries': ents})
raised = 0
for i in range(3):
    try:
        o._SyncObj__applyLogEntries()
    except ValueError:
        raised += 1
print('ticks that raised:', raised, 'applied index:', o.raftLastApplied, 'vals:', o.vals)
assert o.raftLastApplied == 3 and o.vals == ['y'], 'D2: the raising command is retried for ever; later entries are never applied'
