from harness import *
from harness import _bchr, _COMMAND_TYPE, pickle
class O(SyncObj):
    def __init__(self, a, others, **kw):
        SyncObj.__init__(self, a, others, SyncObjConf(autoTick=False, **kw), transportClass=MockT)
        self.vals = []
    @replicated
    def add(self, x):
        self.vals.append(x); return len(self.vals)
def cmd2(o, x):
    return _bchr(_COMMAND_TYPE.REGULAR) + pickle.dumps((o._methodToID['add_v0'], (x,)), 2)
L = O('a:1', ['b:2','c:3'], logCompactionBatchSize=10**6)
F = O('b:2', ['a:1','c:3'], logCompactionBatchSize=10**6)
for o in (L, F):
    for n in o.otherNodes: o._SyncObj__onNodeConnected(n)
ents=[(cmd2(L,i),i,1) for i in range(2,11)]
for o in (L,F):
    inject(o, 'c:3', {'type':'append_entries','term':1,'commit_index':8,'prevLogIdx':1,'prevLogTerm':0,'entries':ents[:7]})   # 2..8
    o._SyncObj__applyLogEntries()
print('L applied', L.raftLastApplied, L.vals)
# L compacts at 8 (in-memory dump)
L.forceLogCompaction(); L._SyncObj__tryLogCompaction(); L._SyncObj__tryLogCompaction()
chunk = L._SyncObj__serializer.getTransmissionData('b:2')
print('snapshot chunk', len(chunk[0]), chunk[1], chunk[2])
# F goes on: receives 9,10 and applies them
inject(F, 'c:3', {'type':'append_entries','term':1,'commit_index':10,'prevLogIdx':8,'prevLogTerm':1,'entries':ents[7:]})
F._SyncObj__applyLogEntries()
print('F applied', F.raftLastApplied, F.vals, 'commit', F.raftCommitIndex)
before = F.raftLastApplied
# a late / duplicate snapshot of position 8 arrives (single chunk: first, not last; then empty last chunk)
inject(F, 'c:3', {'type':'append_entries','term':1,'commit_index':10,'serialized':(chunk[0], True, False)})
inject(F, 'c:3', {'type':'append_entries','term':1,'commit_index':10,'serialized':(b'', False, True)})
print('F applied after old snapshot', F.raftLastApplied, F.vals, 'commit', F.raftCommitIndex, 'log', [e[1] for e in log(F)])
assert F.raftLastApplied >= before, 'applied index moved backwards: %d -> %d' % (before, F.raftLastApplied)
