"""Variants for the checker's self-test (see sa/selftest.py).
kind 'break': the edit violates the property; `rule` must fire for one of `props`.
kind 'preserve': behaviour-preserving refactoring; all checks must stay silent."""

S = 'syncobj.py'
J = 'journal.py'
T = 'tcp_connection.py'
B = 'batteries.py'
SER = 'serializer.py'
TR = 'transport.py'
FQ = 'fast_queue.py'


def brk(id, props, rule, *edits, **kw):
    d = {'id': id, 'kind': 'break', 'props': props, 'rule': rule, 'edits': list(edits)}
    d.update(kw)
    return d


def keep(id, *edits, **kw):
    d = {'id': id, 'kind': 'preserve', 'edits': list(edits)}
    d.update(kw)
    return d


VARIANTS = [
    # ------------------------------------------------------------------ behaviour-preserving refactorings
    keep('P-isacquired-single-return', (B, """        if existingLock is not None:
            if existingLock[0] == clientID:
                if currentTime - existingLock[1] < self.__autoUnlockTime:
                    return True
        return False
""", """        return existingLock is not None and existingLock[0] == clientID and currentTime - existingLock[1] < self.__autoUnlockTime
""")),
    keep('P-reader-corruption-guard', (J, "            nextRecordData = self.__journalFile.read(currentOffset + 4, nextRecordSize)\n", "            if nextRecordSize < 16:\n                break\n            nextRecordData = self.__journalFile.read(currentOffset + 4, nextRecordSize)\n")),
    keep('P-send-count-nonpositive', (T, "            if res < 0:\n                self.disconnect()\n                return False\n            if res == 0:\n                return False\n", "            if res < 0:\n                self.disconnect()\n                return False\n            if res <= 0:\n                return False\n")),
    keep('P-created-at-wall-clock', (TR, "        self._lastConnectAttempt = {}", "        self._lastConnectAttempt = {}\n        self._createdAt = time.time()  # informational")),
    keep('P-leader-adopt-explicit-none', (S, "            if self.__raftLeader != node:\n                self.__onLeaderChanged()", "            if self.__raftLeader is None or self.__raftLeader != node:\n                self.__onLeaderChanged()")),
    keep('P-first-conflict-by-guard', (S, "                    if existingEntries[pos][2] != newEntries[pos][2]:\n                        conflictPos = pos\n                        break\n", "                    if conflictPos is None and existingEntries[pos][2] != newEntries[pos][2]:\n                        conflictPos = pos\n")),
    keep('P-sweep-inlined-at-adopt', (S, "            if self.__raftLeader != node:\n                self.__onLeaderChanged()\n", "            if self.__raftLeader != node:\n                for id_ in sorted(self.__commandsWaitingReply):\n                    self.__commandsWaitingReply[id_](None, FAIL_REASON.LEADER_CHANGED)\n                self.__commandsWaitingReply = {}\n")),
    keep('P-connecting-early-but-reset', (T, "        self.__lastReadTime = monotonicTime()\n\n        try:\n            self.__socket.connect((host, port))\n        except socket.error as e:\n            if e.errno not in (socket.errno.EINPROGRESS, socket.errno.EWOULDBLOCK):\n                return False\n        self.__fileno = self.__socket.fileno()\n        self.__state = CONNECTION_STATE.CONNECTING\n",
          "        self.__lastReadTime = monotonicTime()\n        self.__state = CONNECTION_STATE.CONNECTING\n\n        try:\n            self.__socket.connect((host, port))\n        except socket.error as e:\n            if e.errno not in (socket.errno.EINPROGRESS, socket.errno.EWOULDBLOCK):\n                self.__state = CONNECTION_STATE.DISCONNECTED\n                return False\n        self.__fileno = self.__socket.fileno()\n")),
    keep('P-retry-clock-hoisted', (TR, "        if node in self._lastConnectAttempt and monotonicTime() - self._lastConnectAttempt[node] < self._syncObj.conf.connectionRetryTime:\n            return False\n        self._lastConnectAttempt[node] = monotonicTime()", "        now = monotonicTime()\n        if node in self._lastConnectAttempt and now - self._lastConnectAttempt[node] < self._syncObj.conf.connectionRetryTime:\n            return False\n        self._lastConnectAttempt[node] = monotonicTime()")),
    keep('P-send-count-branches', (T, "            if res < 0:\n                self.disconnect()\n                return False\n            if res == 0:\n                return False\n            self.__writeBuffer = self.__writeBuffer[res:]\n            return True\n", "            if res > 0:\n                self.__writeBuffer = self.__writeBuffer[res:]\n                return True\n            if res < 0:\n                self.disconnect()\n            return False\n")),
    keep('P-members-via-local-voters', (S, "cluster = self.__otherNodes | {self.__selfNode}", "voters = self.__otherNodes\n        cluster = voters | {self.__selfNode}")),
    keep('P-head-drop-noop-guard', (J, "        journal = self.__journal[entryTo:]\n        self.clear()", "        if entryTo <= 0:\n            return\n        journal = self.__journal[entryTo:]\n        self.clear()")),
    keep('P-rename-commitIndex', (S, '__raftCommitIndex', '__commitIdx')),
    keep('P-rename-votedFor', (S, '__votedForNodeId', '__votedFor')),
    keep('P-rename-log', (S, '__raftLog', '__journal')),
    keep('P-rename-lastApplied', (S, '__raftLastApplied', '__appliedIdx')),
    keep('P-rename-getter', (S, '__getCurrentLogIndex', '__lastLogIdx')),
    keep('P-rename-otherNodes', (S, '__otherNodes', '__voters')),
    keep('P-rename-matchIndex', (S, '__raftMatchIndex', '__matchIdx')),
    keep('P-inline-log-term-getter', (S, 'if lastLogTerm < self.__getCurrentLogTerm():', 'if lastLogTerm < self.__raftLog[-1][2]:'),
         (S, 'if lastLogTerm == self.__getCurrentLogTerm() and \\\n                            lastLogIdx < self.__getCurrentLogIndex():',
          'if lastLogTerm == self.__raftLog[-1][2] and lastLogIdx < self.__raftLog[-1][1]:')),
    keep('P-majority-as-2x', (S, 'if self.__votesCount > (len(self.__otherNodes) + 1) / 2:', 'if 2 * self.__votesCount > len(self.__otherNodes) + 1:')),
    keep('P-majority-floordiv', (S, 'if self.__votesCount > (len(self.__otherNodes) + 1) / 2:', 'if self.__votesCount > (len(self.__otherNodes) + 1) // 2:')),
    keep('P-majority-negated-form', (S, '                if count <= (len(self.__otherNodes) + 1) / 2:\n                    break',
                                     '                if not (count > (len(self.__otherNodes) + 1) / 2):\n                    break')),
    keep('P-vote-checks-reordered', (S, """                    if lastLogTerm < self.__getCurrentLogTerm():
                        return
                    if lastLogTerm == self.__getCurrentLogTerm() and \\
                            lastLogIdx < self.__getCurrentLogIndex():
                        return
                    if self.__votedForNodeId is not None:
                        return
""", """                    if self.__votedForNodeId is not None:
                        return
                    if lastLogTerm < self.__getCurrentLogTerm():
                        return
                    if lastLogTerm == self.__getCurrentLogTerm() and \\
                            lastLogIdx < self.__getCurrentLogIndex():
                        return
""")),
    keep('P-compare-flipped', (S, 'if lastLogTerm < self.__getCurrentLogTerm():', 'if self.__getCurrentLogTerm() > lastLogTerm:')),
    keep('P-voted-ne-none', (S, '                    if self.__votedForNodeId is not None:\n                        return', '                    if self.__votedForNodeId != None:\n                        return')),
    keep('P-rename-local-prevLogIdx', (S, r'\bprevLogIdx\b(?!\')', 'pIdx'), regex=True),
    keep('P-gate-len-test', (S, '                if not prevEntries:\n', '                if len(prevEntries) == 0:\n')),
    keep('P-applied-plain-increment', (S, '                    self.__raftLastApplied += 1', '                    self.__raftLastApplied = self.__raftLastApplied + 1')),
    keep('P-term-plain-increment', (S, '                self.__raftCurrentTerm += 1', '                self.__raftCurrentTerm = self.__raftCurrentTerm + 1')),
    keep('P-add-loop-unpacked', (S, '                for entry in entriesToAdd:\n                    self.__raftLog.add(*entry)',
                                 '                for command, idx, term in entriesToAdd:\n                    self.__raftLog.add(command, idx, term)')),
    keep('P-commit-term-test-positive', (S, """                commitTerm = entries[0][2]
                if commitTerm != self.__raftCurrentTerm:
                    continue
                nextCommitIdx = commitIdx""", """                commitTerm = entries[0][2]
                if commitTerm == self.__raftCurrentTerm:
                    nextCommitIdx = commitIdx""")),
    keep('P-hasquorum-2x', (S, 'return connected_count > node_count / 2', 'return 2 * connected_count > node_count')),
    keep('P-become-leader-reordered', (S, """            self.__raftNextIndex[node] = self.__getCurrentLogIndex() + 1
            self.__raftMatchIndex[node] = 0
            self.__lastResponseTime[node] = monotonicTime()""", """            self.__lastResponseTime[node] = monotonicTime()
            self.__raftMatchIndex[node] = 0
            self.__raftNextIndex[node] = self.__getCurrentLogIndex() + 1""")),
    keep('P-comments-and-blank-lines', (S, '    def __applyLogEntries(self):\n', '    # apply everything that is committed\n\n    def __applyLogEntries(self):\n        # NOTE: runs on the tick thread\n')),
    keep('P-journal-rename-locals', (J, 'cmdLenData', 'sizeField')),
    keep('P-journal-rename-offset', (J, '__currentOffset', '__endOffset')),
    keep('P-resizable-rename', (J, 'newSize', 'wanted')),
    keep('P-serializer-rename-tmp', (SER, 'tmpFile', 'tmpName')),
    keep('P-tcp-rename-length', (T, """        l = struct.unpack('i', self.__readBuffer[:4])[0]
        if l < 0:
            # Invalid frame length
            self.disconnect()
            return None
        if len(self.__readBuffer) - 4 < l:
            return None
        data = self.__readBuffer[4:4 + l]""", """        frameLen = struct.unpack('i', self.__readBuffer[:4])[0]
        if frameLen < 0:
            # Invalid frame length
            self.disconnect()
            return None
        if len(self.__readBuffer) - 4 < frameLen:
            return None
        data = self.__readBuffer[4:4 + frameLen]"""), (T, 'self.__readBuffer = self.__readBuffer[4 + l:]', 'self.__readBuffer = self.__readBuffer[4 + frameLen:]')),
    keep('P-tcp-bound-test-rewritten', (T, 'if len(self.__readBuffer) - 4 < l:', 'if l > len(self.__readBuffer) - 4:')),
    keep('P-tcp-except-exception', (T, """        except:
            # Why no logging of security errors?""", """        except Exception:
            # Why no logging of security errors?""")),
    keep('P-batteries-rename-data', (B, '__data', '__items')),
    keep('P-lock-expiry-flipped', (B, 'if currentTime - existingLock[1] > self.__autoUnlockTime:', 'if self.__autoUnlockTime < currentTime - existingLock[1]:')),
    keep('P-fastqueue-rename', (FQ, '__queue', '__items')),
    keep('P-queue-drain-local-rename', (S, r'\brequestNode\b', 'fwdNode'), regex=True),
    keep('P-leader-commit-while-to-for', (S, 'commitIdx = self.__raftCommitIndex\n            nextCommitIdx = self.__raftCommitIndex', 'nextCommitIdx = self.__raftCommitIndex\n            commitIdx = self.__raftCommitIndex')),
    keep('P-send-ack-kwargs-order', (S, 'self.__sendNextNodeIdx(node, nextNodeIdx=nextNodeIdx, success=True)', 'self.__sendNextNodeIdx(node, success=True, nextNodeIdx=nextNodeIdx)')),
    keep('P-dropnode-reordered', (TR, """        if isinstance(node, TCPNode):
            self._nodes.discard(node)
            self._nodeAddrToNode.pop(node.address, None)""", """        if isinstance(node, TCPNode):
            self._nodeAddrToNode.pop(node.address, None)
            self._nodes.discard(node)""")),
    keep('P-meta-os-replace', (J, "shutil.move(self.__path + '.tmp', self.__path)", "os.replace(self.__path + '.tmp', self.__path)")),
    keep('P-version-sorted-inline', (S, """            versions = sorted(list(versions))
            for v in versions:""", """            for v in sorted(versions):""")),

    keep('P-state-ne-leader', (S, "            if self.__raftState in (_RAFT_STATE.FOLLOWER, _RAFT_STATE.CANDIDATE):\n                lastLogTerm", "            if self.__raftState != _RAFT_STATE.LEADER:\n                lastLogTerm")),
    keep('P-voters-iterated-as-list', (S, "                for node in self.__otherNodes:\n                    if self.__raftMatchIndex[node] >= commitIdx:", "                for node in list(self.__otherNodes):\n                    if self.__raftMatchIndex[node] >= commitIdx:")),
    keep('P-lock-helper-extracted',
         (B, "    @replicated\n    def acquire(self, lockID, clientID, currentTime):", "    def __isExpired(self, lockTime, currentTime):\n        return currentTime - lockTime > self.__autoUnlockTime\n\n    @replicated\n    def acquire(self, lockID, clientID, currentTime):"),
         (B, "            if currentTime - existingLock[1] > self.__autoUnlockTime:\n                existingLock = None", "            if self.__isExpired(existingLock[1], currentTime):\n                existingLock = None"),
         (B, "            if currentTime - lockTime > self.__autoUnlockTime:", "            if self.__isExpired(lockTime, currentTime):")),
    keep('P-handler-elif-chain', (S, "        if message['type'] == 'apply_command':", "        elif message['type'] == 'apply_command':"),
         (S, "        if message['type'] == 'apply_command_response':", "        elif message['type'] == 'apply_command_response':")),
    keep('P-idx-term-separate-assignments', (S, "                idx, term = self.__getCurrentLogIndex() + 1, self.__raftCurrentTerm\n\n                if self.__conf.dynamicMembershipChange:", "                idx = self.__getCurrentLogIndex() + 1\n                term = self.__raftCurrentTerm\n\n                if self.__conf.dynamicMembershipChange:")),
    keep('P-prev-helper-renamed', (S, '__getPrevLogIndexTerm', '__prevOf')),
    keep('P-serializer-first-flag-local', (SER, "isFirst = transmission['transmitted'] == 0", "isFirst = (transmission['transmitted'] == 0)")),
    keep('P-eagain-tuple-order', (T, "if e.errno not in (socket.errno.EAGAIN, socket.errno.EWOULDBLOCK):\n                self.disconnect()\n            return False\n\n    def __tryReadBuffer", "if e.errno not in (socket.errno.EWOULDBLOCK, socket.errno.EAGAIN):\n                self.disconnect()\n            return False\n\n    def __tryReadBuffer")),
    keep('P-fallback-extracted-helper', (S, """            deadline = monotonicTime() - self.__conf.leaderFallbackTimeout
            count = 1
            for node in self.__otherNodes:
                if self.__lastResponseTime[node] > deadline:
                    count += 1
            if count <= (len(self.__otherNodes) + 1) / 2:
                self.__setState(_RAFT_STATE.FOLLOWER)
                self.__raftLeader = None
""", """            self.__checkLeaderFallback()
"""), (S, """    def __applyLogEntries(self):
        needSendAppendEntries = False
""", """    def __checkLeaderFallback(self):
        deadline = monotonicTime() - self.__conf.leaderFallbackTimeout
        count = 1
        for node in self.__otherNodes:
            if self.__lastResponseTime[node] > deadline:
                count += 1
        if count <= (len(self.__otherNodes) + 1) / 2:
            self.__setState(_RAFT_STATE.FOLLOWER)
            self.__raftLeader = None

    def __applyLogEntries(self):
        needSendAppendEntries = False
""")),

    keep('P-isleader-helper-in-tick', (S, "        if self.__raftState == _RAFT_STATE.LEADER:\n\n            commitIdx = self.__raftCommitIndex", "        if self._isLeader():\n\n            commitIdx = self.__raftCommitIndex")),
    keep('P-isleader-helper-in-handler', (S, "        if self.__raftState == _RAFT_STATE.LEADER:\n            if message['type'] == 'next_node_idx':", "        if self._isLeader():\n            if message['type'] == 'next_node_idx':")),
    keep('P-logging-added', (S, "            self.__leaderCommitIndex = leaderCommitIndex = message['commit_index']\n", "            self.__leaderCommitIndex = leaderCommitIndex = message['commit_index']\n            logger.debug('append_entries from %s term %s', node, message['term'])\n"),
         (S, "                    self.__votedForNodeId = node.id\n", "                    self.__votedForNodeId = node.id\n                    logger.debug('vote granted to %s', node)\n")),
    keep('P-annotated-counter', (S, "            deadline = monotonicTime() - self.__conf.leaderFallbackTimeout\n            count = 1", "            deadline = monotonicTime() - self.__conf.leaderFallbackTimeout\n            count: int = 1")),
    keep('P-status-extra-key', (S, "        status['log_len'] = len(self.__raftLog)\n", "        status['log_len'] = len(self.__raftLog)\n        status['first_log_idx'] = self.__raftLog[0][1]\n")),
    keep('P-type-hints', (S, "    def __getPrevLogIndexTerm(self, nextNodeIndex):", "    def __getPrevLogIndexTerm(self, nextNodeIndex: int) -> tuple:"), (S, "    def __deleteEntriesFrom(self, fromIDx):", "    def __deleteEntriesFrom(self, fromIDx: int) -> None:")),
    keep('P-new-readonly-method', (S, "    def _getTerm(self):\n        return self.__raftCurrentTerm\n", "    def _getTerm(self):\n        return self.__raftCurrentTerm\n\n    def _getVotedFor(self):\n        return self.__votedForNodeId\n")),
    keep('P-send-wrapped-in-try', (S, "                    self.__transport.send(node, {\n                        'type': 'response_vote',\n                        'term': message['term'],\n                    })", "                    try:\n                        self.__transport.send(node, {\n                            'type': 'response_vote',\n                            'term': message['term'],\n                        })\n                    except Exception:\n                        logger.exception('failed to send vote')")),

    keep('P-lockmanager-rename-unlock', (B, '__autoUnlockTime', '__ttl')),
    keep('P-clock-time-monotonic', (S, 'from .monotonic import monotonic as monotonicTime', 'from time import monotonic as clockNow'), (S, 'monotonicTime()', 'clockNow()')),
    keep('P-cancel-method-renamed', (SER, 'cancelTransmisstion', 'forgetTransfer'), (S, 'cancelTransmisstion', 'forgetTransfer')),
    keep('P-ids-sorted-in-place', (S, "        for ver, _, method, obj in sorted(methodsToEnumerate):", "        methodsToEnumerate.sort()\n        for ver, _, method, obj in methodsToEnumerate:")),
    keep('P-journal-offset-plain-add', (J, "        self.__currentOffset += len(cmdData)", "        self.__currentOffset = self.__currentOffset + len(cmdData)")),

    # ------------------------------------------------------------------ property-breaking variants
    brk('B-stale-term-ae-accepted', ['C01'], 'R-append-gate', (S, "        if message['type'] == 'append_entries' and message['term'] >= self.__raftCurrentTerm:", "        if message['type'] == 'append_entries':")),
    brk('B-leader-append-no-plus1', ['C01'], 'R-leader-append-position', (S, "                idx, term = self.__getCurrentLogIndex() + 1, self.__raftCurrentTerm\n\n                if self.__conf.dynamicMembershipChange:", "                idx, term = self.__getCurrentLogIndex(), self.__raftCurrentTerm\n\n                if self.__conf.dynamicMembershipChange:")),
    brk('B-no-noop-on-election', ['C03'], 'R-leader-append-position', (S, "        self.__raftLog.add(_bchr(_COMMAND_TYPE.NO_OP), idx, term)\n        self.__noopIDx = idx", "        self.__noopIDx = idx")),
    brk('B-prev-not-adjacent', ['C04'], 'R-sender-prev-adjacent', (S, "        prevIndex = nextNodeIndex - 1\n        entries = self.__getEntries(prevIndex, 1)", "        prevIndex = nextNodeIndex - 2\n        entries = self.__getEntries(prevIndex, 1)")),
    brk('B-first-flag-after-advance', ['C09'], 'R-transfer-flags', (SER, "        isFirst = transmission['transmitted'] == 0\n        try:", "        try:"), (SER, "        isLast = size == 0", "        isFirst = transmission['transmitted'] == 0\n        isLast = size == 0")),
    brk('B-reader-loop-le', ['C08'], 'R-record-layout', (J, "        while currentOffset < lastRecordOffset:", "        while currentOffset <= lastRecordOffset:")),
    brk('B-eagain-disconnects', ['C13'], 'R-write-fifo', (T, "            if e.errno not in (socket.errno.EAGAIN, socket.errno.EWOULDBLOCK):\n                self.disconnect()\n            return False\n\n    def __tryReadBuffer", "            if e.errno in (socket.errno.EAGAIN, socket.errno.EWOULDBLOCK):\n                self.disconnect()\n            return False\n\n    def __tryReadBuffer")),
    brk('B-vote-refused-shorter-log', ['C05'], 'R-vote-refusal-justified', (S, "                    if lastLogTerm == self.__getCurrentLogTerm() and \\\n                            lastLogIdx < self.__getCurrentLogIndex():\n                        return", "                    if lastLogIdx < self.__getCurrentLogIndex():\n                        return")),
    brk('B-kwargs-only-dropped', ['C11', 'C15'], 'R-cmd-shapes', (S, "                if kwargs:\n                    cmd = (funcID, args, kwargs)\n                elif args and not kwargs:", "                if args and kwargs:\n                    cmd = (funcID, args, kwargs)\n                elif args:")),
    brk('B-no-timeout-on-send', ['C14'], 'R-silent-timeout', (T, "    def __trySendBuffer(self):\n        self.__processConnectionTimeout()\n", "    def __trySendBuffer(self):\n")),
    brk('B-subscription-own-term', ['C02'], 'R-commit-subscription', (S, "                    self.__commandsWaitingCommit[idx].append((term, callback))\n\n        if self.__raftState == _RAFT_STATE.CANDIDATE:", "                    self.__commandsWaitingCommit[idx].append((self.__raftCurrentTerm, callback))\n\n        if self.__raftState == _RAFT_STATE.CANDIDATE:")),
    brk('B-request-id-reset', ['C02'], 'R-request-id-unique', (S, "        self.__commandsWaitingReply = {}\n\n    def __sendAppendEntries", "        self.__commandsWaitingReply = {}\n        self.__commandsLocalCounter = 0\n\n    def __sendAppendEntries")),
    brk('B-acquire-early-true', ['C16'], 'R-lock-guards', (B, "        # Acquire lock if possible\n        if existingLock is None or existingLock[0] == clientID:", "        if existingLock is not None and existingLock[0] == clientID:\n            return True\n        # Acquire lock if possible\n        if existingLock is None or existingLock[0] == clientID:")),
    brk('B-member-restore-only-on-clear', ['C10'], 'R-rollback-paired', (S, "            if clearJournal:\n                self.__raftLog.clear()\n                self.__raftLog.add(*data[2])\n                self.__raftLog.add(*data[1])\n", "            if clearJournal:\n                self.__raftLog.clear()\n                self.__raftLog.add(*data[2])\n                self.__raftLog.add(*data[1])\n                if self.__conf.dynamicMembershipChange:\n                    self.__updateClusterConfiguration([node for node in data[3] if node != self.__selfNode])\n"), (S, "            if self.__conf.dynamicMembershipChange:\n                self.__updateClusterConfiguration([node for node in data[3] if node != self.__selfNode])\n            self.__onSetCodeVersion", "            self.__onSetCodeVersion")),
    brk('B-majority-ge', ['C03'], 'R-majority', (S, 'if self.__votesCount > (len(self.__otherNodes) + 1) / 2:', 'if self.__votesCount >= (len(self.__otherNodes) + 1) / 2:')),
    brk('B-majority-no-plus1', ['C04'], 'R-majority', (S, 'if count <= (len(self.__otherNodes) + 1) / 2:\n                    break', 'if count <= len(self.__otherNodes) / 2:\n                    break')),
    brk('B-majority-observers', ['C18'], 'R-majority', (S, """                for node in self.__otherNodes:
                    if self.__raftMatchIndex[node] >= commitIdx:""", """                for node in self.__otherNodes | self.__readonlyNodes:
                    if self.__raftMatchIndex[node] >= commitIdx:""")),
    brk('B-fallback-count-init0', ['C20'], 'R-majority', (S, """            deadline = monotonicTime() - self.__conf.leaderFallbackTimeout
            count = 1""", """            deadline = monotonicTime() - self.__conf.leaderFallbackTimeout
            count = 0""")),
    brk('B-vote-no-votedfor-check', ['C03'], 'R-vote-grant', (S, """                    if self.__votedForNodeId is not None:
                        return

                    self.__votedForNodeId = node.id""", """                    self.__votedForNodeId = node.id""")),
    brk('B-vote-log-check-le', ['C03'], 'R-vote-grant', (S, 'lastLogIdx < self.__getCurrentLogIndex():\n                        return', 'lastLogIdx + 1 < self.__getCurrentLogIndex():\n                        return')),
    brk('B-vote-stale-term', ['C03'], 'R-vote-grant', (S, "                if message['term'] >= self.__raftCurrentTerm:\n                    if lastLogTerm", "                if message['term'] >= self.__raftCurrentTerm - 1:\n                    if lastLogTerm")),
    brk('B-vote-leader-may-vote', ['C03'], 'R-vote-grant', (S, "            if self.__raftState in (_RAFT_STATE.FOLLOWER, _RAFT_STATE.CANDIDATE):\n                lastLogTerm", "            if True:\n                lastLogTerm")),
    brk('B-vote-reset-on-heartbeat', ['C03'], 'R-term-vote-writes', (S, "            self.__setState(_RAFT_STATE.FOLLOWER)\n            newEntries = message.get('entries', [])", "            self.__setState(_RAFT_STATE.FOLLOWER)\n            self.__votedForNodeId = None\n            newEntries = message.get('entries', [])")),
    brk('B-become-leader-any-term', ['C03'], 'R-leader-entry', (S, "if message['type'] == 'response_vote' and message['term'] == self.__raftCurrentTerm:", "if message['type'] == 'response_vote':")),
    brk('B-no-step-down-on-ae', ['C03'], 'R-step-down', (S, "                self.__votedForNodeId = None\n            self.__setState(_RAFT_STATE.FOLLOWER)\n            newEntries", "                self.__votedForNodeId = None\n                self.__setState(_RAFT_STATE.FOLLOWER)\n            newEntries")),
    brk('B-apply-continue-on-error', ['C01', 'C17'], 'R-apply-step', (S, "                    # Do not apply the following entries until this one can be applied\n                    break", "                    continue")),
    brk('B-apply-double-inc', ['C01'], 'R-apply-step', (S, "                            callback(None, FAIL_REASON.DISCARDED)\n", "                            callback(None, FAIL_REASON.DISCARDED)\n                            self.__raftLastApplied += 1\n")),
    brk('B-apply-fetch-from-applied', ['C01'], 'R-apply-step', (S, 'entries = self.__getEntries(self.__raftLastApplied + 1, count)', 'entries = self.__getEntries(self.__raftLastApplied, count)')),
    brk('B-append-no-term-check', ['C01'], 'R-append-gate', (S, """                if prevEntries[0][2] != prevLogTerm:
                    self.__sendNextNodeIdx(node, nextNodeIdx = prevLogIdx, success = False, reset=True)
                    return
""", "")),
    brk('B-commit-on-partial-snapshot', ['C01', 'C04'], 'R-commit-gate', (S, """                if self.__serializer.setTransmissionData(serialized):
                    self.__loadDumpFile(clearJournal=True)
                    self.__sendNextNodeIdx(node, success=True)
                    verifiedIdx = self.__getCurrentLogIndex()""", """                if self.__serializer.setTransmissionData(serialized):
                    self.__loadDumpFile(clearJournal=True)
                    self.__sendNextNodeIdx(node, success=True)
                verifiedIdx = self.__getCurrentLogIndex()""")),
    brk('B-commit-ignores-verified', ['C04'], 'R-commit-gate', (S, 'self.__raftCommitIndex = min(leaderCommitIndex, verifiedIdx)', 'self.__raftCommitIndex = leaderCommitIndex')),
    brk('B-truncate-in-tick', ['C01'], 'R-log-owners', (S, "        self._checkCommandsToApply()\n        self.__tryLogCompaction()", "        self._checkCommandsToApply()\n        if self.__raftState == _RAFT_STATE.FOLLOWER:\n            self.__deleteEntriesFrom(self.__raftCommitIndex + 1)\n        self.__tryLogCompaction()")),
    brk('B-trim-on-failed-dump', ['C06', 'C01'], 'R-log-owners', (S, "        if serializeState == SERIALIZER_STATE.FAILED:\n            logger.warning('Failed to store full dump')", "        if serializeState == SERIALIZER_STATE.FAILED:\n            logger.warning('Failed to store full dump')\n            self.__deleteEntriesTo(serializeID)")),
    brk('B-leader-commit-no-term', ['C04'], 'R-commit-rule', (S, """                if commitTerm != self.__raftCurrentTerm:
                    continue
                nextCommitIdx = commitIdx""", """                nextCommitIdx = commitIdx""")),
    brk('B-match-without-success', ['C04'], 'R-match-writes', (S, """                if success:
                    if self.__raftMatchIndex[node] < currentNodeIdx:""", """                if True:
                    if self.__raftMatchIndex[node] < currentNodeIdx:""")),
    brk('B-match-downwards', ['C04'], 'R-match-writes', (S, """                    if self.__raftMatchIndex[node] < currentNodeIdx:
                        self.__raftMatchIndex[node] = currentNodeIdx""", """                    if self.__raftMatchIndex[node] != currentNodeIdx:
                        self.__raftMatchIndex[node] = currentNodeIdx""")),
    brk('B-ack-before-store', ['C04', 'C06'], 'R-ack-after-store', (S, """                for entry in entriesToAdd:
                    self.__raftLog.add(*entry)
""", """                self.__sendNextNodeIdx(node, nextNodeIdx=prevLogIdx + len(newEntries) + 1, success=True)
                for entry in entriesToAdd:
                    self.__raftLog.add(*entry)
""")),
    brk('B-chunk-ack-positive', ['C04'], 'R-ack-after-store', (S, """                        self.__recvTransmission += message['data']
                        self.__sendNextNodeIdx(node, success=False, reset=False)""", """                        self.__recvTransmission += message['data']
                        self.__sendNextNodeIdx(node, success=True, reset=False)""")),
    brk('B-truncate-always', ['C04'], 'R-truncate-on-conflict', (S, """                    if existingEntries[pos][2] != newEntries[pos][2]:
                        conflictPos = pos
                        break""", """                    conflictPos = pos
                    break""")),
    brk('B-success-no-term-check', ['C02'], 'R-success-guard', (S, """                        if subscribeTermID == currentTermID:
                            callback(res, FAIL_REASON.SUCCESS)
                        else:
                            callback(None, FAIL_REASON.DISCARDED)""", """                        callback(res, FAIL_REASON.SUCCESS)""")),
    brk('B-callback-twice-on-deny', ['C02'], 'R-cb-linear', (S, """                        if callback is not None:
                            callback(None, FAIL_REASON.REQUEST_DENIED)
                    else:""", """                        if callback is not None:
                            callback(None, FAIL_REASON.REQUEST_DENIED)
                            self.__commandsWaitingCommit[idx].append((term, callback))
                    else:""")),
    brk('B-reply-callback-get', ['C02'], 'R-cb-linear', (S, 'callback = self.__commandsWaitingReply.pop(requestID, None)', 'callback = self.__commandsWaitingReply.get(requestID, None)')),
    brk('B-sweep-keeps-table', ['C02'], 'R-cb-linear', (S, "            self.__commandsWaitingReply[id](None, FAIL_REASON.LEADER_CHANGED)\n        self.__commandsWaitingReply = {}", "            self.__commandsWaitingReply[id](None, FAIL_REASON.LEADER_CHANGED)")),
    brk('B-missing-leader-dropped', ['C02', 'C05'], 'R-disposition', (S, "            else:\n                self.__callErrCallback(FAIL_REASON.MISSING_LEADER, callback)", "            else:\n                pass")),
    brk('B-queue-append-then-raise', ['C02'], 'R-disposition', (FQ, """            if len(self.__queue) > self.__maxSize:
                raise Queue.Full()
            self.__queue.append(value)""", """            self.__queue.append(value)
            if len(self.__queue) > self.__maxSize:
                raise Queue.Full()""")),
    brk('B-no-timer-reset-on-ae', ['C05'], 'R-timer-reset', (S, "        if message['type'] == 'append_entries' and message['term'] >= self.__raftCurrentTerm:\n            self.__raftElectionDeadline = monotonicTime() + self.__generateRaftTimeout()\n", "        if message['type'] == 'append_entries' and message['term'] >= self.__raftCurrentTerm:\n")),
    brk('B-reset-reply-ignored', ['C05'], 'R-reply-exhaustive', (S, "                if reset:\n                    self.__raftNextIndex[node] = nextNodeIdx\n", "")),
    brk('B-no-next-after-snapshot', ['C05'], 'R-sender-total', (S, "                        if isLast:\n                            self.__raftNextIndex[node] = self.__raftLog[1][1] + 1\n", "                        if isLast:\n")),
    brk('B-restart-clears-journal', ['C06'], 'R-restart-keeps-journal', (S, "                if dumpPos < 0 or self.__raftLog[dumpPos:dumpPos + 2] != [data[2], data[1]]:", "                if len(self.__raftLog) < 2 or self.__raftLog[0] != data[2] or self.__raftLog[1] != data[1]:")),
    brk('B-success-before-rename', ['C06'], 'R-dump-before-trim', (SER, """            atomicReplace(tmpFile, self.__fileName)
            if self.__useFork:
                os._exit(0)
            else:
                self.__pid = -1""", """            if self.__useFork:
                atomicReplace(tmpFile, self.__fileName)
                os._exit(0)
            else:
                self.__pid = -1
                atomicReplace(tmpFile, self.__fileName)""")),
    brk('B-publish-before-write', ['C08'], 'R-write-then-publish', (J, """        self.__journalFile.write(self.__currentOffset, cmdData)
        self.__currentOffset += len(cmdData)
        self.__setLastRecordOffset(self.__currentOffset)""", """        self.__setLastRecordOffset(self.__currentOffset + len(cmdData))
        self.__journalFile.write(self.__currentOffset, cmdData)
        self.__currentOffset += len(cmdData)""")),
    brk('B-single-resize', ['C08', 'C11'], 'R-bounded-write', (J, """            while offset + size > newSize:
                newSize = int(newSize * self.__resizeFactor)""", """            newSize = int(newSize * self.__resizeFactor)""")),
    brk('B-record-step-4', ['C08'], 'R-record-layout', (J, 'currentOffset -= prevRecordSize + 8', 'currentOffset -= prevRecordSize + 4')),
    brk('B-tail-count-after-cut', ['C08'], 'R-tail-drop-monotone', (J, """        entriesToRemove = len(self.__journal) - entryFrom
        del self.__journal[entryFrom:]""", """        del self.__journal[entryFrom:]
        entriesToRemove = len(self.__journal) - entryFrom""")),
    brk('B-clear-mirror-only', ['C08'], 'R-journal-siblings', (J, """        self.__journal = []
        self.__setLastRecordOffset(FIRST_RECORD_OFFSET)
        self.__currentOffset = FIRST_RECORD_OFFSET""", """        self.__journal = []""")),
    brk('B-field-created-late', ['C09'], 'R-no-field-leak', (S, "        self.__forceLogCompaction = True\n", "        self.__forceLogCompaction = True\n        self.__compactionRequests = getattr(self, '_SyncObj__compactionRequests', 0) + 1\n")),
    brk('B-apply-inside-compaction', ['C09'], 'R-snapshot-point', (S, "        if self.__conf.serializer is None:\n            selfData = dict(", "        self.__applyLogEntries()\n        if self.__conf.serializer is None:\n            selfData = dict(")),
    brk('B-dump-written-in-place', ['C09'], 'R-dump-atomic', (SER, "            tmpFile = self.__fileName + '.tmp'\n            if self.__serializer is not None:", "            tmpFile = self.__fileName\n            if self.__serializer is not None:")),
    brk('B-name-table-version0', ['C09', 'C17'], 'R-version-pairing', (S, "self.__onSetCodeVersion(self.__enabledCodeVersion)\n        except:", "self.__onSetCodeVersion(0)\n        except:")),
    brk('B-loader-swaps-entries', ['C09', 'C01'], 'R-payload-complete', (S, "                self.__raftLog.add(*data[2])\n                self.__raftLog.add(*data[1])", "                self.__raftLog.add(*data[1])\n                self.__raftLog.add(*data[2])")),
    brk('B-marker-never-set', ['C10'], 'R-gate-live', (S, "                    if changeClusterRequest is not None:\n                        # Further cluster changes are refused until this one is applied\n                        self.__changeClusterIDx = idx\n", "")),
    brk('B-no-membership-rollback', ['C10'], 'R-rollback-paired', (S, "                    if self.__conf.dynamicMembershipChange:\n                        for entry in reversed(existingEntries[conflictPos:]):", "                    if False:\n                        for entry in reversed(existingEntries[conflictPos:]):")),
    brk('B-remove-keeps-matchindex', ['C10'], 'R-removed-excluded', (S, "            self.__raftNextIndex.pop(oldNode, None)\n            self.__raftMatchIndex.pop(oldNode, None)\n            self.__transport.dropNode(oldNode)", "            self.__raftNextIndex.pop(oldNode, None)\n            self.__transport.dropNode(oldNode)")),
    brk('B-chunk-foreign-length', ['C11'], 'R-chunk-length', (S, 'elif pos + batchSizeBytes >= len(entry):', 'elif pos + batchSizeBytes >= len(entries[0][0]):')),
    brk('B-sync-kw-pickled', ['C11'], 'R-cmd-shapes', (S, "                sync = kwargs.pop('sync', False)\n                if callback is not None:", "                sync = kwargs.get('sync', False)\n                if callback is not None:")),
    brk('B-schema-read-unsent-key', ['C11'], 'R-wire-schema', (S, "                nextNodeIdx = message['next_node_idx']\n                success = message['success']", "                nextNodeIdx = message['next_node_idx']\n                success = message['success'] and message['term'] >= 0")),
    brk('B-user-exc-swallowed-continue', ['C12', 'C01'], 'R-apply-step', (S, "                except SyncObjExceptionWrongVer as e:", "                except ValueError:\n                    continue\n                except SyncObjExceptionWrongVer as e:")),
    brk('B-header-format-mismatch', ['C13'], 'R-header-agree', (T, "data = struct.pack('i', len(data)) + data", "data = struct.pack('I', len(data)) + data")),
    brk('B-no-negative-length-check', ['C13'], 'R-length-range', (T, """        if l < 0:
            # Invalid frame length
            self.disconnect()
            return None
""", "")),
    brk('B-decode-outside-try', ['C13'], 'R-decode-contained', (T, """        try:
            if self.encryptor:
                dataTimestamp""", """        message = pickle.loads(zlib.decompress(data))
        try:
            if self.encryptor:
                dataTimestamp""")),
    brk('B-advance-before-decode-failure', ['C13'], 'R-consume-once', (T, """        data = self.__readBuffer[4:4 + l]
        try:""", """        data = self.__readBuffer[4:4 + l]
        self.__readBuffer = self.__readBuffer[4 + l:]
        try:""")),
    brk('B-parser-extra-state', ['C13'], 'R-parser-state', (T, "        data = self.__readBuffer[4:4 + l]\n        try:", "        data = self.__readBuffer[4:4 + l]\n        if l == getattr(self, '_lastFrameLen', -1):\n            self.__readBuffer = self.__readBuffer[4 + l:]\n            return None\n        self._lastFrameLen = l\n        try:")),
    keep('P-parser-write-only-counter', (T, "        data = self.__readBuffer[4:4 + l]\n        try:", "        data = self.__readBuffer[4:4 + l]\n        self.__lastFrameLen = l\n        try:")),
    brk('B-write-prefix-wrong', ['C13'], 'R-write-fifo', (T, "self.__writeBuffer = self.__writeBuffer[res:]", "self.__writeBuffer = self.__writeBuffer[self.__sendBufferSize:]")),
    brk('B-bind-unknown-peer', ['C14'], 'R-attribution', (TR, """        if node is None and message != 'readonly':
            conn.disconnect()
            self._unknownConnections.discard(conn)
            return
""", "")),
    brk('B-dropnode-keeps-address', ['C14'], 'R-drop-teardown', (TR, "            self._nodes.discard(node)\n            self._nodeAddrToNode.pop(node.address, None)", "            self._nodes.discard(node)")),
    brk('B-dial-ge', ['C14'], 'R-dial-order', (TR, 'self._selfNode.address > node.address', 'self._selfNode.address >= node.address')),
    brk('B-list-pop-none', ['C15'], 'R-delegate-agree', (B, 'def pop(self, position=-1):', 'def pop(self, position=None):')),
    brk('B-set-discard-remove', ['C15'], 'R-delegate-agree', (B, '        self.__data.discard(item)', '        self.__data.remove(item)')),
    brk('B-counter-sub-adds', ['C15'], 'R-counter-ops', (B, '        self.__counter -= value', '        self.__counter += value')),
    brk('B-queue-bound-off-by-one', ['C15'], 'R-queue-bound', (B, "        if self.__maxsize and len(self.__data) >= self.__maxsize:\n            return False\n        self.__data.append(item)", "        if self.__maxsize and len(self.__data) > self.__maxsize:\n            return False\n        self.__data.append(item)")),
    brk('B-lock-acquire-ge-holder', ['C16'], 'R-expiry-partition', (B, "                if currentTime - existingLock[1] < self.__autoUnlockTime:\n                    return True", "                if currentTime - existingLock[1] <= self.__autoUnlockTime + 1:\n                    return True"), skip_reason='not a pure comparator change'),
    brk('B-lock-holder-le', ['C16'], 'R-expiry-partition', (B, "if currentTime - existingLock[1] > self.__autoUnlockTime:", "if currentTime - existingLock[1] >= self.__autoUnlockTime:"), note='taker >= vs holder <: still disjoint -> expected to be missed? no: (F,T,T) vs (T,F,F) disjoint'),
    brk('B-lock-release-any', ['C16'], 'R-lock-guards', (B, "if existingLock is not None and existingLock[0] == clientID:\n            del self.__locks[lockID]", "if existingLock is not None:\n            del self.__locks[lockID]")),
    brk('B-late-acquire-async-missing', ['C16'], 'R-late-acquire', (B, """                if acquireTime - attemptTime > self.__autoUnlockTime / 2.0:
                    acquireRes = False
                    self.__lockImpl.release(lockID, self.__selfID, sync=False)""", """                pass""")),
    brk('B-ids-sorted-by-name', ['C17'], 'R-id-order', (S, "methodsToEnumerate.append((ver, 0, method, self))", "methodsToEnumerate.append((method, 0, ver, self))")),
    brk('B-version-select-first', ['C17'], 'R-version-select', (S, "                if v > newVersion:\n                    break\n", "")),
    brk('B-setversion-no-upper-guard', ['C17'], 'R-setversion-guards', (S, "        if newVersion > self.__selfCodeVersion:\n            raise Exception('wrong version, current version is %d, requested version is %d' % (self.__selfCodeVersion, newVersion))\n", "")),
    brk('B-candidate-without-address', ['C18'], 'R-no-vote-without-address', (S, "if self.__raftState in (_RAFT_STATE.FOLLOWER, _RAFT_STATE.CANDIDATE) and self.__selfNode is not None:", "if self.__raftState in (_RAFT_STATE.FOLLOWER, _RAFT_STATE.CANDIDATE):")),
    brk('B-split-deref-selfnode', ['C18'], 'R-selfnode-deref', (S, "if self.__conf.logCompactionSplit and self.__selfNode is not None:", "if self.__conf.logCompactionSplit:")),
    brk('B-observer-joins-voters', ['C18'], 'R-observer-bookkeeping', (S, "        self.__readonlyNodes.add(node)\n        self.__connectedNodes.add(node)", "        self.__readonlyNodes.add(node)\n        self.__otherNodes.add(node)\n        self.__connectedNodes.add(node)")),
    brk('B-queue-unlocked-get', ['C19'], 'R-queue-locked', (FQ, """        with self.__lock:
            if len(self.__queue) == 0:
                raise Queue.Empty()
            return self.__queue.popleft()""", """        if len(self.__queue) == 0:
            raise Queue.Empty()
        return self.__queue.popleft()""")),
    brk('B-event-set-first', ['C19'], 'R-result-publish', (S, "        self.result = res\n        self.error = err\n        self.event.set()", "        self.event.set()\n        self.result = res\n        self.error = err")),
    brk('B-table-filled-in-place', ['C19'], 'R-atomic-publish', (S, "        currentVersionFuncNames = {}\n", "        currentVersionFuncNames = self.__currentVersionFuncNames = {}\n")),
    brk('B-caller-writes-counter', ['C19'], 'R-caller-footprint', (S, "    def _applyCommand(self, command, callback, commandType = None):\n        try:", "    def _applyCommand(self, command, callback, commandType = None):\n        self.__commandsLocalCounter += 1\n        try:")),
    brk('B-fallback-skipped-on-commit', ['C20'], 'R-fallback-every-tick', (S, "            if self.__raftCommitIndex != nextCommitIdx:\n                self.__raftCommitIndex = nextCommitIdx\n                self.__raftLog.setRaftCommitIndex(self.__raftCommitIndex)\n", "            if self.__raftCommitIndex != nextCommitIdx:\n                self.__raftCommitIndex = nextCommitIdx\n                self.__raftLog.setRaftCommitIndex(self.__raftCommitIndex)\n                return\n")),
    brk('B-response-time-on-any-message', ['C20'], 'R-response-time-writes', (S, "        if message['type'] == 'apply_command':\n", "        self.__lastResponseTime[node] = monotonicTime()\n        if message['type'] == 'apply_command':\n")),
    brk('B-hasquorum-all-connected', ['C20'], 'R-hasquorum', (S, "connected_count = len(nodes.intersection(self.__connectedNodes))", "connected_count = len(self.__connectedNodes)")),
    # rules added after round-2 changes
    brk('B-clear-stores-without-publish', ['C08', 'C06'], 'R-offset-coherent', (J, "        self.__journal = []\n        self.__setLastRecordOffset(FIRST_RECORD_OFFSET)\n        self.__currentOffset = FIRST_RECORD_OFFSET", "        self.__journal = []\n        self.__currentOffset = FIRST_RECORD_OFFSET")),
    brk('B-tail-drop-final-publish-missing', ['C08'], 'R-offset-coherent', (J, "        self.__currentOffset = currentOffset\n        self.__setLastRecordOffset(currentOffset)", "        self.__currentOffset = currentOffset")),
    brk('B-serializer-busy-after-oserror', ['C09', 'C05'], 'R-serializer-idle', (SER, "        except OSError:\n            self.__pid = 0\n            return SERIALIZER_STATE.FAILED, self.__currentID", "        except OSError:\n            return SERIALIZER_STATE.FAILED, self.__currentID")),
    brk('B-serializer-busy-after-child-failure', ['C09'], 'R-serializer-idle', (SER, "                return SERIALIZER_STATE.SUCCESS, self.__currentID\n            self.__pid = 0\n            return SERIALIZER_STATE.FAILED, self.__currentID", "                return SERIALIZER_STATE.SUCCESS, self.__currentID\n            return SERIALIZER_STATE.FAILED, self.__currentID")),
    brk('B-version-applied-without-rebuild', ['C17'], 'R-version-pairing', (S, "            callback = self.__conf.onCodeVersionChanged\n            self.__onSetCodeVersion(ver)\n", "            callback = self.__conf.onCodeVersionChanged\n")),
    brk('B-append-publishes-old-offset', ['C08'], 'R-write-then-publish', (J, "        self.__currentOffset += len(cmdData)\n        self.__setLastRecordOffset(self.__currentOffset)", "        self.__setLastRecordOffset(self.__currentOffset)\n        self.__currentOffset += len(cmdData)")),
    brk('B-append-advances-by-payload-only', ['C08'], 'R-write-then-publish', (J, "        self.__currentOffset += len(cmdData)\n", "        self.__currentOffset += len(cmdData) - 4\n")),
    brk('B-conflict-backoff-reaches-log-start', ['C05'], 'R-hint-floor', (S, "                if prevEntries[0][2] != prevLogTerm:\n", "                if prevEntries[0][2] != prevLogTerm:\n                    conflictTerm = prevEntries[0][2]\n                    firstIdx = self.__raftLog[0][1]\n                    while prevLogIdx > firstIdx and self.__raftLog[prevLogIdx - 1 - firstIdx][2] == conflictTerm:\n                        prevLogIdx -= 1\n")),
    keep('P-conflict-backoff-bounded', (S, "                if prevEntries[0][2] != prevLogTerm:\n", "                if prevEntries[0][2] != prevLogTerm:\n                    conflictTerm = prevEntries[0][2]\n                    firstIdx = self.__raftLog[0][1]\n                    while prevLogIdx - 1 > firstIdx and self.__raftLog[prevLogIdx - 1 - firstIdx][2] == conflictTerm:\n                        prevLogIdx -= 1\n")),
    brk('B-connect-event-refreshes-response-time', ['C20'], 'R-response-time-writes', (S, "    def __onNodeConnected(self, node):\n", "    def __onNodeConnected(self, node):\n        if self._isLeader():\n            self.__lastResponseTime[node] = monotonicTime()\n")),
    brk('B-fallback-default-now', ['C20'], 'R-fallback-every-tick', (S, "if self.__lastResponseTime[node] > deadline:", "if self.__lastResponseTime.get(node, monotonicTime()) > deadline:")),
    keep('P-fallback-get-default-zero', (S, "if self.__lastResponseTime[node] > deadline:", "if self.__lastResponseTime.get(node, 0) > deadline:")),
    brk('B-connected-without-so-error', ['C14'], 'R-established-checked', (T, "            if self.__socket.getsockopt(socket.SOL_SOCKET, socket.SO_ERROR):\n                self.disconnect()\n                return\n", "")),
    brk('B-disc-by-cached-node', ['C14'], 'R-disc-attribution', (TR, "        for node in self._connections:\n            if self._connections[node] is conn:\n                return node\n        return None", "        return getattr(conn, 'node', None)")),
    brk('B-membership-scan-voters-only', ['C10', 'C18'], 'R-apply-on-append', (S, "                if self.__conf.dynamicMembershipChange:\n                    for entry in entriesToAdd:", "                if self.__conf.dynamicMembershipChange and self.__selfNode is not None:\n                    for entry in entriesToAdd:")),
    brk('B-late-acquire-mixed-clocks', ['C16'], 'R-late-acquire', (B, "            if acquireRes:\n                acquireTime = time.time()\n", "            if acquireRes:\n                acquireTime = monotonicTime()\n")),
    brk('B-setdefault-none-absent', ['C15'], 'R-none-is-a-value', (B, "        return self.__data.setdefault(key, default)", "        value = self.__data.get(key)\n        if value is None:\n            value = self.__data[key] = default\n        return value")),
    keep('P-setdefault-explicit-in', (B, "        return self.__data.setdefault(key, default)", "        if key not in self.__data:\n            self.__data[key] = default\n        return self.__data[key]")),
    brk('B-sweep-rebinds-local', ['C02'], 'R-cb-linear', (S, "        for id in sorted(self.__commandsWaitingReply):\n            self.__commandsWaitingReply[id](None, FAIL_REASON.LEADER_CHANGED)\n        self.__commandsWaitingReply = {}", "        waiting = self.__commandsWaitingReply\n        for id in sorted(waiting):\n            waiting[id](None, FAIL_REASON.LEADER_CHANGED)\n        waiting = {}")),
    keep('P-sweep-alias-clear', (S, "        for id in sorted(self.__commandsWaitingReply):\n            self.__commandsWaitingReply[id](None, FAIL_REASON.LEADER_CHANGED)\n        self.__commandsWaitingReply = {}", "        waiting = self.__commandsWaitingReply\n        for id in sorted(waiting):\n            waiting[id](None, FAIL_REASON.LEADER_CHANGED)\n        waiting.clear()")),
    brk('B-verified-index-own-log-end', ['C01', 'C04'], 'R-commit-gate', (S, "                verifiedIdx = nextNodeIdx - 1\n", "                verifiedIdx = self.__getCurrentLogIndex()\n")),
    brk('B-tally-reset-on-transition-only', ['C03'], 'R-tally-reset', (S, "                self.__votedForNodeId = self.__selfNode.id\n                self.__votesCount = 1\n", "                self.__votedForNodeId = self.__selfNode.id\n")),
    keep('P-tally-reset-before-increment', (S, "                self.__raftCurrentTerm += 1\n                self.__votedForNodeId = self.__selfNode.id\n                self.__votesCount = 1\n", "                self.__votesCount = 1\n                self.__raftCurrentTerm += 1\n                self.__votedForNodeId = self.__selfNode.id\n")),
    brk('B-rollback-wrong-list', ['C10', 'C04'], 'R-rollback-paired', (S, "for entry in reversed(existingEntries[conflictPos:]):", "for entry in reversed(prevEntries[conflictPos:]):")),
    brk('B-trim-to-applied-not-dump', ['C06', 'C01'], 'R-log-owners', (S, "            self.__deleteEntriesTo(serializeID)\n", "            self.__deleteEntriesTo(self.__raftLastApplied - 1)\n")),
    keep('P-trim-id-through-local', (S, "            self.__deleteEntriesTo(serializeID)\n            self.__lastSerializedEntry = serializeID\n", "            dumpedUpTo = serializeID\n            self.__deleteEntriesTo(dumpedUpTo)\n            self.__lastSerializedEntry = dumpedUpTo\n")),
    brk('B-queue-full-broad-except', ['C02'], 'R-disposition', (S, "        except Queue.Full:\n            self.__callErrCallback(FAIL_REASON.QUEUE_FULL, callback)", "        except (Queue.Full, OSError):\n            self.__callErrCallback(FAIL_REASON.QUEUE_FULL, callback)")),
    brk('B-disconnect-clears-vote', ['C03'], 'R-owners-election', (S, "    def __onNodeDisconnected(self, node):\n", "    def __onNodeDisconnected(self, node):\n        if node.id == self.__votedForNodeId:\n            self.__votedForNodeId = None\n")),
    brk('B-compaction-raises-commit', ['C01', 'C04'], 'R-owners-log', (S, "            self.__lastSerializedEntry = serializeID\n", "            self.__lastSerializedEntry = serializeID\n            self.__raftCommitIndex = max(self.__raftCommitIndex, serializeID)\n")),
    brk('B-disconnect-drops-voter', ['C10', 'C18'], 'R-owners-membership', (S, "    def __onNodeDisconnected(self, node):\n", "    def __onNodeDisconnected(self, node):\n        self.__otherNodes.discard(node)\n")),
    brk('B-sender-refreshes-response-time', ['C20'], 'R-owners-liveness', (S, "    def __sendAppendEntries(self):\n        self.__newAppendEntriesTime = monotonicTime() + self.__conf.appendEntriesPeriod\n", "    def __sendAppendEntries(self):\n        self.__newAppendEntriesTime = monotonicTime() + self.__conf.appendEntriesPeriod\n        for node_ in self.__connectedNodes:\n            self.__lastResponseTime[node_] = monotonicTime()\n")),
    brk('B-compaction-forgets-waiters', ['C02'], 'R-owners-callbacks', (S, "            self.__lastSerializedEntry = serializeID\n", "            self.__lastSerializedEntry = serializeID\n            self.__commandsWaitingCommit.pop(serializeID, None)\n")),
    brk('B-publish-cache-unprimed', ['C08'], 'R-offset-coherent', (J, "        self.__metaSaved = True\n        currentOffset = FIRST_RECORD_OFFSET\n", "        self.__metaSaved = True\n        self.__published = FIRST_RECORD_OFFSET\n        currentOffset = FIRST_RECORD_OFFSET\n"),
        (J, "    def __setLastRecordOffset(self, offset):\n", "    def __setLastRecordOffset(self, offset):\n        if offset == self.__published:\n            return\n        self.__published = offset\n")),
    keep('P-publish-cache-primed', (J, "        lastRecordOffset = self.__getLastRecordOffset()\n", "        lastRecordOffset = self.__getLastRecordOffset()\n        self.__published = lastRecordOffset\n"),
         (J, "    def __setLastRecordOffset(self, offset):\n", "    def __setLastRecordOffset(self, offset):\n        if offset == self.__published:\n            return\n        self.__published = offset\n")),
    brk('B-shared-tmp-through-attr', ['C09'], 'R-dump-atomic', (SER, "        self.__fileName = fileName\n", "        self.__fileName = fileName\n        self.__tmpName = None if fileName is None else fileName + '.tmp'\n"),
        (SER, "            tmpFile = self.__fileName + '.tmp'\n", "            tmpFile = self.__tmpName\n"), (SER, "        tmpFile = self.__fileName + '.1.tmp'\n", "        tmpFile = self.__tmpName\n")),
    brk('B-snapshot-members-without-self', ['C09', 'C10'], 'R-payload-complete', (S, "cluster = self.__otherNodes | {self.__selfNode}", "cluster = self.__otherNodes")),
    brk('B-restore-only-discards', ['C10'], 'R-rollback-paired', (S, "        self.__otherNodes = newNodes\n", "        for node_ in nodesToRemove:\n            self.__otherNodes.discard(node_)\n")),
    brk('B-read-gated-on-buffer', ['C11', 'C13'], 'R-read-ungated', (T, "        while self.__processRead():\n            pass\n", "        while len(self.__readBuffer) < self.__recvBufferSize and self.__processRead():\n            pass\n")),
    keep('P-read-loop-counted', (T, "        while self.__processRead():\n            pass\n", "        reads = 0\n        while self.__processRead():\n            reads += 1\n")),
    brk('B-delivery-loop-truthiness', ['C13'], 'R-consume-once', (T, "                if message is None:\n                    break\n", "                if not message:\n                    break\n")),
    brk('B-key-unpack-outside-try', ['C13'], 'R-decode-contained', (T, "            if self.recvRandKey:\n                randKey, message = message\n                assert randKey == self.recvRandKey\n", "            pass\n"),
        (T, "        self.__readBuffer = self.__readBuffer[4 + l:]\n", "        if self.recvRandKey:\n            randKey, message = message\n            if randKey != self.recvRandKey:\n                self.disconnect()\n                return None\n        self.__readBuffer = self.__readBuffer[4 + l:]\n")),
    brk('B-consumer-alias-enumerated', ['C17'], 'R-enumeration-siblings', (S, "                               getattr(getattr(consumer, m), 'replicated', False) and \\\n                               m != getattr(getattr(consumer, m), 'origName')]", "                               getattr(getattr(consumer, m), 'replicated', False)]")),
    brk('B-send-round-returns-on-budget', ['C05', 'C18'], 'R-sender-total', (S, "                if delta > self.__conf.appendEntriesPeriod:\n                    break\n", "                if delta > self.__conf.appendEntriesPeriod:\n                    return\n")),
    brk('B-heap-fast-path-append', ['C15'], 'R-heap-discipline', (B, "        heapq.heappush(self.__data, item)\n", "        if not self.__data or item >= self.__data[-1]:\n            self.__data.append(item)\n        else:\n            heapq.heappush(self.__data, item)\n")),
    brk('B-release-pops-unconditionally', ['C16'], 'R-lock-guards', (B, "        existingLock = self.__locks.get(lockID, None)\n        if existingLock is not None and existingLock[0] == clientID:\n            del self.__locks[lockID]\n", "        self.__locks.pop(lockID, None)\n")),
    keep('P-release-pop-guarded', (B, "        if existingLock is not None and existingLock[0] == clientID:\n            del self.__locks[lockID]\n", "        if existingLock is not None and existingLock[0] == clientID:\n            self.__locks.pop(lockID)\n")),
    brk('B-drop-pops-wrong-key', ['C14'], 'R-drop-teardown', (TR, "self._nodeAddrToNode.pop(node.address, None)", "self._nodeAddrToNode.pop(node, None)")),
    brk('B-readonly-id-from-set-size', ['C14', 'C18'], 'R-readonly-id-unique', (TR, "            nodeId = str(self._readonlyNodesCounter)\n", "            nodeId = str(len(self._readonlyNodes))\n"), (TR, "            self._readonlyNodesCounter += 1\n", "")),
    keep('P-py3-range-items', (S, r'\bxrange\(', 'range('), (S, r' in iteritems\(([A-Za-z_.]+)\)', r' in \1.items()'), regex=True),
    brk('B-observer-connect-no-match-index', ['C18'], 'R-observer-bookkeeping', (S, "        self.__raftNextIndex[node] = self.__getCurrentLogIndex() + 1\n        self.__raftMatchIndex[node] = 0\n\n    def __onReadonlyNodeDisconnected", "        self.__raftNextIndex[node] = self.__getCurrentLogIndex() + 1\n\n    def __onReadonlyNodeDisconnected")),
    brk('B-remove-keeps-connection', ['C10'], 'R-removed-excluded', (S, "            self.__raftMatchIndex.pop(oldNode, None)\n            self.__transport.dropNode(oldNode)", "            self.__raftMatchIndex.pop(oldNode, None)")),
    brk('B-isacquired-ignores-age', ['C16'], 'R-lock-guards', (B, """        if existingLock is not None:
            if existingLock[0] == clientID:
                if currentTime - existingLock[1] < self.__autoUnlockTime:
                    return True
        return False
""", """        return existingLock is not None and existingLock[0] == clientID
""")),
    brk('B-reader-stops-at-empty-command', ['C08'], 'R-record-layout', (J, "            nextRecordData = self.__journalFile.read(currentOffset + 4, nextRecordSize)\n", "            if nextRecordSize <= 16:\n                break\n            nextRecordData = self.__journalFile.read(currentOffset + 4, nextRecordSize)\n")),
    brk('B-clear-resets-commit-index', ['C08', 'C06'], 'R-commit-index-setter-only', (J, "    def clear(self):\n        self.__journal = []\n        self.__setLastRecordOffset(FIRST_RECORD_OFFSET)\n", "    def clear(self):\n        self.__journal = []\n        self.__setLastRecordOffset(FIRST_RECORD_OFFSET)\n        self.setRaftCommitIndex(1)\n")),
    brk('B-short-write-keeps-prefix', ['C13'], 'R-write-fifo', (T, "            if res == 0:\n                return False\n            self.__writeBuffer = self.__writeBuffer[res:]", "            if res < len(self.__writeBuffer):\n                return False\n            self.__writeBuffer = self.__writeBuffer[res:]")),
    brk('B-connecting-before-connect', ['C14'], 'R-connecting-registered', (T, "        self.__lastReadTime = monotonicTime()\n\n        try:\n            self.__socket.connect((host, port))", "        self.__lastReadTime = monotonicTime()\n        self.__state = CONNECTION_STATE.CONNECTING\n\n        try:\n            self.__socket.connect((host, port))")),
    brk('B-retry-on-wall-clock', ['C14'], 'R-interval-clock', (TR, "monotonicTime() - self._lastConnectAttempt[node] < self._syncObj.conf.connectionRetryTime", "time.time() - self._lastConnectAttempt[node] < self._syncObj.conf.connectionRetryTime"), (TR, "        self._lastConnectAttempt[node] = monotonicTime()", "        self._lastConnectAttempt[node] = time.time()")),
    brk('B-leader-adopted-silently', ['C18', 'C19'], 'R-leader-change-notified', (S, "            if self.__raftLeader != node:\n                self.__onLeaderChanged()", "            if self.__raftLeader is None:\n                self.__onLeaderChanged()")),
    brk('B-snapshot-members-with-observers', ['C18', 'C10', 'C09'], 'R-payload-complete', (S, "cluster = self.__otherNodes | {self.__selfNode}", "cluster = self.__otherNodes | self.__readonlyNodes | {self.__selfNode}")),
    brk('B-sort-reverse-emulated', ['C15'], 'R-delegate-agree', (B, "        self.__data.sort(reverse=reverse)", "        self.__data.sort()\n        if reverse:\n            self.__data.reverse()")),
    brk('B-chunk-not-acknowledged', ['C11'], 'R-chunk-kinds', (S, "                        self.__recvTransmission += message['data']\n                        self.__sendNextNodeIdx(node, success=False, reset=False)\n                        return", "                        self.__recvTransmission += message['data']\n                        return")),
    brk('B-child-does-not-exit', ['C09'], 'R-fork-child-exits', (SER, "            atomicReplace(tmpFile, self.__fileName)\n            if self.__useFork:\n                os._exit(0)", "            atomicReplace(tmpFile, self.__fileName)\n            if not self.__useFork:\n                os._exit(0)")),
    brk('B-fork-when-not-asked', ['C09'], 'R-fork-child-exits', (SER, "        if self.__useFork:\n            pid = os.fork()", "        if not self.__useFork:\n            pid = os.fork()")),
    brk('B-cut-at-last-conflict', ['C01', 'C04'], 'R-truncate-on-conflict', (S, "                        conflictPos = pos\n                        break\n", "                        conflictPos = pos\n")),
    brk('B-extand-does-not-grow', ['C08', 'C11'], 'R-bounded-write', (J, "        with open(self.__fileName, 'ab') as f:\n            f.write(b'\\0' * bytesToAdd)\n", "        with open(self.__fileName, 'ab') as f:\n            pass\n")),
    brk('B-extand-wrong-amount', ['C08', 'C11'], 'R-bounded-write', (J, "                self.__extand(newSize - currSize)", "                self.__extand(newSize - offset)")),
    brk('B-envelope-not-wrapped', ['C13'], 'R-codec-inverse', (T, "        if self.sendRandKey:\n            message = (self.sendRandKey, message)\n", "")),
    brk('B-second-layout-dependent-op', ['C15'], 'R-deterministic-ops', (B, "    @replicated\n    def pop(self):\n        \"\"\"\n        Remove and return an arbitrary set element.", "    @replicated\n    def takeAny(self):\n        return self.__data.pop()\n\n    @replicated\n    def pop(self):\n        \"\"\"\n        Remove and return an arbitrary set element.")),
    brk('B-add-member-guard-and', ['C10'], 'R-removed-excluded', (S, "if newNode == self.__selfNode or newNode in self.__otherNodes:", "if newNode == self.__selfNode and newNode in self.__otherNodes:")),
    brk('B-fork-parent-forgets-child', ['C09'], 'R-serializer-idle', (SER, "            if pid != 0:\n                self.__pid = pid\n                return", "            if pid != 0:\n                return")),
    brk('B-apply-drops-kwargs', ['C11'], 'R-cmd-shapes', (S, "            funcID, args, newKwArgs = command\n            kwargs.update(newKwArgs)\n", "            funcID, args, newKwArgs = command\n")),
    brk('B-dispatch-arity-swapped', ['C11'], 'R-cmd-shapes', (S, "        elif len(command) == 2:\n            funcID, args = command", "        elif len(command) != 2:\n            funcID, args = command")),
    brk('B-battery-setitem-noop', ['C15'], 'R-delegate-agree', (B, "        \"\"\"Set value for specified key\"\"\"\n        self.__data[key] = value", "        \"\"\"Set value for specified key\"\"\"\n        pass")),
    keep('P-rename-transport-privates', (TR, '_shouldConnect', '_mustDial'), (TR, '_onIncomingMessageReceived', '_onHandshake'), (TR, '_connectIfNecessarySingle', '_dialOne'),
         (TR, '_onDisconnected', '_onConnLost')),
    keep('P-checkserializing-hoist-reset', (SER, "                serializeState = SERIALIZER_STATE.SUCCESS if self.__pid == -1 else SERIALIZER_STATE.FAILED\n                self.__pid = 0\n", "                finished = self.__pid\n                self.__pid = 0\n                serializeState = SERIALIZER_STATE.SUCCESS if finished == -1 else SERIALIZER_STATE.FAILED\n")),
    keep('P-clear-store-then-publish', (J, "        self.__setLastRecordOffset(FIRST_RECORD_OFFSET)\n        self.__currentOffset = FIRST_RECORD_OFFSET", "        self.__currentOffset = FIRST_RECORD_OFFSET\n        self.__setLastRecordOffset(self.__currentOffset)")),
    keep('P-add-offset-in-local', (J, "        self.__currentOffset += len(cmdData)\n        self.__setLastRecordOffset(self.__currentOffset)", "        end = self.__currentOffset + len(cmdData)\n        self.__currentOffset = end\n        self.__setLastRecordOffset(end)")),
]

VARIANTS = [v for v in VARIANTS if not v.get('skip_reason') and not v.get('note')]
