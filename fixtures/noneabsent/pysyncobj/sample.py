"""Positive example for R-none-is-a-value (not part of the repository): absence decided by a None lookup result."""


class SampleDict(object):
    def __init__(self):
        self.__data = {}

    def setdefault(self, key, default=None):
        value = self.__data.get(key)
        if value is None:
            value = self.__data[key] = default
        return value

    def get(self, key, default=None):
        value = self.__data.get(key)
        if value is None:
            return default
        return value
