"""Positive fixture for L-dead-guard: `self.__pending` is tested against None but only ever assigned None."""


class Gate(object):
    def __init__(self):
        self.__pending = None
        self.__live = None

    def submit(self, idx):
        if self.__pending is not None:
            return False
        if self.__live is not None:
            return False
        self.__live = idx
        return True

    def done(self):
        self.__pending = None
        self.__live = None
