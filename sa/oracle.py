"""Entailment oracle for must-facts (DESIGN 2.3): a small decision procedure for
conjunctions of literals over opaque terms -- equalities, disequalities and order
constraints with constant offsets (difference-constraint closure, Floyd-Warshall
with strictness), None-tags, truthiness tags, finite-membership atoms (case
split) and opaque boolean atoms.  No external solver is involved.

Literals (all hashable tuples):
  ('lt', a, b)  ('le', a, b)  ('eq', a, b)  ('ne', a, b)
  ('none', t, pol)  ('truthy', t, pol)  ('in', t, (e1, e2, ..), pol)
  ('opaque', key, pol)
Terms are `Term` objects (facts.py) or anything with .key/.const/.base/.off.
"""
import itertools

_cache = {}
stats = {'sat_queries': 0, 'sat_cache_hits': 0, 'entail_queries': 0}

INF = (float('inf'), 0)


def _add(p, q):
    return (p[0] + q[0], p[1] + q[1])


def negate(lit):
    k = lit[0]
    if k == 'lt':
        return ('le', lit[2], lit[1])
    if k == 'le':
        return ('lt', lit[2], lit[1])
    if k == 'eq':
        return ('ne', lit[1], lit[2])
    if k == 'ne':
        return ('eq', lit[1], lit[2])
    if k in ('none', 'truthy', 'opaque'):
        return (k, lit[1], not lit[2])
    if k == 'in':
        return ('in', lit[1], lit[2], not lit[3])
    raise ValueError(lit)


def lit_terms(lit):
    k = lit[0]
    if k in ('lt', 'le', 'eq', 'ne'):
        return (lit[1], lit[2])
    if k in ('none', 'truthy'):
        return (lit[1],)
    if k == 'in':
        return (lit[1],) + tuple(lit[2])
    return ()


def lit_str(lit):
    k = lit[0]
    sym = {'lt': '<', 'le': '<=', 'eq': '==', 'ne': '!='}
    if k in sym:
        return '%s %s %s' % (lit[1].key, sym[k], lit[2].key)
    if k == 'none':
        return '%s is %sNone' % (lit[1].key, '' if lit[2] else 'not ')
    if k == 'truthy':
        return ('%s' if lit[2] else 'not %s') % lit[1].key
    if k == 'in':
        return '%s %sin (%s)' % (lit[1].key, '' if lit[3] else 'not ', ', '.join(e.key for e in lit[2]))
    if k == 'opaque':
        return ('%s' if lit[2] else 'not (%s)') % lit[1]
    return str(lit)


def sat(lits):
    """Is the conjunction of literals satisfiable (over-approximation: True when unsure)?"""
    key = frozenset(lits)
    stats['sat_queries'] += 1
    r = _cache.get(key)
    if r is not None:
        stats['sat_cache_hits'] += 1
        return r
    r = _sat(list(key))
    if len(_cache) > 400000:
        _cache.clear()
    _cache[key] = r
    return r


def _sat(lits):
    # case split on positive finite membership
    for i, l in enumerate(lits):
        if l[0] == 'in' and l[3]:
            rest = lits[:i] + lits[i + 1:]
            for e in l[2]:
                if _sat(rest + [('eq', l[1], e)]):
                    return True
            return False
    base = []
    for l in lits:
        if l[0] == 'in':
            for e in l[2]:
                base.append(('ne', l[1], e))
        else:
            base.append(l)
    return _sat_conj(base)


def _sat_conj(lits):
    # opaque atoms: polarity consistency
    op = {}
    for l in lits:
        if l[0] == 'opaque':
            if op.setdefault(l[1], l[2]) != l[2]:
                return False
    # collect terms
    terms = {}
    order = []

    def node(t):
        k = t.key
        if k not in terms:
            terms[k] = t
            order.append(k)
        return k

    def node_rec(t):
        if t.key in terms:
            return
        node(t)
        if t.base is not None:
            node_rec(t.base)
        for st in getattr(t, 'sub', ()):
            node_rec(st)

    for l in lits:
        for t in lit_terms(l):
            node_rec(t)
    # congruence closure over the syntactic equalities: f(x) == f(y) when x == y
    congr = []
    if any(getattr(terms[k], 'sub', ()) for k in order):
        uf = {}

        def find(a):
            while uf.get(a, a) != a:
                uf[a] = uf.get(uf[a], uf[a])
                a = uf[a]
            return a

        def union(a, b):
            ra, rb = find(a), find(b)
            if ra != rb:
                uf[ra] = rb
                return True
            return False
        for l in lits:
            if l[0] == 'eq':
                union(l[1].key, l[2].key)
        changed = True
        while changed:
            changed = False
            sig = {}
            for k in order:
                t = terms[k]
                sub = getattr(t, 'sub', ())
                if not sub or t.shape is None:
                    continue
                sg = (t.shape, tuple(find(x.key) for x in sub))
                if sg in sig:
                    if union(sig[sg], k):
                        congr.append((terms[sig[sg]], t))
                        changed = True
                else:
                    sig[sg] = k
    lits = lits + [('eq', a, b) for a, b in congr]
    # axiom: truthiness of a sized object vs its len() term (also through syntactic equalities x == y)
    eqs = {}
    for l in lits:
        if l[0] == 'eq':
            eqs.setdefault(l[1].key, set()).add(l[2].key)
            eqs.setdefault(l[2].key, set()).add(l[1].key)

    def eq_class(k):
        seen = {k}
        todo = [k]
        while todo:
            x = todo.pop()
            for y in eqs.get(x, ()):
                if y not in seen:
                    seen.add(y)
                    todo.append(y)
        return seen
    extra = []
    for l in lits:
        if l[0] == 'truthy':
            for k in eq_class(l[1].key):
                lk = 'len(%s)' % k
                if lk in terms:
                    if l[2]:
                        extra.append(('lt', _CONST0, terms[lk]))
                    else:
                        extra.append(('eq', terms[lk], _CONST0))
    # axiom: min(a, b, ..) <= each argument, max(a, b, ..) >= each argument
    for k in list(order):
        t = terms[k]
        sh = getattr(t, 'shape', None)
        if sh and t.sub and (sh.startswith('min(') or sh.startswith('max(')) and '=' not in sh:
            for st in t.sub:
                extra.append(('le', t, st) if sh.startswith('min(') else ('le', st, t))
    for l in extra:
        for t in lit_terms(l):
            node(t)
    lits = lits + extra
    ZERO = '\0zero'
    order.append(ZERO)
    idx = {k: i for i, k in enumerate(order)}
    n = len(order)
    D = [[INF] * n for _ in range(n)]
    for i in range(n):
        D[i][i] = (0, 0)

    def con(x, y, c):            # x - y <= c   (c is a pair)
        i, j = idx[y], idx[x]
        if c < D[i][j]:
            D[i][j] = c

    codes = {}
    for k in order[:-1]:
        t = terms[k]
        if t.const is not None:
            v = t.const[0]
            if isinstance(v, bool):
                num = int(v)
            elif isinstance(v, (int, float)):
                num = v
            elif v is None:
                num = None
            else:
                num = codes.setdefault(repr(v), 1000003 * (len(codes) + 7) + 0.5)
            if num is not None:
                con(k, ZERO, (num, 0))
                con(ZERO, k, (-num, 0))
        if t.base is not None:
            con(k, t.base.key, (t.off, 0))
            con(t.base.key, k, (-t.off, 0))
    nes = []
    for l in lits:
        k = l[0]
        if k == 'lt':
            con(l[1].key, l[2].key, (0, -1))
        elif k == 'le':
            con(l[1].key, l[2].key, (0, 0))
        elif k == 'eq':
            con(l[1].key, l[2].key, (0, 0))
            con(l[2].key, l[1].key, (0, 0))
        elif k == 'ne':
            nes.append((l[1].key, l[2].key))
    # closure
    for k in range(n):
        Dk = D[k]
        for i in range(n):
            dik = D[i][k]
            if dik == INF:
                continue
            Di = D[i]
            for j in range(n):
                if Dk[j] == INF:
                    continue
                s = (dik[0] + Dk[j][0], dik[1] + Dk[j][1])
                if s < Di[j]:
                    Di[j] = s
    for i in range(n):
        if D[i][i] < (0, 0):
            return False

    def forced_eq(a, b):
        i, j = idx[a], idx[b]
        return D[i][j] == (0, 0) and D[j][i] == (0, 0)

    for a, b in nes:
        if a == b or forced_eq(a, b):
            return False
    # None tags / truthiness per forced-equality class
    tags = {}

    def cls(a):
        for r in list(tags):
            if r == a or forced_eq(r, a):
                return r
        tags[a] = {}
        return a

    def settag(a, tag, val):
        c = cls(a)
        d = tags[c]
        if tag in d and d[tag] != val:
            return False
        d[tag] = val
        return True

    for k in order[:-1]:
        t = terms[k]
        if t.const is not None:
            v = t.const[0]
            if not settag(k, 'none', v is None):
                return False
            if not settag(k, 'truthy', bool(v)):
                return False
    for l in lits:
        if l[0] == 'none':
            if not settag(l[1].key, 'none', l[2]):
                return False
            if l[2] and not settag(l[1].key, 'truthy', False):
                return False
        elif l[0] == 'truthy':
            if not settag(l[1].key, 'truthy', l[2]):
                return False
            if l[2] and not settag(l[1].key, 'none', False):
                return False
    # a term constrained by an order relation or arithmetic to a number is not None
    for l in lits:
        if l[0] in ('lt', 'le'):
            for t in (l[1], l[2]):
                if not settag(t.key, 'none', False):
                    return False
    return True


class _C0(object):
    key = '0'
    const = (0,)
    base = None
    off = 0
    deps = frozenset()


_CONST0 = _C0()


# ---------------------------------------------------------------- formulas
# goal formulas: literal | ('and', f1, f2, ...) | ('or', f1, f2, ...) | ('not', f)

def _nnf_neg(f):
    k = f[0]
    if k == 'and':
        return ('or',) + tuple(_nnf_neg(x) for x in f[1:])
    if k == 'or':
        return ('and',) + tuple(_nnf_neg(x) for x in f[1:])
    if k == 'not':
        return f[1]
    return negate(f)


def _dnf(f):
    k = f[0]
    if k == 'or':
        out = []
        for x in f[1:]:
            out.extend(_dnf(x))
        return out
    if k == 'and':
        parts = [_dnf(x) for x in f[1:]]
        out = []
        for combo in itertools.product(*parts):
            c = []
            for x in combo:
                c.extend(x)
            out.append(c)
        return out
    if k == 'not':
        return _dnf(_nnf_neg(f[1]))
    return [[f]]


def entails(facts, goal):
    """facts (iterable of literals) |= goal formula ?  (False when unsure)"""
    stats['entail_queries'] += 1
    facts = list(facts)
    for conj in _dnf(_nnf_neg(goal)):
        if sat(facts + conj):
            return False
    return True


def consistent_with(facts, formula):
    facts = list(facts)
    for conj in _dnf(formula):
        if sat(facts + conj):
            return True
    return False
