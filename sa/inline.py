"""Helper-inlined view of the program (DESIGN 8.8).

A behaviour-preserving "extract method" refactoring moves statements of an anchored function into a new
private helper.  Rules anchored on the function then see a call where they expect the statements.  This
module builds a second Program from the same source files in which every statement-position call of a
*private* helper of the same class / module (`self._h(..)`, `x = self._h(..)`, `return self._h(..)`,
`if [not] self._h(..):`, `_modfunc(..)`) is replaced by the helper's body:

    InlineBlock(body=[<param = arg> ..., <helper statements with locals renamed on a clash>])

`return v` inside the block becomes `<target> = v; InlineReturn` (a jump to the end of the block, which
the CFG builder routes through enclosing `finally` bodies of the helper).  The helper functions stay in
the function tables; nothing of the repository is executed.  The transformation is semantics-preserving
(call-by-value parameter binding, fresh names, same evaluation order), so a rule that holds on the inlined
view holds on the program.  It is a fallback view: a rule is evaluated on it only when it did not pass on
the plain view (report.run_property).
"""
import ast
import copy

MAX_DEPTH = 4
MAX_HELPER_STMTS = 250


class InlineBlock(ast.stmt):
    _fields = ('body',)
    _attributes = ('lineno', 'col_offset', 'end_lineno', 'end_col_offset')


class InlineReturn(ast.stmt):
    _fields = ()
    _attributes = ('lineno', 'col_offset', 'end_lineno', 'end_col_offset')


def _is_private(name):
    return name.startswith('_') and not (name.startswith('__') and name.endswith('__'))


def _stmt_count(node):
    return sum(1 for n in ast.walk(node) if isinstance(n, ast.stmt))


def _always_returns(stmts):
    """structurally: every path through the statement list ends in a return / raise"""
    if not stmts:
        return False
    last = stmts[-1]
    if isinstance(last, (ast.Return, ast.Raise)):
        return True
    if isinstance(last, ast.If):
        return _always_returns(last.body) and _always_returns(last.orelse)
    if isinstance(last, ast.Try):
        if last.finalbody and _always_returns(last.finalbody):
            return True
        main = _always_returns(last.orelse) if last.orelse else _always_returns(last.body)
        return main and all(_always_returns(h.body) for h in last.handlers)
    if isinstance(last, ast.With):
        return _always_returns(last.body)
    return False


def _has_yield(node):
    todo = list(node.body)
    while todo:
        n = todo.pop()
        if isinstance(n, (ast.Yield, ast.YieldFrom, ast.Await)):
            return True
        if isinstance(n, (ast.FunctionDef, ast.Lambda, ast.ClassDef)):
            continue
        todo.extend(ast.iter_child_nodes(n))
    return False


def _names_in(node):
    return set(n.id for n in ast.walk(node) if isinstance(n, ast.Name))


def _stored_names(node):
    out = set()
    for n in ast.walk(node):
        if isinstance(n, ast.Name) and isinstance(n.ctx, (ast.Store, ast.Del)):
            out.add(n.id)
        elif isinstance(n, ast.ExceptHandler) and n.name:
            out.add(n.name)
        elif isinstance(n, (ast.FunctionDef, ast.ClassDef)):
            out.add(n.name)
        elif isinstance(n, ast.arg):
            out.add(n.arg)
    return out


class _Renamer(ast.NodeTransformer):
    def __init__(self, mapping, subst):
        self.mapping = mapping      # local name -> new name
        self.subst = subst          # param name -> expression node (Name / Constant), loads only

    def visit_Name(self, n):
        if n.id in self.subst and isinstance(n.ctx, ast.Load):
            return ast.copy_location(copy.deepcopy(self.subst[n.id]), n)
        if n.id in self.mapping:
            return ast.copy_location(ast.Name(id=self.mapping[n.id], ctx=n.ctx), n)
        return n

    def visit_ExceptHandler(self, n):
        if n.name and n.name in self.mapping:
            n.name = self.mapping[n.name]
        self.generic_visit(n)
        return n

    def visit_arg(self, n):
        if n.arg in self.mapping:
            n.arg = self.mapping[n.arg]
        return n


def load_baseline():
    """qualified names of the functions that existed when the rules were confirmed against the tree (tools/gen_baseline.py).
    They are the anchors the rules know; a private helper that is not in the table is a candidate product of an
    extract-method refactoring and is inlined in the fallback view.  The table steers only which equivalent view is
    tried -- it never makes a rule fire."""
    import json
    import os
    p = os.path.join(os.path.dirname(os.path.abspath(__file__)), 'baseline_funcs.json')
    try:
        with open(p) as f:
            return set(json.load(f)['functions'])
    except (IOError, OSError, ValueError, KeyError):
        return None


class Expander(object):
    def __init__(self, program, policy='new'):
        self.P = program
        self.policy = policy
        self.baseline = load_baseline()
        self.pristine = {}            # qualname -> deep copy of the FunctionDef before any rewriting
        self.inlined_sites = {}       # helper qualname -> number of call sites replaced
        self.counter = 0
        for f in program.functions.values():
            self.pristine[f.qualname] = copy.deepcopy(f.node)

    # ------------------------------------------------------------------ eligibility
    def helper_for(self, func, call):
        """FuncInfo of the private helper called by `call` inside `func`, with the binding mode, or None"""
        P = self.P
        f = call.func
        if any(isinstance(a, ast.Starred) for a in call.args) or any(k.arg is None for k in call.keywords):
            return None
        target = None
        bound_self = None
        sn = func.self_name
        ci = func.owner_cls
        if isinstance(f, ast.Attribute) and isinstance(f.value, ast.Name):
            if sn and f.value.id == sn and ci is not None:
                m = P.lookup_method(ci, f.attr)
                if m is None:
                    return None
                # a method overridden in a subclass of the package is dispatched dynamically
                if any(f.attr in sc.methods for sc in P.subclasses(ci)):
                    return None
                target = m
                bound_self = ast.Name(id=sn, ctx=ast.Load())
            elif ci is not None and f.value.id == ci.name and f.attr in ci.methods:
                m = ci.methods[f.attr]
                if self._is_static(m):
                    target = m
        elif isinstance(f, ast.Name):
            if f.id in func.params or P._is_local(func, f.id):
                return None
            m = func.module.functions.get(f.id)
            if m is not None and m.cls is None and m.parent is None:
                target = m
        if target is None or not _is_private(target.name):
            return None
        if self.policy == 'new' and (self.baseline is None or target.qualname in self.baseline):
            return None
        node = self.pristine[target.qualname]
        decos = node.decorator_list
        static = self._is_static(target)
        if any(not (isinstance(d, ast.Name) and d.id == 'staticmethod') for d in decos):
            return None
        a = node.args
        if a.vararg or a.kwarg or a.kwonlyargs or getattr(a, 'posonlyargs', []):
            return None
        if _has_yield(node) or _stmt_count(node) > MAX_HELPER_STMTS:
            return None
        for n in ast.walk(node):
            if isinstance(n, (ast.Global, ast.Nonlocal)):
                return None
        if static:
            bound_self = None
        elif target.cls is not None and bound_self is None:
            return None
        return target, bound_self

    @staticmethod
    def _is_static(m):
        return any(isinstance(d, ast.Name) and d.id == 'staticmethod' for d in m.node.decorator_list)

    # ------------------------------------------------------------------ one call site
    def instantiate(self, func, call, target, bound_self, mode, result_target, caller_names, stack, depth):
        """list of statements replacing the call.  mode: 'expr' | 'assign' | 'return'"""
        node = copy.deepcopy(self.pristine[target.qualname])
        params = [x.arg for x in node.args.args]
        defaults = node.args.defaults
        first_default = len(params) - len(defaults)
        bind = {}
        args = list(call.args)
        pi = 0
        if bound_self is not None:
            bind[params[0]] = bound_self
            pi = 1
        for a in args:
            if pi >= len(params):
                return None
            bind[params[pi]] = a
            pi += 1
        for k in call.keywords:
            if k.arg not in params or k.arg in bind:
                return None
            bind[k.arg] = k.value
        for i, p in enumerate(params):
            if p not in bind:
                if i >= first_default:
                    bind[p] = defaults[i - first_default]
                else:
                    return None
        body_mod = ast.Module(body=node.body, type_ignores=[])
        stored = _stored_names(body_mod)
        self.counter += 1
        tag = '%s_i%d' % (target.name.lstrip('_'), self.counter)
        mapping = {}
        subst = {}
        pre = []
        helper_self = params[0] if bound_self is not None else None
        for p in params:
            a = bind[p]
            simple = isinstance(a, ast.Constant) or (isinstance(a, ast.Name) and a.id not in stored)
            if p == helper_self:
                mapping[p] = bound_self.id
                continue
            if simple and p not in stored:
                subst[p] = a
            else:
                new = p if p not in caller_names else '%s_%s' % (p, tag)
                mapping[p] = new
                asg = ast.Assign(targets=[ast.Name(id=new, ctx=ast.Store())], value=copy.deepcopy(a))
                ast.copy_location(asg, call)
                ast.fix_missing_locations(asg)
                pre.append(asg)
        for name in sorted(stored):
            if name in params:
                continue
            if name in caller_names:
                mapping[name] = '%s_%s' % (name, tag)
        body = [_Renamer(mapping, subst).visit(st) for st in node.body]
        # drop a leading docstring
        if body and isinstance(body[0], ast.Expr) and isinstance(body[0].value, ast.Constant) and isinstance(body[0].value.value, str):
            body = body[1:]
        new_names = set(mapping.values()) | _names_in(ast.Module(body=body, type_ignores=[]))
        caller_names |= new_names
        falls_through = not _always_returns(body)
        body = self._rewrite_returns(body, mode, result_target)
        if not falls_through:
            # every path of the helper ends in a return: there is no implicit `None` result (a phantom definition of the
            # result variable would otherwise be visible to syntax-directed rules)
            pass
        elif mode == 'assign':
            tail = ast.Assign(targets=[copy.deepcopy(result_target)], value=ast.Constant(value=None))
            ast.copy_location(tail, call)
            ast.fix_missing_locations(tail)
            body = body + [tail]
        elif mode == 'return':
            tail = ast.Return(value=ast.Constant(value=None))
            ast.copy_location(tail, call)
            ast.fix_missing_locations(tail)
            body = body + [tail]
        blk = InlineBlock(body=pre + body)
        ast.copy_location(blk, call)
        blk.helper = target.qualname
        blk.call = call
        # expand helper calls inside the inlined body (bounded depth, no recursion)
        if depth < MAX_DEPTH:
            pseudo = _PseudoFunc(target, func)
            blk.body = self.expand_body(pseudo, blk.body, caller_names, stack + [target.qualname], depth + 1, owner=func)
        self.inlined_sites[target.qualname] = self.inlined_sites.get(target.qualname, 0) + 1
        if depth == 0:
            self.top_sites[target.qualname] = self.top_sites.get(target.qualname, 0) + 1
        return [blk]

    def _rewrite_returns(self, stmts, mode, result_target):
        out = []
        for st in stmts:
            if isinstance(st, ast.Return):
                if mode == 'return':
                    out.append(st)
                    continue
                if mode == 'assign':
                    v = st.value if st.value is not None else ast.Constant(value=None)
                    asg = ast.Assign(targets=[copy.deepcopy(result_target)], value=v)
                    ast.copy_location(asg, st)
                    ast.fix_missing_locations(asg)
                    out.append(asg)
                elif st.value is not None and any(isinstance(n, ast.Call) for n in ast.walk(st.value)):
                    e = ast.Expr(value=st.value)
                    ast.copy_location(e, st)
                    out.append(e)
                r = InlineReturn()
                ast.copy_location(r, st)
                out.append(r)
                continue
            if isinstance(st, (ast.FunctionDef, ast.ClassDef)):
                out.append(st)
                continue
            for field in ('body', 'orelse', 'finalbody'):
                sub = getattr(st, field, None)
                if isinstance(sub, list) and sub and isinstance(sub[0], ast.stmt):
                    setattr(st, field, self._rewrite_returns(sub, mode, result_target))
            if isinstance(st, ast.Try):
                for h in st.handlers:
                    h.body = self._rewrite_returns(h.body, mode, result_target)
            out.append(st)
        return out

    # ------------------------------------------------------------------ statement walk
    def expand_body(self, func, stmts, caller_names, stack, depth, owner=None):
        out = []
        for st in stmts:
            out.extend(self.expand_stmt(func, st, caller_names, stack, depth, owner))
        return out

    def _try_site(self, func, call, mode, result_target, caller_names, stack, depth):
        if not isinstance(call, ast.Call):
            return None
        h = self.helper_for(func, call)
        if h is None:
            return None
        target, bound_self = h
        if target.qualname in stack:
            return None
        if bound_self is not None and getattr(func, 'self_override', None):
            bound_self = ast.Name(id=func.self_override, ctx=ast.Load())
        return self.instantiate(func, call, target, bound_self, mode, result_target, caller_names, stack, depth)

    def _hoist_nested(self, func, st, caller_names, stack, depth):
        """helper calls nested inside the expression of a simple statement (`return True, self._h(x)`,
        `x = 1 + self._h(y)`, `f(self._h(z))`) are evaluated into temporaries in front of the statement, in evaluation
        order.  Not inside lambdas / comprehensions / conditional sub-expressions, and only when everything the statement
        evaluates before the call is a plain load (so hoisting cannot change what is observed)."""
        if isinstance(st, (ast.Expr, ast.Return)):
            root = st.value
        elif isinstance(st, (ast.Assign, ast.AugAssign, ast.AnnAssign)):
            root = st.value
        else:
            return [], st
        if root is None:
            return [], st
        pre = []
        found = []

        def simple(e):
            return all(isinstance(x, (ast.Name, ast.Constant, ast.Attribute, ast.Load, ast.Tuple, ast.List, ast.Subscript, ast.Store, ast.Starred,
                                      ast.BinOp, ast.operator, ast.UnaryOp, ast.unaryop, ast.Compare, ast.cmpop, ast.keyword)) for x in ast.walk(e))

        def visit(e, top):
            # returns False when something not simple was evaluated before (stop hoisting further right)
            if isinstance(e, (ast.Lambda, ast.ListComp, ast.SetComp, ast.DictComp, ast.GeneratorExp, ast.IfExp, ast.BoolOp)):
                return False
            if isinstance(e, ast.Call):
                ok = True
                for ch in ([e.func] if not isinstance(e.func, (ast.Name, ast.Attribute)) else []) + list(e.args) + [k.value for k in e.keywords]:
                    if not visit(ch, False):
                        ok = False
                        break
                if not ok:
                    return False
                if not top and self.helper_for(func, e) is not None:
                    found.append(e)
                    return True
                return False if not top else True     # another call: its effects precede whatever follows
            for ch in ast.iter_child_nodes(e):
                if isinstance(ch, ast.expr):
                    if not visit(ch, False):
                        return False
            return True
        visit(root, True)
        if not found:
            return [], st
        for call in found:
            self.counter += 1
            tmp = ast.Name(id='val_i%d' % self.counter, ctx=ast.Store())
            r = self._try_site(func, call, 'assign', tmp, caller_names, stack, depth)
            if r is None:
                continue
            pre.extend(r)
            load = ast.copy_location(ast.Name(id=tmp.id, ctx=ast.Load()), call)

            class Rep(ast.NodeTransformer):
                def visit_Call(self, n):
                    if n is call:
                        return load
                    return self.generic_visit(n)
            st.value = Rep().visit(st.value)
        return pre, st

    def expand_stmt(self, func, st, caller_names, stack, depth, owner):
        if isinstance(st, (ast.FunctionDef, ast.ClassDef)):
            return [st]
        if isinstance(st, (ast.Expr, ast.Return, ast.Assign, ast.AugAssign, ast.AnnAssign)):
            pre, st = self._hoist_nested(func, st, caller_names, stack, depth)
            if pre:
                return pre + self.expand_stmt(func, st, caller_names, stack, depth, owner)
        if isinstance(st, ast.Expr):
            r = self._try_site(func, st.value, 'expr', None, caller_names, stack, depth)
            if r is not None:
                return r
            return [st]
        if isinstance(st, ast.Assign) and len(st.targets) == 1:
            r = self._try_site(func, st.value, 'assign', st.targets[0], caller_names, stack, depth)
            if r is not None:
                return r
            return [st]
        if isinstance(st, ast.Return) and st.value is not None:
            # only at the top level of a real function: inside an inline block a `return` was already rewritten
            if depth == 0 or getattr(func, 'return_ok', False):
                r = self._try_site(func, st.value, 'return', None, caller_names, stack, depth)
                if r is not None:
                    return r
            return [st]
        if isinstance(st, ast.If) and isinstance(st.test, ast.BoolOp) and len(st.test.values) >= 2:
            # `if A and self._h(..): B else: C`  ->  `if A: (if self._h(..): B else: C) else: C`   (same evaluation order)
            # `if A or  self._h(..): B else: C`  ->  `if A: B else: (if self._h(..): B else: C)`
            last = st.test.values[-1]
            core = last.operand if isinstance(last, ast.UnaryOp) and isinstance(last.op, ast.Not) else last
            others_have = any(isinstance(c, ast.Call) and self.helper_for(func, c) is not None for v in st.test.values[:-1] for c in ast.walk(v))
            if isinstance(core, ast.Call) and self.helper_for(func, core) is not None and not others_have:
                rest = st.test.values[0] if len(st.test.values) == 2 else ast.copy_location(ast.BoolOp(op=st.test.op, values=st.test.values[:-1]), st.test)
                inner = ast.copy_location(ast.If(test=last, body=st.body, orelse=st.orelse), st)
                if isinstance(st.test.op, ast.And):
                    outer = ast.copy_location(ast.If(test=rest, body=[inner], orelse=copy.deepcopy(st.orelse)), st)
                else:
                    inner.body = copy.deepcopy(st.body)
                    outer = ast.copy_location(ast.If(test=rest, body=st.body, orelse=[inner]), st)
                return self.expand_stmt(func, outer, caller_names, stack, depth, owner)
        if isinstance(st, ast.If):
            test = st.test
            neg = False
            if isinstance(test, ast.UnaryOp) and isinstance(test.op, ast.Not):
                test = test.operand
                neg = True
            if isinstance(test, ast.Call) and self.helper_for(func, test) is not None:
                self.counter += 1
                tmp = ast.Name(id='cond_i%d' % self.counter, ctx=ast.Store())
                r = self._try_site(func, test, 'assign', tmp, caller_names, stack, depth)
                if r is not None:
                    load = ast.Name(id=tmp.id, ctx=ast.Load())
                    ast.copy_location(load, test)
                    st.test = ast.copy_location(ast.UnaryOp(op=ast.Not(), operand=load), test) if neg else load
                    st.body = self.expand_body(func, st.body, caller_names, stack, depth, owner)
                    st.orelse = self.expand_body(func, st.orelse, caller_names, stack, depth, owner)
                    return r + [st]
        for field in ('body', 'orelse', 'finalbody'):
            sub = getattr(st, field, None)
            if isinstance(sub, list) and sub and isinstance(sub[0], ast.stmt):
                setattr(st, field, self.expand_body(func, sub, caller_names, stack, depth, owner))
        if isinstance(st, ast.Try):
            for h in st.handlers:
                h.body = self.expand_body(func, h.body, caller_names, stack, depth, owner)
        return [st]

    # ------------------------------------------------------------------ whole program
    def run(self):
        P = self.P
        # references to each helper name, per owning class / module (before any rewriting)
        refs = {}
        for f in P.functions.values():
            top = f
            while top.parent is not None:
                top = top.parent
            scope = top.cls.name if top.cls is not None else None
            for n in ast.walk(self.pristine[f.qualname]) if f.parent is None else ():
                if isinstance(n, ast.Attribute):
                    k = (scope, n.attr)
                    refs[k] = refs.get(k, 0) + 1
                    k = (f.module.name, n.attr)
                    refs[k] = refs.get(k, 0) + 1
                elif isinstance(n, ast.Name):
                    k = (f.module.name, n.id)
                    refs[k] = refs.get(k, 0) + 1
        self.top_sites = {}
        # nested functions share their parent's tree: every function body is rewritten in place
        for q in sorted(P.functions):
            f = P.functions[q]
            names = _names_in(f.node) | set(f.params)
            p = f.parent
            while p is not None:
                names |= _names_in(p.node)
                p = p.parent
            f.node.body = self.expand_body(f, f.node.body, names, [f.qualname], 0, owner=f)
        P.inlined_sites = dict(self.inlined_sites)
        self.propagate_literals()
        self.propagate_struct_objects()
        self.propagate_aliases()
        # a helper all of whose references were replaced is dead code in this view: drop it from the tables
        absorbed = []
        for q, n in self.top_sites.items():
            h = P.functions.get(q)
            if h is None or h.parent is not None:
                continue
            if h.cls is not None:
                total = refs.get((h.cls.name, h.name), 0)
                # references from other classes of the same module (Class.__x) are not counted as inlined
            else:
                total = refs.get((h.module.name, h.name), 0)
            if n >= total:
                absorbed.append(h)
        for h in absorbed:
            for q in [q for q in P.functions if q == h.qualname or q.startswith(h.qualname + '.')]:
                del P.functions[q]
            if h.cls is not None:
                h.cls.methods.pop(h.name, None)
                h.cls.node.body = [st for st in h.cls.node.body if st is not h.node]
            else:
                h.module.functions.pop(h.name, None)
                h.module.tree.body = [st for st in h.module.tree.body if st is not h.node]
        P.absorbed = sorted(h.qualname for h in absorbed)
        return P


def _literal_consts(module):
    """module-level NAME = <int/str/bytes literal>, bound exactly once in the module and never declared global"""
    counts = {}
    vals = {}
    structs = {}
    derived = set()
    for st in ast.walk(module.tree):
        if isinstance(st, ast.Global):
            for n in st.names:
                counts[n] = counts.get(n, 0) + 2
    for st in module.tree.body:
        tg = []
        if isinstance(st, ast.Assign):
            tg = st.targets
        elif isinstance(st, (ast.AugAssign, ast.AnnAssign)):
            tg = [st.target]
        for t in tg:
            for n in ast.walk(t):
                if isinstance(n, ast.Name):
                    counts[n.id] = counts.get(n.id, 0) + 1
        if isinstance(st, ast.Assign) and len(st.targets) == 1 and isinstance(st.targets[0], ast.Name) and isinstance(st.value, ast.Constant) \
                and isinstance(st.value.value, (int, str, bytes)) and not isinstance(st.value.value, bool):
            vals[st.targets[0].id] = st.value
        elif isinstance(st, ast.Assign) and len(st.targets) == 1 and isinstance(st.targets[0], ast.Name):
            # a constant expression over constants bound before: sizes computed from other sizes, `<Struct>.size`, len(b'..')
            # (only sizes derived from struct layouts and int literals: a position such as `FIRST = NAME_SIZE + VERSION_SIZE + 8`
            # built from named layout constants stays a name, the rules recognise header positions by it)
            names_in = set(x.id for x in ast.walk(st.value) if isinstance(x, ast.Name) and x.id not in structs and x.id not in ('len', 'struct'))
            v = _fold(st.value, vals, structs) if names_in <= derived else None
            if v is not None:
                vals[st.targets[0].id] = ast.copy_location(ast.Constant(value=v), st.value)
                derived.add(st.targets[0].id)
            elif isinstance(st.value, ast.Call) and isinstance(st.value.func, ast.Attribute) and st.value.func.attr == 'Struct' and st.value.args \
                    and isinstance(st.value.args[0], ast.Constant) and isinstance(st.value.args[0].value, str):
                structs[st.targets[0].id] = st.value.args[0].value
    return dict((k, v) for k, v in vals.items() if counts.get(k) == 1)


def _fold(e, vals, structs):
    """int value of a module-level constant expression, or None"""
    import struct as _struct
    try:
        if isinstance(e, ast.Constant) and isinstance(e.value, int) and not isinstance(e.value, bool):
            return e.value
        if isinstance(e, ast.Name) and e.id in vals and isinstance(vals[e.id].value, int):
            return vals[e.id].value
        if isinstance(e, ast.Attribute) and e.attr == 'size' and isinstance(e.value, ast.Name) and e.value.id in structs:
            return _struct.calcsize(structs[e.value.id])
        if isinstance(e, ast.Call) and isinstance(e.func, ast.Attribute) and e.func.attr == 'calcsize' and e.args and isinstance(e.args[0], ast.Constant):
            return _struct.calcsize(e.args[0].value)
        if isinstance(e, ast.Call) and isinstance(e.func, ast.Name) and e.func.id == 'len' and len(e.args) == 1:
            a = e.args[0]
            if isinstance(a, ast.Constant) and isinstance(a.value, (str, bytes)):
                return len(a.value)
            if isinstance(a, ast.Name) and a.id in vals and isinstance(vals[a.id].value, (str, bytes)):
                return len(vals[a.id].value)
        if isinstance(e, ast.BinOp) and isinstance(e.op, (ast.Add, ast.Sub, ast.Mult, ast.FloorDiv)):
            l, r = _fold(e.left, vals, structs), _fold(e.right, vals, structs)
            if l is None or r is None:
                return None
            return {ast.Add: l + r, ast.Sub: l - r, ast.Mult: l * r, ast.FloorDiv: (l // r if r else None)}[type(e.op)]
    except Exception:
        return None
    return None


class _LiteralSubst(ast.NodeTransformer):
    def __init__(self, consts, shadow):
        self.consts = consts
        self.shadow = shadow

    def visit_Name(self, n):
        if isinstance(n.ctx, ast.Load) and n.id in self.consts and n.id not in self.shadow:
            return ast.copy_location(ast.Constant(value=self.consts[n.id].value), n)
        return n


def _propagate(self):
    """second normalisation of the fallback view: a name bound once, at module level, to a literal is replaced by the
    literal inside function bodies (`_HEADER_SIZE = 4` ... `buf[:_HEADER_SIZE]` reads `buf[:4]`)"""
    P = self.P
    for m in P.modules.values():
        consts = _literal_consts(m)
        if not consts:
            continue
        for f in P.functions.values():
            if f.module is not m or f.parent is not None:
                continue
            shadow = _stored_names(f.node) - {f.node.name}
            f.node.body = [_LiteralSubst(consts, shadow).visit(st) for st in f.node.body]


Expander.propagate_literals = _propagate


def _propagate_struct(self):
    """NAME = struct.Struct('<I') at module level:  NAME.pack(x) -> struct.pack('<I', x), NAME.unpack(b) -> struct.unpack('<I', b),
    NAME.size -> struct.calcsize('<I')  (the rules read struct formats at the pack / unpack calls)"""
    P = self.P
    for m in P.modules.values():
        objs = {}
        for st in m.tree.body:
            if isinstance(st, ast.Assign) and len(st.targets) == 1 and isinstance(st.targets[0], ast.Name) and isinstance(st.value, ast.Call) \
                    and isinstance(st.value.func, ast.Attribute) and st.value.func.attr == 'Struct' and st.value.args and isinstance(st.value.args[0], ast.Constant):
                objs[st.targets[0].id] = st.value.args[0]
        if not objs:
            continue

        class T(ast.NodeTransformer):
            def visit_Call(self, n):
                self.generic_visit(n)
                f = n.func
                if isinstance(f, ast.Attribute) and isinstance(f.value, ast.Name) and f.value.id in objs and f.attr in ('pack', 'unpack', 'unpack_from', 'pack_into'):
                    new = ast.Call(func=ast.Attribute(value=ast.Name(id='struct', ctx=ast.Load()), attr=f.attr, ctx=ast.Load()),
                                   args=[copy.deepcopy(objs[f.value.id])] + n.args, keywords=n.keywords)
                    return ast.fix_missing_locations(ast.copy_location(new, n))
                return n

            def visit_Attribute(self, n):
                self.generic_visit(n)
                if isinstance(n.value, ast.Name) and n.value.id in objs and n.attr == 'size' and isinstance(n.ctx, ast.Load):
                    import struct as _struct
                    try:
                        return ast.copy_location(ast.Constant(value=_struct.calcsize(objs[n.value.id].value)), n)
                    except Exception:
                        pass
                    new = ast.Call(func=ast.Attribute(value=ast.Name(id='struct', ctx=ast.Load()), attr='calcsize', ctx=ast.Load()),
                                   args=[copy.deepcopy(objs[n.value.id])], keywords=[])
                    return ast.fix_missing_locations(ast.copy_location(new, n))
                return n
        for f in P.functions.values():
            if f.module is m and f.parent is None:
                f.node.body = [T().visit(st) for st in f.node.body]


Expander.propagate_struct_objects = _propagate_struct


def _propagate_aliases(self):
    """A local bound once to an attribute of self (or to a bound method of the object an attribute holds) is replaced by
    that expression at every use that no rebinding of the attribute can reach:
        connected = self.__connectedNodes ... `node in connected`      ->  `node in self.__connectedNodes`
        send = self.__transport.send      ... `send(node, msg)`        ->  `self.__transport.send(node, msg)`
    In-place mutation of the held object is the same object under either name; only a rebinding of the attribute between
    the definition and the use would make the two differ, and such uses are left alone."""
    from . import cfg as cfgmod
    P = self.P
    for f in list(P.functions.values()):
        sn = f.self_name
        if not sn or f.parent is not None:
            continue
        # candidates: single-store locals whose value is self.a or self.a.b (no call)
        stores = {}
        for n in ast.walk(f.node):
            if isinstance(n, ast.Name) and isinstance(n.ctx, (ast.Store, ast.Del)):
                stores[n.id] = stores.get(n.id, 0) + 1
        cands = {}
        elem_cands = set()
        for n in ast.walk(f.node):
            if isinstance(n, ast.Assign) and len(n.targets) == 1 and isinstance(n.targets[0], ast.Name) and stores.get(n.targets[0].id) == 1 \
                    and n.targets[0].id not in f.params:
                v = n.value
                root = v
                depth = 0
                while isinstance(root, ast.Attribute):
                    root = root.value
                    depth += 1
                if isinstance(root, ast.Name) and root.id == sn and 1 <= depth <= 2 and isinstance(v, ast.Attribute):
                    attr = v.attr if depth == 1 else v.value.attr
                    if depth == 2:
                        # only a bound method of the object the attribute holds (self.__transport.send), not a value stored in it
                        types = P.field_types(f.owner_cls).get(attr, set()) if f.owner_cls is not None else set()
                        if not any(tn in P.classes and P.lookup_method(P.classes[tn], v.attr) is not None for tn in types):
                            continue
                    cands[n.targets[0].id] = (n, v, attr)
                elif isinstance(v, ast.Subscript) and isinstance(v.value, ast.Attribute) and isinstance(v.value.value, ast.Name) and v.value.value.id == sn \
                        and isinstance(v.slice, (ast.Constant, ast.Name)):
                    # an element looked up once and then only called: `method = self._table[key]` ... `method(*args)`
                    nm = n.targets[0].id
                    uses = [x for x in ast.walk(f.node) if isinstance(x, ast.Name) and x.id == nm and isinstance(x.ctx, ast.Load)]
                    called = [c for c in ast.walk(f.node) if isinstance(c, ast.Call) and isinstance(c.func, ast.Name) and c.func.id == nm]
                    if uses and len(uses) == len(called):
                        cands[nm] = (n, v, v.value.attr)
                        elem_cands.add(nm)
        if not cands:
            continue
        try:
            g = cfgmod.CFG(f, P)
        except Exception:
            continue
        # nodes that may rebind an attribute
        rebind_nodes = {}
        for node in g.nodes:
            if node.ast is None or node.kind not in ('stmt', 'cond', 'iter', 'with'):
                continue
            hdr = node.ast
            if node.kind == 'iter':
                hdr = ast.Tuple(elts=[node.ast.target, node.ast.iter], ctx=ast.Load())
            elif node.kind == 'with':
                hdr = ast.Tuple(elts=[i.context_expr for i in node.ast.items], ctx=ast.Load())
            attrs = set()
            for x in ast.walk(hdr):
                if isinstance(x, (ast.Assign, ast.AugAssign, ast.Delete)):
                    tg = x.targets if isinstance(x, (ast.Assign, ast.Delete)) else [x.target]
                    for t in tg:
                        for y in ast.walk(t):
                            a_ = P.self_attr(y, sn)
                            if a_ and isinstance(getattr(y, 'ctx', None), (ast.Store, ast.Del)):
                                attrs.add(a_)
                            if isinstance(y, ast.Subscript) and P.self_attr(y.value, sn) == '__dict__':
                                attrs.add('*')
                            if isinstance(y, ast.Subscript) and P.self_attr(y.value, sn) and isinstance(getattr(y, 'ctx', None), (ast.Store, ast.Del)):
                                attrs.add('E:' + P.self_attr(y.value, sn))
                if isinstance(x, ast.Call):
                    r = P.resolve_call(f, x)
                    if r.kind == 'method':
                        for t in r.targets:
                            attrs |= P.rebinds(t)
                            attrs |= set('E:' + w_[2:] for w_ in P.writes(t) if w_.startswith('A:'))
                    if isinstance(x.func, ast.Attribute) and P.self_attr(x.func.value, sn) and x.func.attr in ('pop', 'clear', 'update', 'setdefault', 'popitem', '__setitem__'):
                        attrs.add('E:' + P.self_attr(x.func.value, sn))
            for a_ in attrs:
                rebind_nodes.setdefault(a_, set()).add(node.id)
        subst = {}
        for name, (asg, val, attr) in cands.items():
            dn = g.nodes_for_ast(asg)
            if not dn:
                continue
            d = dn[0].id
            rb = rebind_nodes.get(attr, set()) | rebind_nodes.get('*', set())
            if name in elem_cands:
                rb = rb | rebind_nodes.get('E:' + attr, set())
                if isinstance(val.slice, ast.Name):
                    # ... and a new value of the key
                    for node in g.nodes:
                        if node.ast is not None and node.kind in ('stmt', 'iter', 'with') and node.id != d and any(
                                isinstance(x, ast.Name) and x.id == val.slice.id and isinstance(x.ctx, (ast.Store, ast.Del)) for x in ast.walk(node.ast if node.kind != 'iter' else node.ast.target)):
                            rb = rb | {node.id}
            after_def = g.reachable_from(d)
            danger = set()
            for r_ in rb:
                if r_ in after_def:
                    # everything that executes after the rebinding node (the node itself only if it lies on a cycle)
                    for dst, lab in g.nodes[r_].succ:
                        danger |= g.reachable_from(dst)
            subst[name] = (val, danger, g)
        if not subst:
            continue

        class T(ast.NodeTransformer):
            def __init__(self):
                self.cur = None

            def visit_Name(self, n):
                if isinstance(n.ctx, ast.Load) and n.id in subst:
                    val, danger, g_ = subst[n.id]
                    nodes = g_.nodes_for_ast(n)
                    if nodes and all(x.id not in danger for x in nodes):
                        return ast.copy_location(copy.deepcopy(val), n)
                return n
        f.node.body = [T().visit(st) for st in f.node.body]
        P._cfgs.pop(f.qualname, None)


Expander.propagate_aliases = _propagate_aliases


class _PseudoFunc(object):
    """resolution context for calls inside an inlined helper body: the helper's class/module, the caller's self name"""

    def __init__(self, target, caller):
        self.module = target.module
        self.cls = target.cls
        self.parent = None
        self.node = target.node
        self.params = target.params
        self.qualname = target.qualname
        self._self = caller.self_name if target.cls is not None else None
        self.self_override = self._self

    @property
    def self_name(self):
        return self._self

    @property
    def owner_cls(self):
        return self.cls


def expanded_program(repo, policy='new'):
    from .pyir import Program
    P = Program(repo)
    Expander(P, policy).run()
    P.view = 'inlined'
    # summaries computed lazily from the rewritten trees
    return P


# make ast.unparse (used in messages and when debugging) print the two synthetic statements
def _visit_InlineBlock(self, node):
    self.fill('# <inlined %s>' % getattr(node, 'helper', '?'))
    for st in node.body:
        self.traverse(st)
    self.fill('# </inlined>')


def _visit_InlineReturn(self, node):
    self.fill('pass  # end of inlined helper')


try:
    ast._Unparser.visit_InlineBlock = _visit_InlineBlock
    ast._Unparser.visit_InlineReturn = _visit_InlineReturn
except AttributeError:       # pragma: no cover
    pass
