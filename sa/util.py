"""Shared AST / CFG helpers for the rule modules."""
import ast
from .pyir import AnalysisError, unparse
from . import cfg as cfgmod
from . import facts as factsmod
from . import oracle
from .roles import dict_type, dict_keys, dict_get, handler_regions


def parse_expr(src):
    return ast.parse(src, mode='eval').body


def explorer(ctx, func):
    cache = ctx.P.__dict__.setdefault('_explorers', {})
    ex = cache.get(func.qualname)
    if ex is None:
        ex = factsmod.Explorer(ctx.P, func)
        cache[func.qualname] = ex
    return ex


def full_run(ctx, func):
    """exploration of the whole function from its entry (cached)"""
    cache = ctx.P.__dict__.setdefault('_full_runs', {})
    r = cache.get(func.qualname)
    if r is None:
        r = explorer(ctx, func).run()
        cache[func.qualname] = r
    ctx.tick(0)
    return r


def stmt_nodes(cfg, pred):
    return [n for n in cfg.nodes if n.ast is not None and pred(n)]


def node_containing(cfg, astnode):
    """the CFG node (stmt/cond/iter/with) whose own expression contains astnode"""
    ns = cfg.nodes_for_ast(astnode)
    if not ns:
        return None
    # prefer the innermost: smallest ast
    return ns[0]


def nodes_containing(cfg, astnode):
    return cfg.nodes_for_ast(astnode)


def is_self_attr(P, func, node, attr):
    return P.self_attr(node, func.self_name) == attr


def assigns_to_attr(P, func, attr):
    """[(stmt ast, kind)] assignments to self.attr in func"""
    out = []
    sn = func.self_name
    for n in ast.walk(func.node):
        if isinstance(n, ast.Assign):
            for t in n.targets:
                if P.self_attr(t, sn) == attr:
                    out.append((n, 'assign'))
        elif isinstance(n, ast.AugAssign):
            if P.self_attr(n.target, sn) == attr:
                out.append((n, 'aug'))
    return out


def local_dict_for(func, name, before):
    """dict literal most recently assigned to local `name` before the node `before` (source order)"""
    best = None
    lim = ordr(func, before)
    for n in ast.walk(func.node):
        if isinstance(n, ast.Assign) and len(n.targets) == 1 and isinstance(n.targets[0], ast.Name) \
                and n.targets[0].id == name and isinstance(n.value, ast.Dict) and ordr(func, n) <= lim:
            if best is None or ordr(func, n) > ordr(func, best):
                best = n
    return best.value if best is not None else None


def send_sites(ctx, func):
    """[(call, dict literal, wire type, target expr)] for transport.send(node, {...}) in func"""
    P, R = ctx.P, ctx.R
    out = []
    for c in P.calls_in(func, include_nested=True):
        if isinstance(c.func, ast.Attribute) and c.func.attr == 'send' and P.self_attr(c.func.value, func.self_name) == R.transport \
                and len(c.args) >= 2:
            m = c.args[1]
            d = None
            if isinstance(m, ast.Dict):
                d = m
            elif isinstance(m, ast.Name):
                d = local_dict_for(func, m.id, c)
                if d is not None and any(isinstance(t_, (ast.Tuple, ast.List)) and any(isinstance(x, ast.Subscript) and isinstance(x.value, ast.Name) and x.value.id == m.id for x in t_.elts)
                                         for a_ in ast.walk(func.node) if isinstance(a_, ast.Assign) for t_ in a_.targets):
                    # keys stored through an unpacking (`d['a'], d['b'] = pair`): not a form the message-shape rules read
                    raise AnalysisError('%s: keys of the message sent by `%s` are stored through a tuple unpacking into `%s`; the wire-schema rules read message shapes from '
                                        'dict literals and single key stores only' % (func.qualname, unparse(c)[:50], m.id))
            if d is not None:
                out.append((c, d, dict_type(d), c.args[0]))
            else:
                out.append((c, None, None, c.args[0]))
    return out


def all_send_sites(ctx):
    out = []
    for f in ctx.P.methods_of(ctx.R.S):
        for s in send_sites(ctx, f):
            out.append((f,) + s)
    return out


def regions(ctx):
    """handler regions: wire type -> [(cond node id, entry node id)]"""
    cfg = explorer(ctx, ctx.R.handler).cfg
    return handler_regions(ctx.P, ctx.R, cfg)


def region_run(ctx, wire_type, avoid=(), follow_exc=True):
    """exploration of the handler started at the true edge of `message['type'] == wire_type`"""
    ex = explorer(ctx, ctx.R.handler)
    regs = regions(ctx).get(wire_type)
    if not regs:
        raise AnalysisError('handler region for wire type %r is gone' % wire_type)
    cond_id, entry = regs[0]
    lit = ex.edge_literal(ex.cfg.nodes[cond_id], True)
    # facts established before the type test on the way to it are dropped (sound: fewer facts)
    init = set([lit]) if lit is not None else set()
    # whatever form the test has (`message['type'] == K`, or a local the type was hoisted into), inside the region the type is K
    from .facts import const_term
    init.add(('eq', ex.tb.term(parse_expr("%s['type']" % ctx.R.handler_msg_param)), const_term(wire_type)))
    init = frozenset(init)
    res = ex.run(start=entry, init=init, avoid=avoid, follow_exc=follow_exc)
    return ex, res, entry


def goal(ex, src):
    return ex.tb.formula(parse_expr(src))


def must(ctx, res, node_id, g):
    ctx.tick()
    return res.must(node_id, g)


def facts_str(fs, limit=12):
    items = sorted(oracle.lit_str(l) for l in fs)
    if len(items) > limit:
        items = items[:limit] + ['... (%d more)' % (len(items) - limit)]
    return '; '.join(items)


def straight_line_block(cfg, node_id):
    """node ids in the same straight-line segment (single normal pred / single normal succ chains)"""
    def normal(edges):
        return [(d, l) for d, l in edges if not (isinstance(l, tuple) and l[0] == 'exc')]
    out = [node_id]
    cur = node_id
    while True:
        preds = normal(cfg.nodes[cur].pred)
        if len(preds) != 1:
            break
        p = preds[0][0]
        if len(normal(cfg.nodes[p].succ)) != 1 or cfg.nodes[p].kind not in ('stmt',):
            break
        out.append(p)
        cur = p
    cur = node_id
    while True:
        succs = normal(cfg.nodes[cur].succ)
        if len(succs) != 1:
            break
        s = succs[0][0]
        if len(normal(cfg.nodes[s].pred)) != 1 or cfg.nodes[s].kind not in ('stmt',):
            break
        out.append(s)
        cur = s
    return out


def calls_method(P, func, call, target_names):
    r = P.resolve_call(func, call)
    return r.kind == 'method' and any(t.name in target_names for t in r.targets)


def eval_arith(e, env):
    """evaluate a small arithmetic/boolean expression tree; env maps unparse(subexpr) -> value.
    The expression is data extracted from the source; nothing of the repository is executed."""
    key = unparse(e)
    if key in env:
        return env[key]
    if isinstance(e, ast.Constant):
        return e.value
    if isinstance(e, ast.BinOp):
        l = eval_arith(e.left, env)
        r = eval_arith(e.right, env)
        op = e.op
        if isinstance(op, ast.Add):
            return l + r
        if isinstance(op, ast.Sub):
            return l - r
        if isinstance(op, ast.Mult):
            return l * r
        if isinstance(op, ast.Div):
            return l / r
        if isinstance(op, ast.FloorDiv):
            return l // r
        if isinstance(op, ast.Mod):
            return l % r
        raise AnalysisError('operator %s not in the small-domain evaluator' % type(op).__name__)
    if isinstance(e, ast.UnaryOp):
        v = eval_arith(e.operand, env)
        if isinstance(e.op, ast.USub):
            return -v
        if isinstance(e.op, ast.Not):
            return not v
        raise AnalysisError('unary operator not in the small-domain evaluator')
    if isinstance(e, ast.Compare):
        l = eval_arith(e.left, env)
        res = True
        for op, rn in zip(e.ops, e.comparators):
            r = eval_arith(rn, env)
            if isinstance(op, ast.Lt):
                ok = l < r
            elif isinstance(op, ast.LtE):
                ok = l <= r
            elif isinstance(op, ast.Gt):
                ok = l > r
            elif isinstance(op, ast.GtE):
                ok = l >= r
            elif isinstance(op, ast.Eq):
                ok = l == r
            elif isinstance(op, ast.NotEq):
                ok = l != r
            else:
                raise AnalysisError('comparison operator not in the small-domain evaluator')
            res = res and ok
            l = r
        return res
    if isinstance(e, ast.BoolOp):
        vals = [eval_arith(v, env) for v in e.values]
        return all(vals) if isinstance(e.op, ast.And) else any(vals)
    if isinstance(e, ast.Call) and isinstance(e.func, ast.Name) and e.func.id in ('int', 'float', 'min', 'max', 'abs'):
        args = [eval_arith(a, env) for a in e.args]
        return {'int': int, 'float': float, 'min': min, 'max': max, 'abs': abs}[e.func.id](*args)
    raise AnalysisError('expression `%s` is outside the small-domain evaluator' % key)


def enclosing(node, kinds):
    """enclosing compound statements (from CFG node.parents) of the given ast kinds, innermost last"""
    return [p for p in node.parents if isinstance(p, kinds)]


def walk_no_nested(n):
    """ast.walk that does not enter nested function definitions / lambdas"""
    todo = [n]
    while todo:
        x = todo.pop()
        yield x
        for c in ast.iter_child_nodes(x):
            if isinstance(c, (ast.FunctionDef, ast.Lambda)):
                continue
            todo.append(c)


def increment_amount(P, func, st, attr):
    """n if statement st is `self.attr += n` or `self.attr = self.attr + n` (n a positive int constant), else None"""
    if isinstance(st, ast.AugAssign) and isinstance(st.op, ast.Add) and isinstance(st.value, ast.Constant) and isinstance(st.value.value, int) \
            and P.self_attr(st.target, func.self_name) == attr:
        return st.value.value if st.value.value >= 1 else None
    if isinstance(st, ast.Assign) and len(st.targets) == 1 and P.self_attr(st.targets[0], func.self_name) == attr and isinstance(st.value, ast.BinOp) \
            and isinstance(st.value.op, ast.Add):
        l, r = st.value.left, st.value.right
        for a, b in ((l, r), (r, l)):
            if P.self_attr(a, func.self_name) == attr and isinstance(b, ast.Constant) and isinstance(b.value, int) and b.value >= 1:
                return b.value
    return None


def increments_of(P, func, attr):
    return [st for st, k in assigns_to_attr(P, func, attr) if increment_amount(P, func, st, attr) is not None]


def is_clock_call(n):
    """monotonicTime() / time.monotonic() / time.time(): a call that reads the clock"""
    if not isinstance(n, ast.Call) or n.args or n.keywords:
        return False
    name = unparse(n.func)
    last = name.split('.')[-1]
    from .pyir import CLOCK_ALIASES
    return 'onotonic' in last or name in ('time.time', 'time') or last in ('time',) or name in CLOCK_ALIASES


# ----------------------------------------------------------------------------- hoisted locals
_PURE_FUNCS = ('len', 'int', 'min', 'max', 'abs', 'float', 'bool')


def _is_pure_partial(v):
    return isinstance(v, ast.Call) and unparse(v.func) in ('functools.partial', 'partial') and v.args \
        and unparse(v.args[0]) in ('struct.pack', 'struct.unpack', 'struct.calcsize')


def single_defs(P, func):
    """locals of `func` bound by exactly one statement `name = <expr>` whose right-hand side only reads
    (attribute/subscript reads, arithmetic, len/min/max/int, pure getters of the class): name -> rhs node.
    Rules use it to look through a value that a refactoring hoisted into a local; the hoisted expression is
    evaluated where it is defined, so only read-only right-hand sides qualify."""
    cache = P.__dict__.setdefault('_single_defs', {})
    if func.qualname in cache:
        return cache[func.qualname]
    stores = {}
    for n in walk_no_nested(func.node):
        if isinstance(n, ast.Name) and isinstance(n.ctx, (ast.Store, ast.Del)):
            stores[n.id] = stores.get(n.id, 0) + 1
        elif isinstance(n, ast.ExceptHandler) and n.name:
            stores[n.name] = stores.get(n.name, 0) + 2
    for p in func.params:
        stores[p] = stores.get(p, 0) + 1
    out = {}
    for n in walk_no_nested(func.node):
        tgt = val = None
        if isinstance(n, ast.Assign) and len(n.targets) == 1 and isinstance(n.targets[0], ast.Name):
            tgt, val = n.targets[0].id, n.value
        elif isinstance(n, ast.AnnAssign) and isinstance(n.target, ast.Name) and n.value is not None:
            tgt, val = n.target.id, n.value
        if tgt is None or stores.get(tgt) != 1:
            continue
        ok = True
        for c in ast.walk(val):
            if isinstance(c, ast.Call):
                if is_clock_call(c):
                    ok = False          # a clock read is not the same value at a later use
                    break
                if isinstance(c.func, ast.Name) and (c.func.id in _PURE_FUNCS or c.func.id in ('reversed', 'sorted', 'list', 'tuple', 'set', 'frozenset', 'enumerate', 'zip', 'range', 'xrange', 'str', 'dict')):
                    continue
                r = P.resolve_call(func, c)
                if r.kind == 'method' and r.targets and all(P.is_pure_getter(t) for t in r.targets):
                    continue
                if r.kind == 'function' and r.targets and all(t.cls is None and not P.writes(t) for t in r.targets):
                    continue        # module-level conversion helper (to_bytes): writes no object state
                if isinstance(c.func, ast.Name) and _is_pure_partial(func.module.consts.get(c.func.id)):
                    continue        # NAME = functools.partial(struct.pack, 'B')
                ok = False
                break
            if isinstance(c, (ast.Lambda, ast.ListComp, ast.SetComp, ast.DictComp, ast.GeneratorExp, ast.IfExp, ast.Yield, ast.Await, ast.NamedExpr)):
                ok = False
                break
        if ok:
            out[tgt] = val
    cache[func.qualname] = out
    return out


def deref(P, func, expr, depth=3):
    """copy of `expr` with single-definition read-only locals replaced by their defining expressions"""
    import copy
    defs = single_defs(P, func)
    if not defs or depth <= 0:
        return expr

    class T(ast.NodeTransformer):
        def __init__(self):
            self.changed = False

        def visit_Name(self, n):
            if isinstance(n.ctx, ast.Load) and n.id in defs:
                self.changed = True
                return ast.copy_location(copy.deepcopy(defs[n.id]), n)
            return n
    cur = expr
    for _ in range(depth):
        t = T()
        new = t.visit(copy.deepcopy(cur))
        if not t.changed:
            break
        cur = new
    return cur


def deref1(P, func, expr):
    """the defining expression if `expr` is a single-definition read-only local, else `expr` itself (one level)"""
    if isinstance(expr, ast.Name):
        d = single_defs(P, func).get(expr.id)
        if d is not None:
            return d
    return expr


def single_assign_value(func, name):
    """the right-hand side if local `name` is bound by exactly one plain assignment in `func` (no purity requirement:
    for a flag such as `timedOut = now() > deadline` that is branched on right away), else None"""
    vals = []
    n_store = 0
    for n in walk_no_nested(func.node):
        if isinstance(n, ast.Name) and n.id == name and isinstance(n.ctx, (ast.Store, ast.Del)):
            n_store += 1
        if isinstance(n, ast.Assign) and len(n.targets) == 1 and isinstance(n.targets[0], ast.Name) and n.targets[0].id == name:
            vals.append(n.value)
    if n_store == 1 and len(vals) == 1 and name not in func.params:
        return vals[0]
    return None


def loop_sources(func):
    """local name -> [expressions it ranges over], for the targets of `for` loops, looking through enumerate / zip /
    reversed / sorted / list / iter and tuple targets: `for i, (a, b) in enumerate(zip(X, Y))` gives a -> X, b -> Y"""
    out = {}

    def bind(target, src):
        if isinstance(src, ast.Call) and isinstance(src.func, ast.Name):
            fn = src.func.id
            if fn in ('range', 'xrange'):
                return          # an index, not an element of a collection
            if fn in ('reversed', 'sorted', 'list', 'iter', 'tuple') and src.args:
                return bind(target, src.args[0])
            if fn == 'enumerate' and src.args and isinstance(target, (ast.Tuple, ast.List)) and len(target.elts) == 2:
                return bind(target.elts[1], src.args[0])
            if fn in ('zip', 'izip') and isinstance(target, (ast.Tuple, ast.List)) and len(target.elts) == len(src.args):
                for t_, a_ in zip(target.elts, src.args):
                    bind(t_, a_)
                return
        if isinstance(target, ast.Name):
            out.setdefault(target.id, []).append(src)
        elif isinstance(target, (ast.Tuple, ast.List)):
            for t_ in target.elts:
                bind(t_, src)
    for n in walk_no_nested(func.node):
        if isinstance(n, ast.For):
            bind(n.target, n.iter)
    return out


def ordr(func, node):
    """position of `node` in the source order of func's body (depth-first, fields in syntactic order).  Line numbers do
    not order statements in the helper-inlined view (an inlined body keeps the line numbers of the helper it came
    from), this does in both views.  Nodes that are not part of the function tree (synthesised ones) are placed by the
    last real node that does not lie after their line."""
    m = func.__dict__.get('_ord')
    if m is None:
        m = {}
        cnt = [0]

        def walk(n):
            m[id(n)] = cnt[0]
            cnt[0] += 1
            for c in ast.iter_child_nodes(n):
                walk(c)
        walk(func.node)
        func.__dict__['_ord'] = m
        func.__dict__['_ord_lines'] = None
    if id(node) in m:
        return m[id(node)]
    ln = getattr(node, 'lineno', None)
    if ln is None:
        return 0
    best = 0
    for n in ast.walk(func.node):
        if getattr(n, 'lineno', None) is not None and n.lineno <= ln and m.get(id(n), 0) > best:
            best = m[id(n)]
    return best


def decision_nodes(cfg, func, test):
    """the CFG decision nodes that branch on the expression `test`: the cond node(s) holding it, or -- when the test was
    computed into a boolean local first (`ok = count > n` ... `if ok:` / `if not ok:`) -- the cond nodes on that local;
    their ('cond', True) edge is the test being true in both cases"""
    direct = [n for n in nodes_containing(cfg, test) if n.kind == 'cond']
    if direct:
        return direct
    for n in nodes_containing(cfg, test):
        st = n.ast
        if n.kind == 'stmt' and isinstance(st, ast.Assign) and len(st.targets) == 1 and isinstance(st.targets[0], ast.Name) and st.value is test:
            name = st.targets[0].id
            defs = [d for d in walk_no_nested(func.node) if isinstance(d, ast.Assign) and any(isinstance(t, ast.Name) and t.id == name for t in d.targets)]
            if len(defs) != 1:
                continue
            return [c for c in cfg.nodes if c.kind == 'cond' and isinstance(c.ast, ast.Name) and c.ast.id == name]
    return []


def handler_returns(cfg, ref):
    """ids of the nodes at which the code around CFG node `ref` is left by a return: real `return` statements and, in the
    helper-inlined view, the returns of the inlined helper body `ref` itself lives in (returns of helpers nested deeper
    only leave that helper)"""
    from .inline import InlineBlock, InlineReturn
    chain = [id(p) for p in ref.parents if isinstance(p, InlineBlock)]
    out = []
    for n in cfg.nodes:
        if n.kind != 'stmt':
            continue
        if isinstance(n.ast, ast.Return):
            out.append(n.id)
        elif isinstance(n.ast, InlineReturn):
            mine = [id(p) for p in n.parents if isinstance(p, InlineBlock)]
            if mine and mine[-1] in chain:
                out.append(n.id)
    return out


def bool_returns_normalised(P, func):
    """func, or -- when it returns boolean expressions -- a private copy in which every `return <test>` (a comparison,
    and/or, not) reads `if <test>: return True` / `return False`: the rules that ask "under which facts is True
    returned" then see the test as a branch.  Truthiness of the returned value is unchanged."""
    import copy
    from .pyir import FuncInfo

    class T(ast.NodeTransformer):
        changed = False

        def visit_FunctionDef(self, n):
            if n is not self.root:
                return n
            self.generic_visit(n)
            return n

        def visit_Lambda(self, n):
            return n

        def visit_Return(self, n):
            if isinstance(n.value, (ast.BoolOp, ast.Compare)) or (isinstance(n.value, ast.UnaryOp) and isinstance(n.value.op, ast.Not)):
                self.changed = True
                t = ast.Return(value=ast.Constant(value=True))
                f_ = ast.Return(value=ast.Constant(value=False))
                new = ast.If(test=n.value, body=[t], orelse=[f_])
                for x in (t, f_, new, t.value, f_.value):
                    ast.copy_location(x, n)
                return new
            return n
    cache = P.__dict__.setdefault('_bool_norm', {})
    if func.qualname in cache:
        return cache[func.qualname]
    node2 = copy.deepcopy(func.node)
    tr = T()
    tr.root = node2
    tr.visit(node2)
    if not tr.changed:
        cache[func.qualname] = func
        return func
    node2.name = func.node.name + '__boolret'
    ast.fix_missing_locations(node2)
    f2 = FuncInfo(func.module, func.cls, node2, func.parent)
    cache[func.qualname] = f2
    return f2
