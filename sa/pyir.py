"""Front end: parse the package, build the class/function tables, attribute
access model, call resolution and effect summaries (DESIGN 2.1)."""
import ast
import os

PKG = 'pysyncobj'
VENDORED = {'win_inet_pton', 'monotonic'}          # parsed, carry no rules

MUTATORS = {'add', 'append', 'appendleft', 'pop', 'popleft', 'clear', 'discard', 'remove', 'update',
            'extend', 'insert', 'sort', 'reverse', 'setdefault', 'popitem', 'write', 'close'}
PURE_METHODS = {'get', 'copy', 'keys', 'values', 'items', 'intersection', 'union', 'difference',
                'index', 'count', 'is_set', 'is_alive', 'startswith', 'endswith', 'rsplit', 'split',
                'join', 'format', 'encode', 'decode', 'upper', 'lower', 'issubset', 'issuperset',
                'fileno', 'size', 'read', 'getvalue'}
PURE_BUILTINS = {'len', 'min', 'max', 'sorted', 'list', 'set', 'dict', 'tuple', 'int', 'float', 'str',
                 'bool', 'isinstance', 'getattr', 'hasattr', 'callable', 'reversed', 'enumerate',
                 'range', 'xrange', 'ord', 'chr', 'abs', 'sum', 'any', 'all', 'bytes', 'id', 'type',
                 'iteritems', 'zip', 'map', 'filter', 'repr', 'frozenset', 'dir', 'vars'}


CLOCK_ALIASES = {'monotonicTime'}       # local names under which a clock function is imported (filled while indexing)


class AnalysisError(Exception):
    """An anchor/role vanished, a file does not parse, or the code uses a construct the
    analyser does not interpret.  Mapped to exit status 2, never to a violation."""


class ModuleInfo(object):
    def __init__(self, name, path, src):
        self.name = name
        self.path = path
        self.src = src
        self.lines = src.splitlines()
        try:
            self.tree = ast.parse(src, filename=path)
        except SyntaxError as e:
            raise AnalysisError('cannot parse %s: %s' % (path, e))
        self.functions = {}
        self.classes = {}
        self.imports = {}      # local name -> (module, original name) for package-internal imports
        self.consts = {}       # module level NAME = <constant expr node>


class ClassInfo(object):
    def __init__(self, module, node):
        self.module = module
        self.node = node
        self.name = node.name
        self.bases = []
        for b in node.bases:
            if isinstance(b, ast.Name):
                self.bases.append(b.id)
            elif isinstance(b, ast.Attribute):
                self.bases.append(b.attr)
        self.methods = {}
        self.consts = {}       # class level NAME = Constant (value)
        self.properties = set()

    def __repr__(self):
        return '<class %s.%s>' % (self.module.name, self.name)


class FuncInfo(object):
    def __init__(self, module, cls, node, parent=None):
        self.module = module
        self.cls = cls
        self.node = node
        self.parent = parent
        self.name = node.name
        self.nested = {}
        if parent is not None:
            self.qualname = parent.qualname + '.' + node.name
        elif cls is not None:
            self.qualname = cls.name + '.' + node.name
        else:
            self.qualname = module.name + ':' + node.name
        a = node.args
        self.params = [x.arg for x in getattr(a, 'posonlyargs', [])] + [x.arg for x in a.args]
        self.decorators = [d for d in node.decorator_list]

    @property
    def self_name(self):
        f = self
        while f.parent is not None:
            f = f.parent
        if f.cls is not None and f.params:
            return f.params[0]
        return None

    @property
    def owner_cls(self):
        f = self
        while f.parent is not None:
            f = f.parent
        return f.cls

    def loc(self, node=None):
        n = node if node is not None else self.node
        return '%s:%d' % (self.module.path_rel, getattr(n, 'lineno', 0))

    def __repr__(self):
        return '<func %s>' % self.qualname


class Access(object):
    __slots__ = ('attr', 'kind', 'node', 'func', 'detail')

    def __init__(self, attr, kind, node, func, detail=None):
        self.attr = attr
        self.kind = kind        # read | write | aug | del | elem_write | elem_del | mutcall | call | wildcard
        self.node = node
        self.func = func
        self.detail = detail

    def __repr__(self):
        return 'Access(%s,%s,%s:%s)' % (self.attr, self.kind, self.func.qualname, getattr(self.node, 'lineno', '?'))


class Resolution(object):
    __slots__ = ('kind', 'targets', 'name')

    def __init__(self, kind, targets=(), name=None):
        self.kind = kind          # method | field | function | class | builtin | foreign | external | unresolved
        self.targets = list(targets)
        self.name = name


class Program(object):
    def __init__(self, repo):
        self.repo = repo
        self.pkgdir = os.path.join(repo, PKG)
        if not os.path.isdir(self.pkgdir):
            raise AnalysisError('package directory %s not found' % self.pkgdir)
        self.modules = {}
        for fn in sorted(os.listdir(self.pkgdir)):
            if not fn.endswith('.py'):
                continue
            path = os.path.join(self.pkgdir, fn)
            with open(path, 'r', encoding='utf-8') as f:
                src = f.read()
            m = ModuleInfo(fn[:-3], path, src)
            m.path_rel = PKG + '/' + fn
            self.modules[m.name] = m
        self.classes = {}
        self.functions = {}
        for m in self.modules.values():
            self._index_module(m)
        self._field_types = {}
        self._writes = {}
        self._reads = {}
        self._pure = {}
        self._cfgs = {}
        self.stats = {'calls_resolved': 0, 'calls_foreign': 0, 'calls_external': 0, 'calls_unresolved': 0}

    # ------------------------------------------------------------------ indexing
    def _index_module(self, m):
        self._index_body(m, m.tree.body)

    def _index_body(self, m, body):
        for st in body:
            if isinstance(st, (ast.Import, ast.ImportFrom)):
                self._index_import(m, st)
            elif isinstance(st, ast.FunctionDef):
                fi = FuncInfo(m, None, st)
                m.functions.setdefault(st.name, fi)
                self.functions[fi.qualname] = fi
                self._index_nested(fi)
            elif isinstance(st, ast.ClassDef):
                ci = ClassInfo(m, st)
                m.classes[st.name] = ci
                if st.name in self.classes:
                    # keep the first, record ambiguity
                    self.classes[st.name + '@' + m.name] = ci
                else:
                    self.classes[st.name] = ci
                for cst in st.body:
                    if isinstance(cst, ast.FunctionDef):
                        fi = FuncInfo(m, ci, cst)
                        # property setter etc: keep first definition under the plain name
                        if cst.name in ci.methods:
                            continue
                        ci.methods[cst.name] = fi
                        self.functions[fi.qualname] = fi
                        for d in cst.decorator_list:
                            if isinstance(d, ast.Name) and d.id == 'property':
                                ci.properties.add(cst.name)
                        self._index_nested(fi)
                    elif isinstance(cst, ast.Assign) and len(cst.targets) == 1 and isinstance(cst.targets[0], ast.Name):
                        v = cst.value
                        if isinstance(v, ast.Tuple) and len(v.elts) == 1:
                            v = v.elts[0]          # SERVER_STATE.UNBINDED = 0,
                        if isinstance(v, ast.Constant):
                            ci.consts[cst.targets[0].id] = v.value
            elif isinstance(st, ast.Assign) and len(st.targets) == 1 and isinstance(st.targets[0], ast.Name):
                m.consts[st.targets[0].id] = st.value
            elif isinstance(st, (ast.If, ast.Try)):
                # module level `try: import X / except ImportError:` and `if is_py3:` blocks
                for sub in ast.iter_child_nodes(st):
                    pass
                bodies = []
                if isinstance(st, ast.If):
                    bodies = [st.body, st.orelse]
                else:
                    bodies = [st.body, st.orelse, st.finalbody] + [h.body for h in st.handlers]
                for b in bodies:
                    self._index_body(m, b)

    def _index_import(self, m, st):
        if isinstance(st, ast.ImportFrom):
            mod = st.module or ''
            for a in st.names:
                if a.name in ('monotonic', 'time', 'perf_counter'):
                    CLOCK_ALIASES.add(a.asname or a.name)
            if st.level >= 1 or mod.startswith(PKG):
                modname = mod.split('.')[-1] if mod else ''
                for a in st.names:
                    m.imports[a.asname or a.name] = (modname, a.name)
        else:
            for a in st.names:
                if a.name.startswith(PKG + '.'):
                    m.imports[a.asname or a.name.split('.')[-1]] = (a.name.split('.')[-1], None)

    def _index_nested(self, fi):
        for st in ast.walk(fi.node):
            pass
        for st in self._direct_nested_defs(fi.node):
            sub = FuncInfo(fi.module, None, st, parent=fi)
            fi.nested[st.name] = sub
            self.functions[sub.qualname] = sub
            self._index_nested(sub)

    @staticmethod
    def _direct_nested_defs(fnode):
        out = []

        def walk(n):
            for c in ast.iter_child_nodes(n):
                if isinstance(c, ast.FunctionDef):
                    out.append(c)
                elif isinstance(c, (ast.Lambda, ast.ClassDef)):
                    continue
                else:
                    walk(c)
        walk(fnode)
        return out

    # ------------------------------------------------------------------ lookup
    def cls(self, name):
        c = self.classes.get(name)
        if c is None:
            raise AnalysisError('class %s not found in package' % name)
        return c

    def has_cls(self, name):
        return name in self.classes

    def func(self, qualname):
        f = self.functions.get(qualname)
        if f is None:
            raise AnalysisError('function %s not found in package' % qualname)
        return f

    def mro(self, ci):
        out = [ci]
        seen = {ci.name}
        i = 0
        while i < len(out):
            for b in out[i].bases:
                if b in self.classes and b not in seen:
                    seen.add(b)
                    out.append(self.classes[b])
            i += 1
        return out

    def lookup_method(self, ci, name):
        for c in self.mro(ci):
            if name in c.methods:
                return c.methods[name]
        return None

    def subclasses(self, ci):
        return [c for c in self.classes.values() if c is not ci and ci in self.mro(c)]

    def all_funcs(self, include_vendored=False):
        for q, f in sorted(self.functions.items()):
            if not include_vendored and f.module.name in VENDORED:
                continue
            yield f

    def methods_of(self, ci):
        return [ci.methods[k] for k in sorted(ci.methods)]

    def const_class_value(self, node, module=None):
        """`_RAFT_STATE.LEADER` -> ('_RAFT_STATE', 'LEADER', 2) if it is a constant class member."""
        if isinstance(node, ast.Attribute) and isinstance(node.value, ast.Name):
            c = self.classes.get(node.value.id)
            if c is not None and node.attr in c.consts:
                return (c.name, node.attr, c.consts[node.attr])
        return None

    # ------------------------------------------------------------------ attribute model
    @staticmethod
    def self_attr(node, selfname):
        """attr name if node is `self.X`"""
        if isinstance(node, ast.Attribute) and isinstance(node.value, ast.Name) and node.value.id == selfname:
            return node.attr
        return None

    def accesses(self, func, include_nested=True):
        """All accesses of attributes of `self` in func."""
        selfname = func.self_name
        out = []
        if selfname is None:
            return out

        def visit(n, store_parent=None):
            # handle statements that define access kind
            if isinstance(n, (ast.FunctionDef, ast.Lambda)) and n is not func.node and not include_nested:
                return
            if isinstance(n, ast.Assign):
                for t in n.targets:
                    visit_target(t, 'write', n)
                visit(n.value)
                return
            if isinstance(n, ast.AugAssign):
                visit_target(n.target, 'aug', n)
                visit(n.value)
                return
            if isinstance(n, ast.AnnAssign):
                if n.value is not None:
                    visit_target(n.target, 'write', n)
                    visit(n.value)
                return
            if isinstance(n, ast.Delete):
                for t in n.targets:
                    visit_target(t, 'del', n)
                return
            if isinstance(n, (ast.For,)):
                visit_target(n.target, 'write', n)
                visit(n.iter)
                for s in n.body + n.orelse:
                    visit(s)
                return
            if isinstance(n, ast.Call):
                f = n.func
                if isinstance(f, ast.Attribute):
                    a = self.self_attr(f.value, selfname)
                    if a is not None:
                        kind = 'mutcall' if f.attr in MUTATORS else 'call'
                        out.append(Access(a, kind, n, func, f.attr))
                        for arg in n.args:
                            visit(arg)
                        for kw in n.keywords:
                            visit(kw.value)
                        return
                    # self.__dict__[k] handled as subscript below
                visit(f)
                for arg in n.args:
                    visit(arg)
                for kw in n.keywords:
                    visit(kw.value)
                return
            a = self.self_attr(n, selfname)
            if a is not None:
                out.append(Access(a, 'read', n, func))
                return
            for c in ast.iter_child_nodes(n):
                visit(c)

        def visit_target(t, kind, stmt):
            if isinstance(t, (ast.Tuple, ast.List)):
                for e in t.elts:
                    visit_target(e, kind, stmt)
                return
            if isinstance(t, ast.Starred):
                visit_target(t.value, kind, stmt)
                return
            a = self.self_attr(t, selfname)
            if a is not None:
                out.append(Access(a, kind, stmt, func))
                return
            if isinstance(t, ast.Subscript):
                a = self.self_attr(t.value, selfname)
                if a is not None:
                    if a == '__dict__':
                        out.append(Access('*', 'wildcard', stmt, func))
                    else:
                        k = 'elem_del' if kind == 'del' else 'elem_write'
                        out.append(Access(a, k, stmt, func))
                    visit(t.slice)
                    return
                visit(t.value)
                visit(t.slice)
                return
            if isinstance(t, ast.Attribute):
                visit(t.value)
                return

        for st in func.node.body:
            visit(st)
        return out

    def class_accesses(self, ci):
        out = []
        for f in self.methods_of(ci):
            out.extend(self.accesses(f))
        return out

    # ------------------------------------------------------------------ field types
    def field_types(self, ci):
        if ci.name in self._field_types:
            return self._field_types[ci.name]
        ft = {}
        self._field_types[ci.name] = ft
        for c in self.mro(ci):
            for f in self.methods_of(c):
                sn = f.self_name
                for n in ast.walk(f.node):
                    if isinstance(n, ast.Assign):
                        for t in n.targets:
                            a = self.self_attr(t, sn)
                            if a is None:
                                continue
                            for tc in self._ctor_classes(n.value, f):
                                ft.setdefault(a, set()).add(tc.name)
        return ft

    def _ctor_classes(self, value, func, depth=0):
        """classes possibly constructed by the expression `value`"""
        out = []
        if isinstance(value, ast.Call) and isinstance(value.func, ast.Name):
            name = value.func.id
            tgt = self._resolve_name(name, func.module)
            if isinstance(tgt, ClassInfo):
                out.append(tgt)
            elif isinstance(tgt, FuncInfo) and depth < 3:
                for n in ast.walk(tgt.node):
                    if isinstance(n, ast.Return) and n.value is not None:
                        out.extend(self._ctor_classes(n.value, tgt, depth + 1))
            elif name in func.params:
                # constructor passed as a parameter (transportClass, nodeClass): use its default
                a = func.node.args
                defaults = dict(zip([x.arg for x in a.args][len(a.args) - len(a.defaults):], a.defaults))
                d = defaults.get(name)
                if isinstance(d, ast.Name):
                    t2 = self._resolve_name(d.id, func.module)
                    if isinstance(t2, ClassInfo):
                        out.append(t2)
        return out

    def _resolve_name(self, name, module):
        if name in module.classes:
            return module.classes[name]
        if name in module.functions:
            return module.functions[name]
        if name in module.imports:
            mod, orig = module.imports[name]
            m2 = self.modules.get(mod)
            if m2 is not None and orig is not None:
                if orig in m2.classes:
                    return m2.classes[orig]
                if orig in m2.functions:
                    return m2.functions[orig]
                if orig in m2.imports:
                    return self._resolve_name(orig, m2)
        return None

    # ------------------------------------------------------------------ call resolution
    def resolve_call(self, func, call):
        f = call.func
        sn = func.self_name
        ci = func.owner_cls
        if isinstance(f, ast.Name):
            name = f.id
            # local variable / parameter holding a callable -> foreign
            if name in func.params or self._is_local(func, name):
                # nested def called by name
                if name in func.nested:
                    return Resolution('function', [func.nested[name]], name)
                p = func.parent
                while p is not None:
                    if name in p.nested:
                        return Resolution('function', [p.nested[name]], name)
                    p = p.parent
                return Resolution('foreign', name=name)
            tgt = self._resolve_name(name, func.module)
            if isinstance(tgt, FuncInfo):
                return Resolution('function', [tgt], name)
            if isinstance(tgt, ClassInfo):
                init = self.lookup_method(tgt, '__init__')
                return Resolution('class', [init] if init else [], name)
            p = func
            while p is not None:
                if name in p.nested:
                    return Resolution('function', [p.nested[name]], name)
                p = p.parent
            if name in PURE_BUILTINS or name in ('super', 'open', 'print', 'setattr', 'Exception',
                                                 'ImportError', 'RuntimeError', 'AttributeError',
                                                 'NotImplementedError', 'ValueError', 'KeyError'):
                return Resolution('builtin', name=name)
            return Resolution('external', name=name)
        if isinstance(f, ast.Attribute):
            base = f.value
            # self.m(...)
            if isinstance(base, ast.Name) and base.id == sn and ci is not None:
                m = self.lookup_method(ci, f.attr)
                if m is not None:
                    targets = [m]
                    for sc in self.subclasses(ci):
                        if f.attr in sc.methods:
                            targets.append(sc.methods[f.attr])
                    return Resolution('method', targets, f.attr)
                # attribute holding a callable (self.__onConnected())
                return Resolution('foreign', name='self.' + f.attr)
            # self.field.m(...)
            a = self.self_attr(base, sn) if sn else None
            if a is not None and ci is not None:
                types = self.field_types(ci).get(a, set())
                targets = []
                for tn in sorted(types):
                    tc = self.classes.get(tn)
                    if tc is None:
                        continue
                    m = self.lookup_method(tc, f.attr)
                    if m is not None:
                        targets.append(m)
                    for sc in self.subclasses(tc):
                        if f.attr in sc.methods and sc.methods[f.attr] not in targets:
                            targets.append(sc.methods[f.attr])
                if targets:
                    return Resolution('field', targets, a + '.' + f.attr)
                return Resolution('external', name='self.%s.%s' % (a, f.attr))
            # super(X, self).m(...)
            if isinstance(base, ast.Call) and isinstance(base.func, ast.Name) and base.func.id == 'super' and ci is not None:
                for c in self.mro(ci)[1:]:
                    if f.attr in c.methods:
                        return Resolution('method', [c.methods[f.attr]], f.attr)
                return Resolution('builtin', name='super.' + f.attr)
            # Class.m(self, ...) / module.func
            if isinstance(base, ast.Name):
                tgt = self._resolve_name(base.id, func.module)
                if isinstance(tgt, ClassInfo):
                    m = self.lookup_method(tgt, f.attr)
                    if m is not None:
                        return Resolution('method', [m], f.attr)
                if base.id in func.module.imports and func.module.imports[base.id][1] is None:
                    m2 = self.modules.get(func.module.imports[base.id][0])
                    if m2 is not None and f.attr in m2.functions:
                        return Resolution('function', [m2.functions[f.attr]], f.attr)
                if base.id in func.params or self._is_local(func, base.id):
                    return Resolution('external', name=base.id + '.' + f.attr)
            return Resolution('external', name=_unparse(f))
        # call through a value: self._idToMethod[id](...), functools.partial(...)(...)
        return Resolution('foreign', name=_unparse(f))

    def _is_local(self, func, name):
        for n in ast.walk(func.node):
            if isinstance(n, ast.Name) and n.id == name and isinstance(n.ctx, ast.Store):
                return True
        return False

    def calls_in(self, func, include_nested=False):
        out = []

        def walk(n):
            for c in ast.iter_child_nodes(n):
                if isinstance(c, (ast.FunctionDef, ast.Lambda)) and not include_nested:
                    continue
                if isinstance(c, ast.Call):
                    out.append(c)
                walk(c)
        walk(func.node)
        return out

    # ------------------------------------------------------------------ effect summaries
    def writes(self, func, _stack=None):
        """Symbols 'A:<attr>' of func's own class possibly written, transitively over resolved calls."""
        q = func.qualname
        if q in self._writes:
            return self._writes[q]
        _stack = _stack or set()
        if q in _stack:
            return set()
        _stack = _stack | {q}
        w = set()
        for a in self.accesses(func, include_nested=False):
            if a.kind in ('write', 'aug', 'del', 'elem_write', 'elem_del', 'mutcall'):
                w.add('A:' + a.attr)
            elif a.kind == 'wildcard':
                w.add('A:*')
            elif a.kind == 'call':
                # self.field.m(): object mutated unless every target is write-free
                r = None
                if isinstance(a.node, ast.Call):
                    r = self.resolve_call(func, a.node)
                if r is not None and r.kind == 'field':
                    if any(self.writes(t, _stack) for t in r.targets):
                        w.add('A:' + a.attr)
                elif a.detail not in PURE_METHODS:
                    w.add('A:' + a.attr)
        for c in self.calls_in(func):
            r = self.resolve_call(func, c)
            if r.kind == 'method':
                for t in r.targets:
                    if t.owner_cls is func.owner_cls or (func.owner_cls is not None and t.owner_cls in self.mro(func.owner_cls)) \
                            or (t.owner_cls is not None and func.owner_cls in self.mro(t.owner_cls)):
                        w |= self.writes(t, _stack)
        if len(_stack) == 1:
            self._writes[q] = w
        return w

    def rebinds(self, func, _stack=None):
        """attributes of func's own class that may be *rebound* (self.a = .., self.a += .., del self.a, wildcard), transitively
        over resolved self-calls -- in-place mutation of the object an attribute holds is not a rebinding"""
        q = func.qualname
        cache = self.__dict__.setdefault('_rebinds', {})
        if q in cache:
            return cache[q]
        _stack = _stack or set()
        if q in _stack:
            return set()
        _stack = _stack | {q}
        w = set()
        for a in self.accesses(func, include_nested=False):
            if a.kind in ('write', 'aug', 'del'):
                w.add(a.attr)
            elif a.kind == 'wildcard':
                w.add('*')
        for c in self.calls_in(func):
            r = self.resolve_call(func, c)
            if r.kind == 'method':
                for t in r.targets:
                    if t.owner_cls is func.owner_cls or (func.owner_cls is not None and t.owner_cls in self.mro(func.owner_cls)) \
                            or (t.owner_cls is not None and func.owner_cls in self.mro(t.owner_cls)):
                        w |= self.rebinds(t, _stack)
            elif r.kind in ('foreign', 'unresolved') and isinstance(c.func, ast.Attribute) and self.self_attr(c.func, func.self_name):
                pass        # a callback stored in an attribute: assumed not to rebind attributes of this object (see assumptions)
        if len(_stack) == 1:
            cache[q] = w
        return w

    def reads(self, func, _stack=None):
        q = func.qualname
        if q in self._reads:
            return self._reads[q]
        _stack = _stack or set()
        if q in _stack:
            return set()
        _stack = _stack | {q}
        r = set()
        for a in self.accesses(func, include_nested=False):
            r.add('A:' + a.attr)
        for c in self.calls_in(func):
            res = self.resolve_call(func, c)
            if res.kind == 'method':
                for t in res.targets:
                    r |= self.reads(t, _stack)
        if len(_stack) == 1:
            self._reads[q] = r
        return r

    def is_pure_getter(self, func):
        """single `return <expr>` (after an optional docstring), no writes, only pure calls"""
        q = func.qualname
        if q in self._pure:
            return self._pure[q]
        self._pure[q] = False
        body = [s for s in func.node.body
                if not (isinstance(s, ast.Expr) and isinstance(s.value, ast.Constant) and isinstance(s.value.value, str))]
        ok = len(body) == 1 and isinstance(body[0], ast.Return) and body[0].value is not None
        if ok:
            for c in self.calls_in(func):
                res = self.resolve_call(func, c)
                if res.kind == 'builtin':
                    continue
                if res.kind == 'method' and all(self.is_pure_getter(t) for t in res.targets):
                    continue
                if isinstance(c.func, ast.Attribute) and c.func.attr in PURE_METHODS:
                    continue
                ok = False
                break
        self._pure[q] = ok
        return ok

    def wildcard_immune(self, ci):
        """attributes a `self.__dict__[k] = v` restore cannot touch: those created in __init__ before the loop that records
        the infrastructure attribute names (they are excluded from every dump, so never restored)"""
        key = ci.name if ci is not None else None
        cache = self.__dict__.setdefault('_immune', {})
        if key in cache:
            return cache[key]
        out = set()
        init = ci.methods.get('__init__') if ci is not None else None
        if init is not None:
            snap = None
            for n in ast.walk(init.node):
                if isinstance(n, ast.For) and isinstance(n.iter, ast.Attribute) and n.iter.attr == '__dict__':
                    snap = n
            if snap is not None:
                for acc in self.accesses(init, include_nested=False):
                    if acc.kind in ('write', 'aug') and getattr(acc.node, 'lineno', 10 ** 9) < snap.lineno:
                        out.add('A:' + acc.attr)
        cache[key] = out
        return out

    def inert_attrs(self, ci):
        """attributes of class ci that only observe (statistics, counters): every read of the attribute in the class is
        either inside the statement that updates the attribute itself (`self.a += e`, `self.a = self.a + e`,
        `self.a[k] = self.a.get(k, 0) + 1`), an argument of a logging call, or in a reporting method - a method without
        writes that nothing in the package refers to by name (a public getter).  No decision of the class can depend on
        such an attribute."""
        cache = self.__dict__.setdefault('_inert', {})
        if ci.name in cache:
            return cache[ci.name]
        referenced = set()
        referenced_strings = set()
        for m in self.modules.values():
            for n in ast.walk(m.tree):
                if isinstance(n, ast.Attribute):
                    referenced.add(n.attr)
                elif isinstance(n, ast.Constant) and isinstance(n.value, str):
                    referenced.add(n.value)
                    referenced_strings.add(n.value)
        reads, written = {}, set()
        for f in self.methods_of(ci):
            sn = f.self_name
            if sn is None:
                continue
            reporting = f.node.name not in referenced and not f.node.name.startswith('__') or False
            if reporting:
                for n in ast.walk(f.node):
                    if isinstance(n, (ast.Assign, ast.AugAssign, ast.Delete)):
                        for t in (n.targets if isinstance(n, (ast.Assign, ast.Delete)) else [n.target]):
                            if any(self.self_attr(x, sn) for x in ast.walk(t)):
                                reporting = False
            exempt = set()
            for n in ast.walk(f.node):
                if isinstance(n, (ast.Assign, ast.AugAssign)):
                    ts = n.targets if isinstance(n, ast.Assign) else [n.target]
                    if len(ts) == 1:
                        t = ts[0]
                        base = t.value if isinstance(t, ast.Subscript) else t
                        a = self.self_attr(base, sn)
                        if a:
                            written.add(a)
                            for x in ast.walk(n):
                                if self.self_attr(x, sn) == a:
                                    exempt.add(id(x))
                elif isinstance(n, ast.Call) and isinstance(n.func, ast.Attribute) and isinstance(n.func.value, ast.Name) and n.func.value.id in ('logger', 'logging'):
                    for x in ast.walk(n):
                        exempt.add(id(x))
            if reporting:
                for n in ast.walk(f.node):
                    exempt.add(id(n))
            all_exempt = self.__dict__.setdefault('_inert_exempt', set())
            all_exempt |= exempt
        all_exempt = self.__dict__.setdefault('_inert_exempt', set())
        for m in self.modules.values():
            for n in ast.walk(m.tree):
                if isinstance(n, ast.Attribute) and isinstance(n.ctx, ast.Load) and id(n) not in all_exempt:
                    reads.setdefault(n.attr, []).append(m)
        out = set(a for a in written if a not in reads and not any(a.lstrip('_') and a.lstrip('_') in t for t in referenced_strings))
        cache[ci.name] = out
        return out

    def callers_of(self, target):
        """[(func, call node)] for all resolved call sites of target in the package"""
        out = []
        for f in self.all_funcs():
            for c in self.calls_in(f, include_nested=False):
                r = self.resolve_call(f, c)
                if target in r.targets:
                    out.append((f, c))
        return out

    def count_calls(self):
        st = {'resolved': 0, 'foreign': 0, 'external': 0, 'builtin': 0}
        for f in self.all_funcs():
            for c in self.calls_in(f):
                r = self.resolve_call(f, c)
                if r.kind in ('method', 'field', 'function', 'class'):
                    st['resolved'] += 1
                elif r.kind == 'foreign':
                    st['foreign'] += 1
                elif r.kind == 'builtin':
                    st['builtin'] += 1
                else:
                    st['external'] += 1
        return st

    def reachable_funcs(self, roots, follow_field=True):
        """functions reachable from roots over resolved calls"""
        seen = []
        seen_set = set()
        work = list(roots)
        while work:
            f = work.pop()
            if f.qualname in seen_set:
                continue
            seen_set.add(f.qualname)
            seen.append(f)
            for c in self.calls_in(f, include_nested=True):
                r = self.resolve_call(f, c)
                if r.kind in ('method', 'function', 'class') or (r.kind == 'field' and follow_field):
                    work.extend(r.targets)
        return seen


def _unparse(n):
    try:
        return ast.unparse(n)
    except Exception:
        return '<expr>'


def unparse(n):
    return _unparse(n)
