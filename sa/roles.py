"""Role binding (DESIGN 2.2): the rules never look for a line number or a source
fragment; they ask for roles, and roles are resolved from what a refactoring must
keep -- the public API, the wire protocol and constructor calls."""
import ast
from .pyir import AnalysisError, unparse


def _is_clock(n):
    if not isinstance(n, ast.Call) or n.args or n.keywords:
        return False
    name = unparse(n.func)
    last = name.split('.')[-1]
    from .pyir import CLOCK_ALIASES
    return 'onotonic' in last or last == 'time' or name in CLOCK_ALIASES


def _single_return_expr(func):
    rets = [n for n in ast.walk(func.node) if isinstance(n, ast.Return) and n.value is not None]
    if len(rets) != 1:
        return None
    return rets[0].value


def _self_attr_in(P, func, expr):
    """the unique self attribute mentioned in expr (or None)"""
    sn = func.self_name
    found = []
    for n in ast.walk(expr):
        a = P.self_attr(n, sn)
        if a is not None and a not in found:
            found.append(a)
    return found[0] if len(found) == 1 else None


class Roles(object):
    def __init__(self, P):
        self.P = P
        self.resolved = {}
        self.errors = []
        S = self.S = P.cls('SyncObj')
        for seg in (self._seg0, self._seg1, self._seg2, self._seg3, self._seg4, self._seg5, self._seg6, self._seg7, self._seg8, self._seg9):
            before = set(self.__dict__)
            try:
                seg(P, S)
            except AnalysisError as e:
                self.errors.append(str(e))
                # roles the failed segment left unset (None) must raise when a rule asks for them
                for k in list(self.__dict__):
                    if k not in before and self.__dict__[k] is None:
                        del self.__dict__[k]

    def _seg0(self, P, S):
        init = self.__dict__.get('init')
        sn = init.self_name if init is not None else None
        tick = self.__dict__.get('tick')
        h = self.__dict__.get('handler')
        qd = self.__dict__.get('queue_drain')

        def api_attr(role, method):
            m = P.lookup_method(S, method)
            if m is None:
                raise AnalysisError('role %s: public API %s.%s is gone' % (role, S.name, method))
            e = _single_return_expr(m)
            a = _self_attr_in(P, m, e) if e is not None else None
            if a is None:
                raise AnalysisError('role %s: %s.%s does not return a single attribute' % (role, S.name, method))
            self.resolved[role] = a
            return a

        self.commitIndex = api_attr('commitIndex', 'raftCommitIndex')
        self.lastApplied = api_attr('lastApplied', 'raftLastApplied')
        self.currentTerm = api_attr('currentTerm', 'raftCurrentTerm')
        self.voters = api_attr('voters', 'otherNodes')
        self.observers = api_attr('observers', 'readonlyNodes')
        self.selfNode = api_attr('selfNode', 'selfNode')
        self.leaderPtr = api_attr('leaderPtr', '_getLeader')
        self.enabledVersion = api_attr('enabledVersion', 'getCodeVersion')
        self.conf = api_attr('conf', '_getConf')
        self.connected = None
        m = P.lookup_method(S, 'isNodeConnected')
        if m is not None:
            e = _single_return_expr(m)
            if e is not None:
                self.connected = _self_attr_in(P, m, e)
        if self.connected is None:
            raise AnalysisError('role connected: isNodeConnected does not test a single attribute')
        self.resolved['connected'] = self.connected


    def _seg1(self, P, S):
        init = self.__dict__.get('init')
        sn = init.self_name if init is not None else None
        tick = self.__dict__.get('tick')
        h = self.__dict__.get('handler')
        qd = self.__dict__.get('queue_drain')
        # raftState / LEADER from _isLeader: return self.S == K
        m = P.lookup_method(S, '_isLeader')
        e = _single_return_expr(m) if m else None
        if not (isinstance(e, ast.Compare) and len(e.ops) == 1 and isinstance(e.ops[0], ast.Eq)):
            raise AnalysisError('role raftState: _isLeader is not `return self.<state> == <LEADER>`')
        self.raftState = P.self_attr(e.left, m.self_name)
        cv = P.const_class_value(e.comparators[0])
        if self.raftState is None or cv is None:
            raise AnalysisError('role raftState/LEADER cannot be resolved from _isLeader')
        self.state_class = cv[0]
        self.LEADER = cv
        sc = P.cls(cv[0])
        self.state_consts = dict(sc.consts)
        for nm in ('FOLLOWER', 'CANDIDATE', 'LEADER'):
            if nm not in sc.consts:
                raise AnalysisError('role states: %s.%s missing' % (cv[0], nm))
        self.resolved['raftState'] = self.raftState
        self.resolved['LEADER'] = '%s.%s' % (cv[0], cv[1])

        init = P.lookup_method(S, '__init__')
        self.init = init
        sn = init.self_name

        def ctor_attr(role, ctor_names):
            for n in ast.walk(init.node):
                if isinstance(n, ast.Assign) and isinstance(n.value, ast.Call) and isinstance(n.value.func, ast.Name) \
                        and n.value.func.id in ctor_names:
                    for t in n.targets:
                        a = P.self_attr(t, sn)
                        if a:
                            self.resolved[role] = a
                            return a
            raise AnalysisError('role %s: no attribute constructed from %s in SyncObj.__init__' % (role, '/'.join(ctor_names)))

        self.log = ctor_attr('log', ('createJournal',))
        self.commandQueue = ctor_attr('commandQueue', ('FastQueue',))
        self.serializer = ctor_attr('serializer', ('Serializer',))
        self.transport = ctor_attr('transport', ('transportClass',))


    def _seg2(self, P, S):
        init = self.__dict__.get('init')
        sn = init.self_name if init is not None else None
        tick = self.__dict__.get('tick')
        h = self.__dict__.get('handler')
        qd = self.__dict__.get('queue_drain')
        # handler / connection callbacks: methods registered on the transport
        self.handler = None
        self.slot_methods = {}
        for n in ast.walk(init.node):
            if isinstance(n, ast.Call) and isinstance(n.func, ast.Attribute) and P.self_attr(n.func.value, sn) == self.transport \
                    and n.func.attr.startswith('setOn') and n.args:
                arg = n.args[-1]
                a = P.self_attr(arg, sn)
                if a and P.lookup_method(S, a):
                    key = n.func.attr
                    if key == 'setOnUtilityMessageCallback' and isinstance(n.args[0], ast.Constant):
                        key += ':' + str(n.args[0].value)
                    self.slot_methods[key] = P.lookup_method(S, a)
        self.handler = self.slot_methods.get('setOnMessageReceivedCallback')
        if self.handler is None:
            raise AnalysisError('role handler: no method registered with transport.setOnMessageReceivedCallback')
        self.resolved['handler'] = self.handler.qualname


    def _seg3(self, P, S):
        init = self.__dict__.get('init')
        sn = init.self_name if init is not None else None
        tick = self.__dict__.get('tick')
        h = self.__dict__.get('handler')
        qd = self.__dict__.get('queue_drain')
        # tick: the method doTick delegates to
        dt = P.lookup_method(S, 'doTick')
        self.tick = None
        if dt is not None:
            for c in P.calls_in(dt):
                r = P.resolve_call(dt, c)
                if r.kind == 'method' and r.targets:
                    self.tick = r.targets[0]
        if self.tick is None:
            raise AnalysisError('role tick: doTick does not delegate to a method')
        self.resolved['tick'] = self.tick.qualname


    def _seg4(self, P, S):
        init = self.__dict__.get('init')
        sn = init.self_name if init is not None else None
        tick = self.__dict__.get('tick')
        h = self.__dict__.get('handler')
        qd = self.__dict__.get('queue_drain')
        # dispatcher / apply step
        self.dispatcher = None
        self.idToMethod = None
        for f in P.methods_of(S):
            for c in P.calls_in(f):
                if isinstance(c.func, ast.Subscript):
                    a = P.self_attr(c.func.value, f.self_name)
                    if a is not None and any(isinstance(x, ast.Starred) for x in c.args):
                        self.dispatcher = f
                        self.dispatch_call = c
                        self.idToMethod = a
        if self.dispatcher is None:
            raise AnalysisError('role dispatcher: no call through a method table `self.<table>[id](*args, **kwargs)`')
        self.resolved['dispatcher'] = self.dispatcher.qualname
        self.apply_step = None
        for f, c in P.callers_of(self.dispatcher):
            # the call must be inside a loop
            for n in ast.walk(f.node):
                if isinstance(n, (ast.For, ast.While)) and any(x is c for x in ast.walk(n)):
                    self.apply_step = f
                    self.apply_loop = n
                    self.apply_call = c
        if self.apply_step is None:
            raise AnalysisError('role apply step: the dispatcher is not called from a loop')
        self.resolved['apply_step'] = self.apply_step.qualname


    def _seg5(self, P, S):
        init = self.__dict__.get('init')
        sn = init.self_name if init is not None else None
        tick = self.__dict__.get('tick')
        h = self.__dict__.get('handler')
        qd = self.__dict__.get('queue_drain')
        # matchIndex / nextIndex from getStatus keys
        gs = P.lookup_method(S, 'getStatus')
        self.matchIndex = self.nextIndex = None
        if gs is not None:
            for n in ast.walk(gs.node):
                if isinstance(n, ast.For):
                    it_attr = _self_attr_in(P, gs, n.iter)
                    for s in ast.walk(n):
                        if isinstance(s, ast.Constant) and isinstance(s.value, str):
                            if s.value.startswith('match_idx_server'):
                                self.matchIndex = it_attr
                            elif s.value.startswith('next_node_idx_server'):
                                self.nextIndex = it_attr
        if not self.matchIndex or not self.nextIndex:
            raise AnalysisError('role matchIndex/nextIndex: getStatus no longer exposes match_idx_server_*/next_node_idx_server_*')
        self.resolved['matchIndex'] = self.matchIndex
        self.resolved['nextIndex'] = self.nextIndex


    def _seg6(self, P, S):
        init = self.__dict__.get('init')
        sn = init.self_name if init is not None else None
        tick = self.__dict__.get('tick')
        h = self.__dict__.get('handler')
        qd = self.__dict__.get('queue_drain')
        # lastResponseTime: attribute subscripted and compared against a local derived from conf.leaderFallbackTimeout
        self.lastResponseTime = None
        tick = self.tick
        for fm in P.methods_of(S):
            tainted = set()
            for n in ast.walk(fm.node):
                if isinstance(n, ast.Assign) and any(isinstance(x, ast.Attribute) and x.attr == 'leaderFallbackTimeout' for x in ast.walk(n.value)):
                    for t in n.targets:
                        if isinstance(t, ast.Name):
                            tainted.add(t.id)
            for n in ast.walk(fm.node):
                if isinstance(n, ast.Compare) and len(n.ops) == 1:
                    sides = [n.left, n.comparators[0]]
                    for i in (0, 1):
                        other = sides[1 - i]
                        uses = any((isinstance(x, ast.Name) and x.id in tainted) or
                                   (isinstance(x, ast.Attribute) and x.attr == 'leaderFallbackTimeout') for x in ast.walk(other))
                        if uses and isinstance(sides[i], ast.Subscript):
                            a = P.self_attr(sides[i].value, fm.self_name)
                            if a:
                                self.lastResponseTime = a
                                self.fallback_compare = n
                                self.fallback_func = fm
        # primary anchor: the per-node table the message handler stamps with the current time
        hh = self.__dict__.get('handler')
        if hh is not None:
            for acc in P.accesses(hh):
                if acc.kind == 'elem_write' and isinstance(acc.node, ast.Assign) and _is_clock(acc.node.value):
                    self.lastResponseTime = acc.attr
        if self.lastResponseTime is None:
            raise AnalysisError('role lastResponseTime: no comparison against conf.leaderFallbackTimeout in SyncObj')
        self.resolved['lastResponseTime'] = self.lastResponseTime


    def _seg7(self, P, S):
        init = self.__dict__.get('init')
        sn = init.self_name if init is not None else None
        tick = self.__dict__.get('tick')
        h = self.__dict__.get('handler')
        qd = self.__dict__.get('queue_drain')
        # waitingCommit / waitingReply: tables the dequeued callback is stored into
        self.queue_drain = None
        for f in P.methods_of(S):
            for c in P.calls_in(f):
                if isinstance(c.func, ast.Attribute) and c.func.attr == 'get_nowait' and P.self_attr(c.func.value, f.self_name) == self.commandQueue:
                    self.queue_drain = f
                    self.queue_get_call = c
        if self.queue_drain is None:
            raise AnalysisError('role queue drain: nobody calls get_nowait() on the command queue')
        self.resolved['queue_drain'] = self.queue_drain.qualname
        self.waitingCommit = self.waitingReply = None
        qd = self.queue_drain
        for n in ast.walk(qd.node):
            if isinstance(n, ast.Call) and isinstance(n.func, ast.Attribute) and n.func.attr == 'append' \
                    and isinstance(n.func.value, ast.Subscript):
                a = P.self_attr(n.func.value.value, qd.self_name)
                if a and n.args and isinstance(n.args[0], ast.Tuple):
                    self.waitingCommit = a
            if isinstance(n, ast.Assign) and isinstance(n.targets[0], ast.Subscript) and isinstance(n.value, ast.Name):
                a = P.self_attr(n.targets[0].value, qd.self_name)
                if a:
                    self.waitingReply = a
        if not self.waitingCommit or not self.waitingReply:
            raise AnalysisError('role waitingCommit/waitingReply: callback tables not found in %s' % qd.qualname)
        self.resolved['waitingCommit'] = self.waitingCommit
        self.resolved['waitingReply'] = self.waitingReply


    def _seg8(self, P, S):
        init = self.__dict__.get('init')
        sn = init.self_name if init is not None else None
        tick = self.__dict__.get('tick')
        h = self.__dict__.get('handler')
        qd = self.__dict__.get('queue_drain')
        # votedFor / electionDeadline from the request_vote region of the handler
        self.votedFor = None
        h = self.handler
        node_param = h.params[1] if len(h.params) > 1 else None
        self.handler_node_param = node_param
        self.handler_msg_param = h.params[2] if len(h.params) > 2 else None
        for n in ast.walk(h.node):
            if isinstance(n, ast.Assign) and len(n.targets) == 1:
                a = P.self_attr(n.targets[0], h.self_name)
                if a and any(isinstance(x, ast.Name) and x.id == node_param for x in ast.walk(n.value)) \
                        and isinstance(n.value, ast.Attribute):
                    self.votedFor = a
        if self.votedFor is None:
            raise AnalysisError('role votedFor: the handler never records the id of the node it votes for')
        self.resolved['votedFor'] = self.votedFor
        self.electionDeadline = None
        clock_cmp = []
        for n in ast.walk(tick.node):
            if isinstance(n, ast.Compare) and len(n.ops) == 1 and isinstance(n.ops[0], (ast.Lt, ast.Gt, ast.LtE, ast.GtE)):
                l, r = n.left, n.comparators[0]
                for x, y in ((l, r), (r, l)):
                    a = P.self_attr(x, tick.self_name)
                    if a and _is_clock(y):
                        clock_cmp.append(a)
        written_in_handler = set(acc.attr for acc in P.accesses(h) if acc.kind == 'write')
        for a in clock_cmp:
            if a in written_in_handler:
                self.electionDeadline = a
        if self.electionDeadline is None:
            raise AnalysisError('role electionDeadline: no deadline attribute compared with the clock in the tick')
        self.resolved['electionDeadline'] = self.electionDeadline


    def _seg9(self, P, S):
        init = self.__dict__.get('init')
        sn = init.self_name if init is not None else None
        tick = self.__dict__.get('tick')
        h = self.__dict__.get('handler')
        qd = self.__dict__.get('queue_drain')
        # become-leader: callee of the handler/tick that calls the state setter with LEADER
        self.setState = None
        self.becomeLeader = None
        for f in P.methods_of(S):
            for n in ast.walk(f.node):
                if isinstance(n, ast.Assign) and len(n.targets) == 1 and P.self_attr(n.targets[0], f.self_name) == self.raftState \
                        and isinstance(n.value, ast.Name) and n.value.id in f.params and f.name != '__init__':
                    self.setState = f
        if self.setState is not None:
            self.resolved['setState'] = self.setState.qualname



    def __getattr__(self, name):
        # only called for attributes that were never set: the segment resolving this role failed
        if name.startswith('__') and name.endswith('__'):
            raise AttributeError(name)
        raise AnalysisError('role `%s` could not be resolved: %s' % (name, '; '.join(self.__dict__.get('errors', [])) or 'not defined'))

    # ------------------------------------------------------------------ helpers
    def is_state_const(self, node, name):
        cv = self.P.const_class_value(node)
        return cv is not None and cv[0] == self.state_class and cv[1] == name

    def attr(self, role):
        return getattr(self, role)

    def describe(self):
        return dict(self.resolved)


def type_test_value(P, func, cond_ast, msg_param):
    """if cond is `message['type'] == '<K>'` return K"""
    if isinstance(cond_ast, ast.Compare) and len(cond_ast.ops) == 1 and isinstance(cond_ast.ops[0], ast.Eq):
        l, r = cond_ast.left, cond_ast.comparators[0]
        for a, b in ((l, r), (r, l)):
            if isinstance(a, ast.Name) and a.id != msg_param:
                # a local the type was hoisted into: `msgType = message['type']`
                from .util import single_assign_value
                v = single_assign_value(func, a.id)
                if v is not None:
                    a = v
            if isinstance(a, ast.Subscript) and isinstance(a.value, ast.Name) and a.value.id == msg_param \
                    and isinstance(a.slice, ast.Constant) and a.slice.value == 'type' \
                    and isinstance(b, ast.Constant) and isinstance(b.value, str):
                return b.value
    return None


def handler_regions(P, roles, cfg):
    """wire type -> list of region entry node ids (targets of the true edge of the type test)"""
    out = {}
    for n in cfg.nodes:
        if n.kind == 'cond':
            k = type_test_value(P, roles.handler, n.ast, roles.handler_msg_param)
            if k is not None:
                for d, label in n.succ:
                    if label == ('cond', True):
                        out.setdefault(k, []).append((n.id, d))
    return out


def dict_type(d):
    """constant 'type' of a dict literal, or None"""
    if not isinstance(d, ast.Dict):
        return None
    for k, v in zip(d.keys, d.values):
        if isinstance(k, ast.Constant) and k.value == 'type' and isinstance(v, ast.Constant):
            return v.value
    return None


def dict_keys(d):
    return [k.value for k in d.keys if isinstance(k, ast.Constant)]


def dict_get(d, key):
    for k, v in zip(d.keys, d.values):
        if isinstance(k, ast.Constant) and k.value == key:
            return v
    return None
