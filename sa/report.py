"""Rule context, findings, known-findings matching and the evidence writer."""
import json
import os
import time

from . import oracle
from .pyir import AnalysisError

VERIF = os.path.dirname(os.path.dirname(os.path.abspath(__file__)))


class Finding(object):
    def __init__(self, rule, construct, loc, message, witness=None):
        self.rule = rule
        self.construct = construct      # stable key: qualified function + role-level description (no line numbers)
        self.loc = loc
        self.message = message
        self.witness = witness

    def as_dict(self):
        d = {'rule': self.rule, 'construct': self.construct, 'loc': self.loc, 'message': self.message}
        if self.witness:
            d['witness'] = self.witness
        return d


class Ctx(object):
    """what a rule sees: the program, the roles, and sinks for instances/findings"""

    def __init__(self, program, roles, prop, tier):
        self.P = program
        self.R = roles
        self.prop = prop
        self.tier = tier
        self.instances = []       # dict(rule, instance, verdict, loc, detail)
        self.violations = []
        self.notes = []
        self.counts = {}          # rule -> number of instances
        self.evaluations = 0      # entailment queries + paths + sites inspected
        self.nontrivial = set()
        self.rule_docs = {}
        self.current_rule = None

    # -- sinks
    def _inst(self, verdict, instance, loc, detail, nontrivial=True):
        rule = self.current_rule
        self.counts[rule] = self.counts.get(rule, 0) + 1
        self.instances.append({'rule': rule, 'instance': instance, 'verdict': verdict, 'loc': loc, 'detail': detail})
        self.evaluations += 1
        if nontrivial:
            self.nontrivial.add((rule, instance))

    def ok(self, instance, loc='', detail='', nontrivial=True):
        self._inst('ok', instance, loc, detail, nontrivial)

    def unproven(self, instance, loc='', detail=''):
        self._inst('unproven', instance, loc, detail)

    def info(self, instance, loc='', detail=''):
        rule = self.current_rule
        self.instances.append({'rule': rule, 'instance': instance, 'verdict': 'info', 'loc': loc, 'detail': detail})

    def violation(self, construct, loc, message, witness=None, instance=None):
        rule = self.current_rule
        construct = construct.replace('__boolret', '')      # analysis copy made by util.bool_returns_normalised
        message = message.replace('__boolret', '')
        self._inst('violation', instance or construct, loc, message)
        self.violations.append(Finding(rule, construct, loc, message, witness))

    def require(self, cond, message):
        if not cond:
            raise AnalysisError('%s: %s' % (self.current_rule, message))

    def expect_min(self, n, what='instances'):
        have = self.counts.get(self.current_rule, 0)
        if any(v.rule == self.current_rule for v in self.violations):
            return          # a violation is a more useful answer than "too few instances"
        if have < n:
            raise AnalysisError('%s: found %d %s, at least %d were confirmed by hand on the pinned tree '
                                '(a rule that matches nothing would pass vacuously)' % (self.current_rule, have, what, n))

    def tick(self, n=1):
        self.evaluations += n

    def loc(self, func, node=None):
        return func.loc(node)


def facts_stats():
    from . import facts
    return facts.STATS


def load_known():
    p = os.path.join(VERIF, 'known_findings.json')
    if not os.path.exists(p):
        return {'known': [], 'fixed': []}
    with open(p) as f:
        return json.load(f)


class Views(object):
    """the plain program and, built on first use, the helper-inlined view of the same sources (sa/inline.py)"""

    def __init__(self, program, roles, repo):
        self.plain = (program, roles)
        self.repo = repo
        self._inlined = None

    def inlined(self):
        if self._inlined is None:
            from .inline import expanded_program
            from .roles import Roles
            px = expanded_program(self.repo)
            self._inlined = (px, Roles(px))
        return self._inlined


def _is_known(v, known_for):
    return any(k.get('rule') == v.rule and k.get('construct') == v.construct for k in known_for)


def _attempt(fn, rule_id, doc, program, roles, prop_id, tier):
    sub = Ctx(program, roles, prop_id, tier)
    sub.current_rule = rule_id
    sub.rule_docs[rule_id] = doc
    err = None
    try:
        fn(sub)
    except AnalysisError as e:
        err = e
    except RecursionError:
        err = AnalysisError('%s: expression nesting too deep for the analyser' % rule_id)
    except Exception as e:
        # a rule tripping over a shape it does not expect is an analysis failure (exit 2), never a verdict
        import traceback
        tb = traceback.extract_tb(e.__traceback__)
        where = '%s:%d' % (os.path.basename(tb[-1].filename), tb[-1].lineno) if tb else '?'
        err = AnalysisError('%s: code shape not understood by the rule (%s: %s at %s)' % (rule_id, type(e).__name__, e, where))
    return sub, err


def _merge(ctx, sub):
    ctx.instances.extend(sub.instances)
    ctx.violations.extend(sub.violations)
    for k, v in sub.counts.items():
        ctx.counts[k] = ctx.counts.get(k, 0) + v
    ctx.evaluations += sub.evaluations
    ctx.nontrivial |= sub.nontrivial
    ctx.rule_docs.update(sub.rule_docs)


def run_rule(ctx, views, rule_id, fn, doc, known_for):
    """A rule is evaluated on the plain view.  If it does not pass there (a violation that is not a listed known
    finding, or a vanished anchor), it is evaluated again on the helper-inlined view, a semantically equivalent
    program in which statements moved into private helpers are back in place; passing on either view is passing."""
    P, R = views.plain
    if os.environ.get('VERIF_FORCE_VIEW') == 'inlined':      # development aid: evaluate everything on the inlined view
        P, R = views.inlined()
    sub, err = _attempt(fn, rule_id, doc, P, R, ctx.prop, ctx.tier)
    new = [v for v in sub.violations if not _is_known(v, known_for)]
    if err is None and not new:
        _merge(ctx, sub)
        return
    try:
        PX, RX = views.inlined()
        sub2, err2 = _attempt(fn, rule_id, doc, PX, RX, ctx.prop, ctx.tier)
    except AnalysisError as e:
        sub2, err2 = None, e
    except RecursionError as e:
        sub2, err2 = None, AnalysisError('inlined view: %s' % e)
    if sub2 is not None and err2 is None:
        new2 = [v for v in sub2.violations if not _is_known(v, known_for)]
        if not new2:
            _merge(ctx, sub2)
            ctx.current_rule = rule_id
            ctx.info('view', '', 'not established on the plain view (%s); established on the helper-inlined view of the same sources'
                     % (err if err is not None else '%d site(s) not proved' % len(new)))
            return
        if err is not None:
            # anchor lost on the plain view, a violation on the inlined one: report the violation
            _merge(ctx, sub2)
            return
    if err is not None:
        raise err
    _merge(ctx, sub)


def run_property(prop_id, spec, program, roles, tier, seed, rules_registry, t0, repo):
    ctx = Ctx(program, roles, prop_id, tier)
    known = load_known()
    known_for = [k for k in known.get('known', []) if k.get('property') == prop_id]
    views = Views(program, roles, repo)
    rule_ids = list(spec['rules'])
    if tier == 'thorough':
        rule_ids += list(spec.get('thorough_rules', []))
    errors = []
    for rule_id in rule_ids:
        fn, doc = rules_registry[rule_id]
        try:
            run_rule(ctx, views, rule_id, fn, doc, known_for)
        except AnalysisError as e:
            # an anchor lost by one rule must not hide what the other rules of the property find
            errors.append(e)
    ctx.current_rule = None
    ctx.rule_errors = errors
    new = []
    reported_known = []
    for v in ctx.violations:
        match = None
        for k in known_for:
            if k.get('rule') == v.rule and k.get('construct') == v.construct:
                match = k
                break
        if match is not None:
            reported_known.append((v, match))
        else:
            new.append(v)
    if errors and not new:
        raise errors[0]
    return ctx, new, reported_known


def write_evidence(prop_id, spec, ctx, new, reported_known, tier, seed, wall, program, roles, repo, extra=None):
    ev_dir = os.path.join(VERIF, 'evidence')
    if os.path.realpath(repo) != os.path.realpath('/repo'):
        # development / self-test runs against scratch copies never touch the committed evidence
        import tempfile
        ev_dir = os.environ.get('VERIF_EVIDENCE_DIR') or os.path.join(tempfile.gettempdir(), 'verif_scratch_evidence')
    os.makedirs(ev_dir, exist_ok=True)
    insts = ctx.instances
    obligations = sum(1 for i in insts if i['verdict'] in ('ok', 'violation', 'unproven'))
    discharged = sum(1 for i in insts if i['verdict'] == 'ok')
    samples = []
    per_rule_seen = {}
    for i in insts:
        c = per_rule_seen.get(i['rule'], 0)
        if c < 3 or i['verdict'] != 'ok':
            samples.append({'rule': i['rule'], 'instance': i['instance'], 'verdict': i['verdict'],
                            'at': i['loc'], 'detail': i['detail'] if isinstance(i['detail'], str) else i['detail']})
        per_rule_seen[i['rule']] = c + 1
    calls = program.count_calls()
    cov = {
        'explanation': spec['explanation'],
        'rule': 'cases are rule instances found in the parsed source of /repo/pysyncobj (one per anchored site, guard, '
                'path class or table row); an instance is non-trivial when its verdict needed at least one must-fact '
                'query, path/reachability search, table comparison or small-domain evaluation; distinct = distinct '
                '(rule, instance) pairs',
        'obligations': obligations,
        'discharged': discharged,
        'unproven': sum(1 for i in insts if i['verdict'] == 'unproven'),
        'evaluations': max(1, ctx.evaluations + oracle.stats['entail_queries']),
        'distinct_nontrivial': len(ctx.nontrivial),
        'samples': samples[:60] or [{'note': 'no instances'}],
        'rules': {r: {'instances': ctx.counts.get(r, 0), 'what': ctx.rule_docs.get(r, '')} for r in ctx.rule_docs},
        'units': sorted(m.path_rel for m in program.modules.values()),
        'functions': len(program.functions),
        'call_sites': calls,
        'roles': roles.describe(),
        'path_sensitive_explorations': facts_stats()['explorations'],
        'cfg_fact_states_explored': facts_stats()['states_explored'],
        'infeasible_edges_pruned': facts_stats()['edges_pruned_infeasible'],
        'sat_queries': oracle.stats['sat_queries'],
        'entail_queries': oracle.stats['entail_queries'],
        'known_findings_reported': [{'rule': v.rule, 'construct': v.construct, 'at': v.loc} for v, k in reported_known],
        'new_violations': [v.as_dict() for v in new],
        'checker_cmd': './check %s --tier %s' % (prop_id, tier),
        'trusted_base': ['CPython ast module', 'the analyser in /verif/sa (CFG builder, fact engine, difference-constraint oracle)',
                         'role binding through the public API names of SyncObj'],
        'not_decided': spec.get('not_decided', []),
        'repo': repo,
        'exhaustive': False,
    }
    if extra:
        cov.update(extra)
    ev = {
        'property_id': prop_id,
        'tier': tier,
        'seed': seed,
        'level': 'other',
        'coverage': cov,
        'assumptions': spec.get('assumptions', []) + [
            'calls through user-supplied values (callbacks, replicated methods) do not write SyncObj attributes directly',
            'the CFG over-approximates control flow: every statement containing a call or subscript may raise',
        ],
        'wall_s': round(wall, 3),
        'violations': len(new),
    }
    path = os.path.join(ev_dir, '%s.json' % prop_id)
    tmp = path + '.tmp'
    with open(tmp, 'w') as f:
        json.dump(ev, f, indent=1, sort_keys=False, default=str)
    os.replace(tmp, path)
    if new:
        vp = os.path.join(ev_dir, '%s.violation.json' % prop_id)
        with open(vp, 'w') as f:
            json.dump({'property_id': prop_id, 'violations': [v.as_dict() for v in new],
                       'replay': 'cd /verif && ./check %s --tier %s   (static finding: re-running the check on the same tree reproduces it)' % (prop_id, tier)},
                      f, indent=1, default=str)
        return path, vp
    stale = os.path.join(ev_dir, '%s.violation.json' % prop_id)
    if os.path.exists(stale):
        os.remove(stale)
    return path, None
