"""Driver: ./check <property id>|all [--tier quick|thorough] [--repo DIR]"""
import os
import sys
import time
import traceback

HERE = os.path.dirname(os.path.abspath(__file__))
sys.path.insert(0, os.path.dirname(HERE))

try:
    from sa.pyir import Program, AnalysisError          # noqa: E402
    from sa.roles import Roles                          # noqa: E402
    from sa import report, oracle                       # noqa: E402
    from sa import rules as rulespkg                    # noqa: E402
    from sa.props import PROPS                          # noqa: E402
except BaseException:                                   # a broken analyser must never look like a violation (exit 1)
    traceback.print_exc()
    print('ANALYSIS-ERROR: the analyser failed to load')
    sys.exit(2)


def run_one(prop_id, tier, seed, repo, quiet=False):
    t0 = time.time()
    for k in oracle.stats:
        oracle.stats[k] = 0
    from sa import facts as _facts
    for k in _facts.STATS:
        _facts.STATS[k] = 0
    spec = PROPS[prop_id]
    program = Program(repo)
    roles = Roles(program)
    registry = rulespkg.load_all()
    out = []
    out.append('== %s  tier=%s  repo=%s' % (prop_id, tier, repo))
    out.append('units parsed: %s' % ', '.join(sorted(m.path_rel for m in program.modules.values())))
    out.append('functions: %d   classes: %d' % (len(program.functions), len(program.classes)))
    out.append('roles: ' + ', '.join('%s=%s' % kv for kv in sorted(roles.describe().items())))
    extra = {}
    ctx, new, known = report.run_property(prop_id, spec, program, roles, tier, seed, registry, t0, repo)
    if tier == 'thorough' and spec.get('selftest', True):
        from sa import selftest
        extra = selftest.run_for_property(prop_id, repo, seed)
        out.extend(extra.pop('_lines', []))
        if extra.get('selftest_false_alarms') or extra.get('selftest_missed_required'):
            # sensitivity / specificity of the checker itself, reported but never turned into a verdict on the repository
            out.append('SELFTEST-WARNING: property=%s false alarms on refactorings: %s; variants not killed: %s'
                       % (prop_id, extra.get('selftest_false_alarms'), extra.get('selftest_missed_required')))
    cur = None
    for i in ctx.instances:
        if i['rule'] != cur:
            cur = i['rule']
            out.append('-- %s (%d instances): %s' % (cur, ctx.counts.get(cur, 0), ctx.rule_docs.get(cur, '')))
        out.append('   [%s] %s  %s%s' % (i['verdict'].upper(), i['instance'], i['loc'], ('  -- ' + str(i['detail'])) if i['detail'] and (i['verdict'] != 'ok' or not quiet) else ''))
    wall = time.time() - t0
    ev, vp = report.write_evidence(prop_id, spec, ctx, new, known, tier, seed, wall, program, roles, repo, extra)
    for v, k in known:
        out.append('KNOWN-FINDING: property=%s %s at %s: %s [%s]' % (prop_id, v.construct, v.loc, k.get('what', v.message), v.rule))
    for e in getattr(ctx, 'rule_errors', []):
        out.append('NOTE: rule not evaluated (anchor lost): %s' % e)
    for v in new:
        out.append('FINDING %s %s %s -- %s' % (v.rule, v.loc, v.construct, v.message))
    out.append('summary: %d instances, %d ok, %d unproven, %d known findings, %d new violations, %.2fs'
               % (len([i for i in ctx.instances if i['verdict'] != 'info']), len([i for i in ctx.instances if i['verdict'] == 'ok']),
                  len([i for i in ctx.instances if i['verdict'] == 'unproven']), len(known), len(new), wall))
    if new:
        out.append('VIOLATION property=%s replay=%s' % (prop_id, vp))
    print('\n'.join(out))
    return 1 if new else 0


def main(argv):
    args = [a for a in argv if not a.startswith('--')]
    tier = os.environ.get('VERIF_TIER', 'quick')
    repo = os.environ.get('VERIF_REPO', '/repo')
    quiet = False
    i = 0
    while i < len(argv):
        if argv[i] == '--tier':
            tier = argv[i + 1]
            args = [a for a in args if a != tier]
        elif argv[i] == '--repo':
            repo = argv[i + 1]
            args = [a for a in args if a != repo]
        elif argv[i] == '--quiet':
            quiet = True
        i += 1
    try:
        seed = int(os.environ.get('VERIF_SEED', '0'))
    except ValueError:
        seed = 0
    if tier not in ('quick', 'thorough'):
        tier = 'quick'
    if not args:
        print('usage: check <Cxx|all|selftest> [--tier quick|thorough] [--repo DIR]')
        return 2
    target = args[0]
    if target == 'selftest':
        from sa import selftest
        return selftest.main(repo, seed, args[1:])
    ids = sorted(PROPS) if target == 'all' else [target]
    rc = 0
    for pid in ids:
        if pid not in PROPS:
            print('ANALYSIS-ERROR: property %s is not claimed by this framework' % pid)
            return 2
        try:
            r = run_one(pid, tier, seed, repo, quiet)
        except AnalysisError as e:
            print('ANALYSIS-ERROR: property=%s %s' % (pid, e))
            r = 2
        except Exception:
            traceback.print_exc()
            print('ANALYSIS-ERROR: property=%s internal error of the analyser (see traceback)' % pid)
            r = 2
        rc = max(rc, r)
    return rc


if __name__ == '__main__':
    try:
        rc = main(sys.argv[1:])
    except SystemExit:
        raise
    except BaseException:
        traceback.print_exc()
        print('ANALYSIS-ERROR: internal error of the analyser (see traceback)')
        rc = 2
    sys.exit(rc)
