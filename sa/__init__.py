"""Static analysis engine for bakwc/PySyncObj (see /verif/DESIGN.md).

Nothing in this package imports or executes code from the analysed repository:
sources are parsed with ``ast`` and analysed as data.
"""
