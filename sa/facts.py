"""Terms, atoms, statement effects and the path-sensitive must-fact exploration
(DESIGN 2.3).  The exploration runs over (CFG node, fact set) pairs; because the
fact sets are kept apart per path (no join), a fact that holds at a node on every
explored state holds on every feasible path to it, and edges whose condition
contradicts the facts already collected are pruned (infeasible paths)."""
import ast
from . import oracle
from .pyir import AnalysisError, PURE_BUILTINS, PURE_METHODS, MUTATORS, unparse
from . import cfg as cfgmod


class Term(object):
    __slots__ = ('key', 'deps', 'volatile', 'const', 'base', 'off', 'node', 'shape', 'sub')

    def __init__(self, key, deps=frozenset(), volatile=False, const=None, base=None, off=0, node=None, shape=None, sub=()):
        self.shape = shape
        self.sub = tuple(sub)
        self.key = key
        self.deps = frozenset(deps)
        self.volatile = volatile
        self.const = const        # None or (value,)
        self.base = base
        self.off = off
        self.node = node

    def __hash__(self):
        return hash(self.key)

    def __eq__(self, other):
        return isinstance(other, Term) and self.key == other.key

    def __repr__(self):
        return 'T(%s)' % self.key


def const_term(v):
    return Term(repr(v), const=(v,))


class TermBuilder(object):
    def __init__(self, program, func):
        self.P = program
        self.func = func
        self.selfname = func.self_name
        self.cls = func.owner_cls

    def term(self, e):
        P = self.P
        if isinstance(e, ast.Constant):
            return Term(repr(e.value), const=(e.value,), node=e)
        if isinstance(e, ast.Name):
            if e.id in ('True', 'False', 'None'):
                v = {'True': True, 'False': False, 'None': None}[e.id]
                return Term(repr(v), const=(v,), node=e)
            return Term(e.id, {'L:' + e.id}, node=e)
        if isinstance(e, ast.Attribute):
            cv = P.const_class_value(e)
            if cv is not None:
                return Term('%s.%s' % (cv[0], cv[1]), const=(cv[2],), node=e)
            a = P.self_attr(e, self.selfname) if self.selfname else None
            if a is not None:
                if self.cls is not None and a in self.cls.properties or (self.cls is not None and P.lookup_method(self.cls, a) is not None
                                                                       and a in P.lookup_method(self.cls, a).owner_cls.properties):
                    m = P.lookup_method(self.cls, a)
                    if P.is_pure_getter(m):
                        return Term('self.' + a, P.reads(m) | {'A:' + a}, node=e)
                    return Term('self.' + a, {'A:' + a}, volatile=True, node=e)
                return Term('self.' + a, {'A:' + a}, node=e)
            b = self.term(e.value)
            return Term(b.key + '.' + e.attr, b.deps, b.volatile, node=e, shape='%s.' + e.attr, sub=(b,))
        if isinstance(e, ast.Subscript):
            b = self.term(e.value)
            s = e.slice
            if isinstance(s, ast.Slice):
                parts = [self.term(x) if x is not None else None for x in (s.lower, s.upper, s.step)]
                deps = set(b.deps)
                vol = b.volatile
                for p in parts:
                    if p is not None:
                        deps |= p.deps
                        vol = vol or p.volatile
                shape = '%s[' + ':'.join('' if p is None else '%s' for p in parts) + ']'
                return Term('%s[%s]' % (b.key, ':'.join('' if p is None else p.key for p in parts)), deps, vol, node=e,
                            shape=shape, sub=[b] + [p for p in parts if p is not None])
            i = self.term(s)
            return Term('%s[%s]' % (b.key, i.key), b.deps | i.deps, b.volatile or i.volatile, node=e, shape='%s[%s]', sub=(b, i))
        if isinstance(e, ast.BinOp) and isinstance(e.op, (ast.Add, ast.Sub)):
            l = self.term(e.left)
            r = self.term(e.right)
            if r.const is not None and isinstance(r.const[0], int) and not isinstance(r.const[0], bool) and l.const is None:
                off = r.const[0] if isinstance(e.op, ast.Add) else -r.const[0]
                base = l.base if l.base is not None else l
                total = (l.off if l.base is not None else 0) + off
                if total == 0:
                    return base
                key = '%s %s %d' % (base.key, '+' if total > 0 else '-', abs(total))
                return Term(key, base.deps, base.volatile, base=base, off=total, node=e)
            if isinstance(e.op, ast.Add) and l.const is not None and isinstance(l.const[0], int) and not isinstance(l.const[0], bool) and r.const is None:
                # const + x
                base = r.base if r.base is not None else r
                total = (r.off if r.base is not None else 0) + l.const[0]
                if total == 0:
                    return base
                key = '%s %s %d' % (base.key, '+' if total > 0 else '-', abs(total))
                return Term(key, base.deps, base.volatile, base=base, off=total, node=e)
            if l.const is not None and r.const is not None:
                try:
                    v = l.const[0] + r.const[0] if isinstance(e.op, ast.Add) else l.const[0] - r.const[0]
                    return Term(repr(v), const=(v,), node=e)
                except Exception:
                    pass
            return Term('(%s %s %s)' % (l.key, '+' if isinstance(e.op, ast.Add) else '-', r.key),
                        l.deps | r.deps, l.volatile or r.volatile, node=e,
                        shape='(%s ' + ('+' if isinstance(e.op, ast.Add) else '-') + ' %s)', sub=(l, r))
        if isinstance(e, ast.BinOp):
            l = self.term(e.left)
            r = self.term(e.right)
            return Term('(%s %s %s)' % (l.key, type(e.op).__name__, r.key), l.deps | r.deps, l.volatile or r.volatile, node=e,
                        shape='(%s ' + type(e.op).__name__ + ' %s)', sub=(l, r))
        if isinstance(e, ast.UnaryOp) and isinstance(e.op, ast.USub):
            o = self.term(e.operand)
            if o.const is not None and isinstance(o.const[0], (int, float)):
                return Term(repr(-o.const[0]), const=(-o.const[0],), node=e)
            return Term('-%s' % o.key, o.deps, o.volatile, node=e)
        if isinstance(e, ast.Call):
            return self._call_term(e)
        if isinstance(e, (ast.Tuple, ast.List, ast.Set)):
            ts = [self.term(x) for x in e.elts]
            deps = set()
            vol = False
            for t in ts:
                deps |= t.deps
                vol = vol or t.volatile
            br = {'Tuple': '(%s)', 'List': '[%s]', 'Set': '{%s}'}[type(e).__name__]
            return Term(br % ', '.join(t.key for t in ts), deps, vol, node=e, shape=br % ', '.join('%s' for t in ts), sub=ts)
        if isinstance(e, (ast.Compare, ast.BoolOp)) or (isinstance(e, ast.UnaryOp) and isinstance(e.op, ast.Not)):
            # a test kept as a value (`ok = count > half`): as stable as its operands (pure calls such as len() included)
            parts = [e.left] + list(e.comparators) if isinstance(e, ast.Compare) else (list(e.values) if isinstance(e, ast.BoolOp) else [e.operand])
            ts = [self.term(x) for x in parts]
            deps = set()
            vol = False
            for t in ts:
                deps |= t.deps
                vol = vol or t.volatile
            return Term(unparse(e), deps, vol, node=e)
        # anything else: opaque, depends on every name inside
        deps = set()
        vol = False
        for n in ast.walk(e):
            if isinstance(n, ast.Name):
                if n.id == self.selfname:
                    continue
                deps.add('L:' + n.id)
            elif isinstance(n, ast.Attribute):
                a = P.self_attr(n, self.selfname) if self.selfname else None
                if a:
                    deps.add('A:' + a)
            elif isinstance(n, ast.Call):
                vol = True
        return Term(unparse(e), deps, vol, node=e)

    def _call_term(self, e):
        P = self.P
        args = [self.term(a) for a in e.args] + [self.term(k.value) for k in e.keywords]
        deps = set()
        vol = False
        for t in args:
            deps |= t.deps
            vol = vol or t.volatile
        argk = ', '.join(t.key for t in e.args and [self.term(a) for a in e.args] or [])
        argshape = ', '.join('%s' for a in e.args)
        if e.keywords:
            argk += (', ' if argk else '') + ', '.join('%s=%s' % (k.arg, self.term(k.value).key) for k in e.keywords)
            argshape += (', ' if argshape else '') + ', '.join('%s=%%s' % k.arg for k in e.keywords)
        f = e.func
        if isinstance(f, ast.Name) and f.id in PURE_BUILTINS and f.id not in self.func.params:
            return Term('%s(%s)' % (f.id, argk), deps, vol, node=e, shape='%s(%s)' % (f.id, argshape), sub=args)
        r = P.resolve_call(self.func, e)
        if r.kind == 'method' and len(r.targets) == 1 and P.is_pure_getter(r.targets[0]) and not e.args and not e.keywords \
                and len(r.targets[0].params) == 1:
            # argument-less pure getter: the term is its returned expression (robust to helper renaming / inlining)
            t0 = r.targets[0]
            ret = [n for n in ast.walk(t0.node) if isinstance(n, ast.Return)][0].value
            sub = TermBuilder(P, t0).term(ret)
            return Term(sub.key, sub.deps, sub.volatile, sub.const, sub.base, sub.off, node=e, shape=sub.shape, sub=sub.sub)
        if r.kind == 'method' and r.targets and all(P.is_pure_getter(t) for t in r.targets):
            for t in r.targets:
                deps |= P.reads(t)
            return Term('self.%s(%s)' % (f.attr, argk), deps, vol, node=e, shape='self.%s(%s)' % (f.attr, argshape), sub=args)
        if isinstance(f, ast.Attribute) and f.attr in PURE_METHODS:
            b = self.term(f.value)
            return Term('%s.%s(%s)' % (b.key, f.attr, argk), deps | b.deps, vol or b.volatile, node=e,
                        shape='%%s.%s(%s)' % (f.attr, argshape), sub=[b] + args)
        if r.kind == 'method' and r.targets and all(not P.writes(t) for t in r.targets):
            # side-effect free helper (not a single return): stable as long as what it reads is
            for t in r.targets:
                deps |= P.reads(t)
            return Term('self.%s(%s)' % (f.attr, argk), deps, vol, node=e, shape='self.%s(%s)' % (f.attr, argshape), sub=args)
        return Term(unparse(e), deps, True, node=e)

    # ------------------------------------------------------------ atoms
    def literal(self, e, pol=True):
        """literal for 'expression e evaluates truthy (pol) / falsy (not pol)'; None if volatile"""
        lit = self._lit(e)
        if lit is None:
            return None
        return lit if pol else oracle.negate(lit)

    def _lit(self, e):
        if isinstance(e, ast.Compare) and len(e.ops) == 1:
            op = e.ops[0]
            l = self.term(e.left)
            rnode = e.comparators[0]
            if isinstance(op, (ast.In, ast.NotIn)):
                pol = isinstance(op, ast.In)
                if isinstance(rnode, (ast.Tuple, ast.List, ast.Set)) and rnode.elts:
                    elts = tuple(self.term(x) for x in rnode.elts)
                    if l.volatile or any(x.volatile for x in elts):
                        return None
                    return ('in', l, elts, pol)
                r = self.term(rnode)
                if l.volatile or r.volatile:
                    return None
                return ('opaque', '%s in %s' % (l.key, r.key), pol)
            r = self.term(rnode)
            if l.volatile or r.volatile:
                return None
            if isinstance(op, (ast.Is, ast.IsNot)):
                pol = isinstance(op, ast.Is)
                if r.const is not None and r.const[0] is None:
                    return ('none', l, pol)
                return ('eq', l, r) if pol else ('ne', l, r)
            if isinstance(op, (ast.Eq, ast.NotEq)) and r.const is not None and r.const[0] is None:
                return ('none', l, isinstance(op, ast.Eq))          # x == None / x != None
            if isinstance(op, (ast.Eq, ast.NotEq)) and l.const is not None and l.const[0] is None:
                return ('none', r, isinstance(op, ast.Eq))
            if isinstance(op, ast.Eq):
                return ('eq', l, r)
            if isinstance(op, ast.NotEq):
                return ('ne', l, r)
            if isinstance(op, ast.Lt):
                return ('lt', l, r)
            if isinstance(op, ast.LtE):
                return ('le', l, r)
            if isinstance(op, ast.Gt):
                return ('lt', r, l)
            if isinstance(op, ast.GtE):
                return ('le', r, l)
        if isinstance(e, ast.UnaryOp) and isinstance(e.op, ast.Not):
            inner = self._lit(e.operand)
            return None if inner is None else oracle.negate(inner)
        if isinstance(e, ast.Call) and not e.args and not e.keywords and isinstance(e.func, ast.Attribute):
            # `if self._isLeader():` -- an argument-less pure getter returning a comparison stands for that comparison
            r = self.P.resolve_call(self.func, e)
            if r.kind == 'method' and len(r.targets) == 1 and self.P.is_pure_getter(r.targets[0]) and len(r.targets[0].params) == 1:
                ret = [n for n in ast.walk(r.targets[0].node) if isinstance(n, ast.Return)][0].value
                if isinstance(ret, (ast.Compare, ast.BoolOp, ast.UnaryOp)) and not isinstance(ret, ast.BoolOp):
                    return TermBuilder(self.P, r.targets[0])._lit(ret)
        if isinstance(e, ast.Call) and isinstance(e.func, ast.Name) and e.func.id == 'isinstance' and len(e.args) == 2:
            t = self.term(e.args[0])
            if t.volatile:
                return None
            return ('opaque', 'isinstance(%s, %s)' % (t.key, unparse(e.args[1])), True)
        t = self.term(e)
        if t.volatile:
            return None
        return ('truthy', t, True)

    def formula(self, e):
        """boolean expression -> goal formula for oracle.entails"""
        if isinstance(e, ast.BoolOp):
            return ('and' if isinstance(e.op, ast.And) else 'or',) + tuple(self.formula(v) for v in e.values)
        if isinstance(e, ast.UnaryOp) and isinstance(e.op, ast.Not):
            return ('not', self.formula(e.operand))
        lit = self._lit(e)
        if lit is None:
            raise AnalysisError('volatile expression in formula: %s' % unparse(e))
        return lit


def lit_deps(lit):
    d = set()
    for t in oracle.lit_terms(lit):
        d |= t.deps
    if lit[0] == 'opaque':
        d |= _opaque_deps.get(lit[1], frozenset())
    return d


_opaque_deps = {}


# --------------------------------------------------------------------- effects
class Effects(object):
    def __init__(self, program, func):
        self.P = program
        self.func = func
        self.tb = TermBuilder(program, func)
        self._cache = {}

    def target_syms(self, t, out):
        sn = self.func.self_name
        if isinstance(t, (ast.Tuple, ast.List)):
            for e in t.elts:
                self.target_syms(e, out)
        elif isinstance(t, ast.Starred):
            self.target_syms(t.value, out)
        elif isinstance(t, ast.Name):
            out.add('L:' + t.id)
        elif isinstance(t, ast.Attribute):
            a = self.P.self_attr(t, sn) if sn else None
            if a is not None:
                out.add('A:' + a)
            else:
                self._obj_sym(t.value, out)
        elif isinstance(t, ast.Subscript):
            a = self.P.self_attr(t.value, sn) if sn else None
            if a is not None:
                out.add('A:*' if a == '__dict__' else 'A:' + a)
            else:
                self._obj_sym(t.value, out)

    def _obj_sym(self, e, out):
        """symbol of the object denoted by expression e (local or self attribute)"""
        sn = self.func.self_name
        while isinstance(e, (ast.Attribute, ast.Subscript)):
            a = self.P.self_attr(e, sn) if sn else None
            if a is not None:
                out.add('A:' + a)
                return
            e = e.value
        if isinstance(e, ast.Name) and e.id != sn:
            out.add('L:' + e.id)

    def call_writes(self, call, out):
        P = self.P
        r = P.resolve_call(self.func, call)
        f = call.func
        if r.kind == 'method':
            for t in r.targets:
                out |= P.writes(t)
        elif r.kind == 'field':
            if any(P.writes(t) for t in r.targets):
                self._obj_sym(f.value, out)
        elif r.kind in ('external', 'unresolved'):
            if isinstance(f, ast.Attribute) and f.attr not in PURE_METHODS:
                # method call on an object we hold: may mutate it
                if f.attr in MUTATORS or not _looks_pure_module_call(f):
                    self._obj_sym(f.value, out)

    def increment_of(self, node):
        """(target term, op, amount term, written symbols) if the node is `x += e`, `x -= e`, `x = x + e`, `x = x - e`
        or `x = e + x` with x a local or self attribute and e not depending on x; else None"""
        k = ('inc', node.id)
        if k in self._cache:
            return self._cache[k]
        r = None
        a = node.ast
        if node.kind == 'stmt' and not any(isinstance(p_, (ast.For, ast.While)) for p_ in node.parents):
            # (inside a loop the chain x == t + e + e + ... would never converge)
            tgt = op = amt = None
            if isinstance(a, ast.AugAssign) and isinstance(a.op, (ast.Add, ast.Sub)):
                tgt, op, amt = a.target, a.op, a.value
            elif isinstance(a, ast.Assign) and len(a.targets) == 1 and isinstance(a.value, ast.BinOp) and isinstance(a.value.op, (ast.Add, ast.Sub)):
                tk = unparse(a.targets[0])
                if unparse(a.value.left) == tk:
                    tgt, op, amt = a.targets[0], a.value.op, a.value.right
                elif isinstance(a.value.op, ast.Add) and unparse(a.value.right) == tk:
                    tgt, op, amt = a.targets[0], a.value.op, a.value.left
            if tgt is not None and isinstance(tgt, (ast.Name, ast.Attribute)):
                w = set()
                self.target_syms(tgt, w)
                xt = self.tb.term(tgt)
                et = self.tb.term(amt)
                wr, _ = self.of(node)
                if not xt.volatile and not et.volatile and not (et.deps & wr) and et.node is not None and xt.base is None:
                    r = (xt, op, et, frozenset(w))
        self._cache[k] = r
        return r

    def of(self, node):
        """(written symbols, generated literals) of a CFG node"""
        k = node.id
        if k in self._cache:
            return self._cache[k]
        w = set()
        gens = []
        a = node.ast
        tb = self.tb
        if node.kind in ('stmt', 'cond'):
            exprs = [a]
            if isinstance(a, ast.Assign):
                for t in a.targets:
                    self.target_syms(t, w)
            elif isinstance(a, (ast.AugAssign, ast.AnnAssign)):
                self.target_syms(a.target, w)
            elif isinstance(a, ast.Delete):
                for t in a.targets:
                    self.target_syms(t, w)
            for c in _calls(a):
                self.call_writes(c, w)
            if isinstance(a, ast.AnnAssign) and a.value is not None:
                a = ast.Assign(targets=[a.target], value=a.value)
            if isinstance(a, ast.Assign) and isinstance(a.value, (ast.List, ast.Tuple, ast.Dict, ast.Set, ast.ListComp, ast.DictComp, ast.SetComp, ast.JoinedStr)):
                # a display is an object, never None -- known even when its elements are not
                for t in a.targets:
                    if isinstance(t, (ast.Name, ast.Attribute)):
                        tt = tb.term(t)
                        if not tt.volatile:
                            gens.append(('none', tt, False))
            if isinstance(a, ast.Assign):
                rhs = tb.term(a.value)
                if not rhs.volatile:
                    for t in a.targets:
                        if isinstance(t, (ast.Name, ast.Attribute)):
                            tt = tb.term(t)
                            if not (tt.deps & rhs.deps) and not tt.volatile and not (rhs.deps & w):
                                gens.append(('eq', tt, rhs))
                # a, b = e1, e2  -> element-wise equalities
                for t in a.targets:
                    if isinstance(t, ast.Tuple) and isinstance(a.value, ast.Tuple) and len(t.elts) == len(a.value.elts):
                        tnames = set()
                        for te in t.elts:
                            if isinstance(te, ast.Name):
                                tnames.add('L:' + te.id)
                        for te, ve in zip(t.elts, a.value.elts):
                            if not isinstance(te, (ast.Name, ast.Attribute)):
                                continue
                            tt = tb.term(te)
                            rv = tb.term(ve)
                            if rv.volatile or tt.volatile or (rv.deps & tnames) or (rv.deps & w):
                                continue
                            gens.append(('eq', tt, rv))
                # X = (a, b): X[0] == a, X[1] == b  (a position handed on as one value and taken apart later)
                if isinstance(a.value, ast.Tuple) and len(a.targets) == 1 and isinstance(a.targets[0], ast.Name) and not any(isinstance(e_, ast.Starred) for e_ in a.value.elts):
                    tn = a.targets[0]
                    for i_, ve in enumerate(a.value.elts):
                        rv = tb.term(ve)
                        if rv.volatile or ('L:' + tn.id) in rv.deps:
                            continue
                        gens.append(('eq', tb.term(ast.Subscript(value=ast.Name(id=tn.id, ctx=ast.Load()), slice=ast.Constant(value=i_), ctx=ast.Load())), rv))
                # a, b = X  (X a local / attribute / element): a == X[0], b == X[1]
                for t in a.targets:
                    if isinstance(t, ast.Tuple) and isinstance(a.value, (ast.Name, ast.Attribute, ast.Subscript, ast.Call)) and not any(isinstance(e_, ast.Starred) for e_ in t.elts):
                        rv0 = tb.term(a.value)
                        tnames = set('L:' + te.id for te in t.elts if isinstance(te, ast.Name))
                        if rv0.volatile or (rv0.deps & tnames) or (rv0.deps & w):
                            continue
                        for i_, te in enumerate(t.elts):
                            if not isinstance(te, ast.Name):
                                continue
                            rv = tb.term(ast.Subscript(value=a.value, slice=ast.Constant(value=i_), ctx=ast.Load()))
                            gens.append(('eq', tb.term(te), rv))
                # x = a if c else b  /  boolean-valued rhs: no extra facts
        elif node.kind == 'iter':
            self.target_syms(a.target, w)
            for c in _calls(a.iter):
                self.call_writes(c, w)
            # an index produced by range() / enumerate() is a number, never None
            it = a.iter
            if isinstance(it, ast.Call) and isinstance(it.func, ast.Name) and it.func.id in ('range', 'xrange', 'enumerate'):
                tg = a.target
                if it.func.id == 'enumerate':
                    tg = tg.elts[0] if isinstance(tg, (ast.Tuple, ast.List)) and tg.elts else None
                if isinstance(tg, ast.Name):
                    gens.append(('none', tb.term(tg), False))
        elif node.kind == 'with':
            for it in a.items:
                if it.optional_vars is not None:
                    self.target_syms(it.optional_vars, w)
                for c in _calls(it.context_expr):
                    self.call_writes(c, w)
        elif node.kind == 'handler':
            if a.name:
                w.add('L:' + a.name)
        elif node.kind == 'def':
            w.add('L:' + a.name)
        self._cache[k] = (frozenset(w), gens)
        return self._cache[k]


def _looks_pure_module_call(f):
    # os.path.isfile(...), struct.pack(...), time.sleep(..): base is a plain module-ish name
    b = f.value
    while isinstance(b, ast.Attribute):
        b = b.value
    return isinstance(b, ast.Name) and b.id in ('os', 'struct', 'time', 'pickle', 'zlib', 'socket', 'logger',
                                                 'logging', 'random', 'functools', 'collections', 'threading',
                                                 'heapq', 'gzip', 'shutil', 'select', 'mmap', 'sys', 'types', 'Queue')


def _calls(a):
    out = []
    if a is None:
        return out

    def walk(n):
        for c in ast.iter_child_nodes(n):
            if isinstance(c, (ast.FunctionDef, ast.Lambda)):
                continue
            if isinstance(c, ast.Call):
                out.append(c)
            walk(c)
    if isinstance(a, ast.Call):
        out.append(a)
    walk(a)
    return out


def _dead(deps, written, wild, immune):
    return bool(deps & written) or (wild and any(x.startswith('A:') and x not in immune for x in deps))


def kill(facts, written, immune=frozenset()):
    """facts surviving a write to `written`.  Before an equality `a == T` is dropped because T is overwritten,
    the equalities between the surviving partners of T are kept (`a == T, b == T` -> `a == b`): both held the
    value T had before the write."""
    if not written:
        return facts
    wild = 'A:*' in written
    out = []
    changed = False
    partners = None
    for l in facts:
        d = lit_deps(l)
        if _dead(d, written, wild, immune):
            changed = True
            if l[0] == 'eq':
                a, b = l[1], l[2]
                da, db = _dead(a.deps, written, wild, immune), _dead(b.deps, written, wild, immune)
                if da != db:
                    gone, keep = (a, b) if da else (b, a)
                    if not keep.volatile:
                        if partners is None:
                            partners = {}
                        partners.setdefault(gone.key, []).append(keep)
            continue
        out.append(l)
    if partners:
        for key in partners:
            ps = sorted(set(partners[key]), key=lambda t: t.key)
            for i in range(len(ps) - 1):
                out.append(('eq', ps[i], ps[i + 1]))
    return frozenset(out) if changed else facts


# --------------------------------------------------------------------- exploration
STATS = {'explorations': 0, 'states_explored': 0, 'edges_pruned_infeasible': 0}


class Result(object):
    def __init__(self, ex, start):
        self.ex = ex
        self.start = start
        self.states = {}        # node id -> set of factsets (facts holding on entry to the node)
        self.parent = {}        # (node, facts) -> (prev node, prev facts, label)
        self.edges_pruned = 0
        self.n_states = 0

    def facts_at(self, node_id):
        return list(self.states.get(node_id, ()))

    def reached(self, node_id):
        return node_id in self.states

    def must(self, node_id, goal):
        """does `goal` hold on entry to node on every explored path? -> (bool, counterexample state)"""
        for fs in self.states.get(node_id, ()):
            if not oracle.entails(fs, goal):
                return False, fs
        return True, None

    def path(self, node_id, fs):
        out = []
        cur = (node_id, fs)
        seen = set()
        while cur in self.parent and cur not in seen:
            seen.add(cur)
            p, pfs, label = self.parent[cur]
            out.append((p, label))
            cur = (p, pfs)
        out.reverse()
        return out

    def path_str(self, node_id, fs, maxlen=14):
        nodes = self.ex.cfg.nodes
        items = []
        for p, label in self.path(node_id, fs):
            n = nodes[p]
            if n.kind == 'cond':
                items.append('L%d[%s]=%s' % (n.lineno, unparse(n.ast)[:50], label[1] if isinstance(label, tuple) and label[0] == 'cond' else label))
            elif isinstance(label, tuple) and label[0] == 'exc':
                items.append('L%d raises' % n.lineno)
        if len(items) > maxlen:
            items = items[:4] + ['...'] + items[-(maxlen - 5):]
        return ' -> '.join(items)


class Explorer(object):
    def __init__(self, program, func):
        self.P = program
        self.func = func
        self.cfg = cfgmod.build(program, func)
        self.eff = Effects(program, func)
        self.tb = self.eff.tb
        self._edge_lit = {}
        self.immune = frozenset(program.wildcard_immune(func.owner_cls)) if func.owner_cls is not None else frozenset()

    def _rescue(self, fs, written, after):
        """facts about a compound term that mentions an overwritten value X survive when X had a surviving equal
        partner P: `end == X + n` with `X == P` becomes `end == P + n` (P is what X was before the write)"""
        wild = 'A:*' in written
        immune = self.immune

        def dead(t):
            return _dead(t.deps, written, wild, immune)
        partner = {}
        for l in fs:
            if l[0] == 'eq':
                for a, b in ((l[1], l[2]), (l[2], l[1])):
                    if dead(a) and not dead(b) and not b.volatile and (b.node is not None or b.const is not None) and a.key not in partner:
                        partner[a.key] = b
        if not partner:
            return after
        tb = self.tb
        import copy

        class Sub(ast.NodeTransformer):
            def __init__(self):
                self.changed = False

            def visit(self, n):
                if isinstance(n, ast.expr) and not isinstance(n, (ast.Constant,)):
                    try:
                        k = tb.term(n).key
                    except AnalysisError:
                        k = None
                    p_ = partner.get(k)
                    if p_ is not None:
                        self.changed = True
                        return copy.deepcopy(p_.node) if p_.node is not None else ast.Constant(value=p_.const[0])
                return self.generic_visit(n)
        extra = []
        for l in fs:
            if l in after or l[0] not in ('eq', 'le', 'lt', 'ne'):
                continue
            sides = [l[1], l[2]]
            ok = True
            for i in (0, 1):
                t = sides[i]
                if not dead(t):
                    continue
                if t.node is None or t.volatile:
                    ok = False
                    break
                sub = Sub()
                new = sub.generic_visit(copy.deepcopy(t.node))      # strict sub-terms only
                if not sub.changed:
                    ok = False
                    break
                nt = tb.term(new)
                if dead(nt) or nt.volatile:
                    ok = False
                    break
                sides[i] = nt
            if ok and sides[0].key != sides[1].key:
                extra.append((l[0], sides[0], sides[1]))
        if extra:
            return frozenset(after | set(extra))
        return after

    def edge_literal(self, node, pol):
        k = (node.id, pol)
        if k not in self._edge_lit:
            self._edge_lit[k] = self.tb.literal(node.ast, pol)
        return self._edge_lit[k]

    def run(self, start=None, init=frozenset(), avoid=(), follow_exc=True, max_states=800000, relevant=None,
            track=None, stop=()):
        """explore from `start` (node id; default function entry).  `avoid`: node ids not entered.
        `stop`: node ids that are recorded when reached but not expanded.
        `track`: optional fn(node) -> iterable of event names; every state then carries a sorted tuple of
        (event, count) pairs (counts capped at 2), available through Result.cstates."""
        cfg = self.cfg
        start = cfg.entry.id if start is None else start
        res = Result(self, start)
        res.cstates = {}
        avoid = set(avoid)
        stop = set(stop)
        init = frozenset(init)
        work = [(start, init, ())]
        res.states.setdefault(start, set()).add(init)
        res.cstates.setdefault(start, set()).add((init, ()))
        count = 0
        while work:
            nid, fs, cnt = work.pop()
            count += 1
            if count > max_states:
                raise AnalysisError('%s: state budget exceeded during path-sensitive exploration' % self.func.qualname)
            if nid in stop and nid != start:
                continue
            node = cfg.nodes[nid]
            written, gens = self.eff.of(node)
            after = kill(fs, written, self.immune)
            if written and after is not fs and not any(isinstance(p_, (ast.For, ast.While)) for p_ in node.parents):
                # (not inside loops: substituted terms would grow with every iteration)
                after = self._rescue(fs, written, after)
            inc = self.eff.increment_of(node)
            if inc is not None:
                # x += e / x = x + e: what was known to equal x before now equals x - e, i.e. x == t + e
                xt, op, et, wsyms = inc
                extra = []
                for l in fs:
                    if l[0] != 'eq':
                        continue
                    other = l[2] if l[1] == xt else (l[1] if l[2] == xt else None)
                    if other is None or other.volatile or (other.deps & wsyms) or other.node is None and other.const is None:
                        continue
                    on = other.node if other.node is not None else ast.Constant(value=other.const[0])
                    nt = self.tb.term(ast.BinOp(left=on, op=op, right=et.node))
                    extra.append(('eq', xt, nt))
                if extra:
                    after = frozenset(after | set(extra))
            if node.kind == 'stmt' and isinstance(node.ast, ast.Assign) and len(node.ast.targets) == 1 and isinstance(node.ast.targets[0], ast.Name) \
                    and isinstance(node.ast.value, ast.Name):
                # `a = b` with b known not to be None: a is not None either (kept when b is overwritten later)
                bt = self.tb.term(node.ast.value)
                if ('none', bt, False) in fs:
                    after = frozenset(after | {('none', self.tb.term(node.ast.targets[0]), False)})
            ncnt = cnt
            ncnt_exc = cnt
            if track is not None:
                evs = list(track(node))
                if evs:
                    d = dict(cnt)
                    for e in evs:
                        d[e] = min(2, d.get(e, 0) + 1)
                    ncnt = tuple(sorted(d.items()))
            for dst, label in node.succ:
                if dst in avoid:
                    continue
                is_exc = isinstance(label, tuple) and label[0] == 'exc'
                if is_exc and not follow_exc:
                    continue
                nf = after
                if not is_exc:
                    if gens:
                        nf = frozenset(nf | set(g for g in gens))
                    if isinstance(label, tuple) and label[0] == 'cond':
                        lit = self.edge_literal(node, label[1])
                        if lit is not None:
                            if lit in nf:
                                pass
                            else:
                                cand = nf | {lit}
                                if not _sat_relevant(cand, lit):
                                    res.edges_pruned += 1
                                    continue
                                nf = frozenset(cand)
                            # boolean alias: `flag = <comparison>` earlier, now `if flag:` -> the comparison itself
                            if lit[0] == 'truthy':
                                extra = None
                                for l in nf:
                                    if l[0] == 'eq':
                                        other = l[2] if l[1] == lit[1] else (l[1] if l[2] == lit[1] else None)
                                        if other is not None and isinstance(other.node, (ast.Compare,)) and not other.volatile:
                                            extra = self.tb.literal(other.node, lit[2])
                                if extra is not None and extra not in nf:
                                    cand = nf | {extra}
                                    if not _sat_relevant(cand, extra):
                                        res.edges_pruned += 1
                                        continue
                                    nf = frozenset(cand)
                if relevant is not None:
                    nf = frozenset(l for l in nf if relevant(l))
                c2 = ncnt_exc if is_exc else ncnt
                cst = res.cstates.setdefault(dst, set())
                if (nf, c2) in cst:
                    continue
                cst.add((nf, c2))
                res.states.setdefault(dst, set()).add(nf)
                if (dst, nf) not in res.parent:
                    res.parent[(dst, nf)] = (nid, fs, label)
                work.append((dst, nf, c2))
        res.n_states = count
        STATS['explorations'] += 1
        STATS['states_explored'] += count
        STATS['edges_pruned_infeasible'] += res.edges_pruned
        return res


def _sat_relevant(lits, new):
    """satisfiability restricted to the literals connected (through shared terms) to `new`"""
    def keys(l):
        ks = set()
        todo = list(oracle.lit_terms(l))
        while todo:
            t = todo.pop()
            ks.add(t.key)
            if t.base is not None:
                todo.append(t.base)
            todo.extend(t.sub)
        if l[0] == 'opaque':
            ks.add('\0op:' + l[1])
        return ks
    frontier = keys(new)
    chosen = {new}
    pool = [l for l in lits if l != new]
    changed = True
    while changed and pool:
        changed = False
        rest = []
        for l in pool:
            k = keys(l)
            if k & frontier:
                chosen.add(l)
                frontier |= k
                changed = True
            else:
                rest.append(l)
        pool = rest
    return oracle.sat(chosen)
