"""Property -> rules table (DESIGN 3) with the evidence texts."""

PROPS = {
    'C14': {
        'rules': ['R-attribution', 'R-drop-teardown', 'R-dial-order', 'R-send-connected'],
        'explanation': 'x', 'level_text': 'x', 'level_note': 'x', 'technique': 'x',
    },
    'C17': {
        'rules': ['R-id-order', 'R-name-format', 'R-setversion-guards', 'R-version-select', 'R-version-apply', 'R-apply-step', 'R-version-pairing', 'R-version-in-payload'],
        'explanation': 'x', 'level_text': 'x', 'level_note': 'x', 'technique': 'x',
    },
    'C19': {
        'rules': ['R-caller-footprint', 'R-queue-locked', 'R-result-publish', 'R-atomic-publish'],
        'explanation': 'x', 'level_text': 'x', 'level_note': 'x', 'technique': 'x',
    },
    'C15': {
        'rules': ['R-delegate-agree', 'R-counter-ops', 'R-queue-bound', 'R-consumer-state'],
        'explanation': 'x', 'level_text': 'x', 'level_note': 'x', 'technique': 'x',
    },
    'C16': {
        'rules': ['R-lock-guards', 'R-expiry-partition', 'R-late-acquire'],
        'explanation': 'x', 'level_text': 'x', 'level_note': 'x', 'technique': 'x',
    },
    'C11': {
        'rules': ['R-chunk-length', 'R-chunk-kinds', 'R-cmd-shapes', 'R-wire-schema', 'R-bounded-write'],
        'explanation': 'x', 'level_text': 'x', 'level_note': 'x', 'technique': 'x',
    },
    'C13': {
        'rules': ['R-header-agree', 'R-codec-inverse', 'R-length-range', 'R-decode-contained', 'R-consume-once', 'R-parser-state', 'R-write-fifo'],
        'explanation': 'x', 'level_text': 'x', 'level_note': 'x', 'technique': 'x',
    },
    'C09': {
        'rules': ['R-payload-complete', 'R-version-in-payload', 'R-no-field-leak', 'R-snapshot-point', 'R-dump-atomic', 'R-version-pairing', 'R-transfer-restart'],
        'explanation': 'x', 'level_text': 'x', 'level_note': 'x', 'technique': 'x',
    },
    'C06': {
        'rules': ['R-durable-before-ack', 'R-ack-after-store', 'R-dump-before-trim', 'R-restart-keeps-journal', 'R-log-owners', 'R-head-drop-atomic', 'R-write-then-publish'],
        'explanation': 'x', 'level_text': 'x', 'level_note': 'x', 'technique': 'x',
    },
    'C07': {
        'rules': ['R-vote-durable'],
        'explanation': 'x', 'level_text': 'x', 'level_note': 'x', 'technique': 'x',
    },
    'C08': {
        'rules': ['R-write-then-publish', 'R-record-layout', 'R-bounded-write', 'R-meta-atomic', 'R-head-drop-atomic', 'R-tail-drop-monotone', 'R-journal-siblings'],
        'explanation': 'x', 'level_text': 'x', 'level_note': 'x', 'technique': 'x',
    },
    'C05': {
        'rules': ['R-timer-reset', 'R-sender-total', 'R-reply-exhaustive', 'R-disposition'],
        'explanation': 'x', 'level_text': 'x', 'level_note': 'x', 'technique': 'x',
    },
    'C18': {
        'rules': ['R-majority', 'R-no-vote-without-address', 'R-observer-bookkeeping', 'R-selfnode-deref'],
        'explanation': 'x', 'level_text': 'x', 'level_note': 'x', 'technique': 'x',
    },
    'C20': {
        'rules': ['R-fallback-every-tick', 'R-response-time-writes', 'R-hasquorum', 'R-majority'],
        'explanation': 'x', 'level_text': 'x', 'level_note': 'x', 'technique': 'x',
    },
    'C10': {
        'rules': ['R-gate-live', 'R-rollback-paired', 'R-apply-on-append', 'R-removed-excluded'],
        'explanation': 'x', 'level_text': 'x', 'level_note': 'x', 'technique': 'x',
    },
    'C02': {
        'rules': ['R-cb-linear', 'R-success-guard', 'R-disposition', 'R-commit-subscription', 'R-request-id-unique', 'R-commit-gate'],
        'explanation': 'x', 'level_text': 'x', 'level_note': 'x', 'technique': 'x',
    },
    'C12': {
        'rules': ['R-user-exc-contained', 'R-apply-step'],
        'explanation': 'x', 'level_text': 'x', 'level_note': 'x', 'technique': 'x',
    },
    'C01': {
        'rules': ['R-apply-step', 'R-append-gate', 'R-commit-gate', 'R-truncate-on-conflict', 'R-log-owners', 'R-payload-complete'],
        'explanation': 'x', 'level_text': 'x', 'level_note': 'x', 'technique': 'x',
    },
    'C04': {
        'rules': ['R-commit-rule', 'R-match-writes', 'R-ack-after-store', 'R-truncate-on-conflict', 'R-commit-gate', 'R-majority'],
        'explanation': 'x', 'level_text': 'x', 'level_note': 'x', 'technique': 'x',
    },
    'C03': {
        'rules': ['R-vote-grant', 'R-term-vote-writes', 'R-majority', 'R-leader-entry', 'R-step-down'],
        'explanation': 'Static discharge of the local Raft election obligations on the parsed source: vote-grant guard '
                       'entailment by path-sensitive must-facts, write discipline of term/vote, strict-majority arithmetic '
                       'by small-domain evaluation, who may enter the LEADER state, step-down on newer terms.',
        'not_decided': ['the global counting argument (one leader per term follows from these local rules plus FIFO links)',
                        'vote duplication across restarts (C07)'],
        'level_text': 'Necessary local conditions of election safety are decided for every path of the handler and the tick '
                      '(guards entailed at the vote grant, term/vote write discipline, strict majority arithmetic, single '
                      'entry into LEADER). The global one-leader-per-term argument over all schedules is NOT decided.',
        'level_note': 'Trusts the analyser (CFG, fact engine, oracle) and the role binding; over-approximates control flow; '
                      'a broken local rule yields a concrete schedule that breaks the property, the converse does not hold.',
        'technique': 'static analysis: path-sensitive must-fact guard entailment on the CFG + small-domain evaluation of majority arithmetic',
    },
}

NOT_APPLICABLE = {}
for _i in range(1, 21):
    _p = 'C%02d' % _i
    if _p not in PROPS:
        NOT_APPLICABLE[_p] = 'static rules for this property are specified in DESIGN.md section 3 but not yet implemented in this snapshot'

