"""Property -> rules table (DESIGN.md section 3) with the texts that go to MANIFEST.json and the evidence files."""

_NOTE = ('Trusted base: CPython ast, the analyser in /verif/sa (CFG builder with exception edges, path-sensitive must-fact '
         'exploration, difference-constraint/congruence oracle, call resolution, role binding through public API names). '
         'Control flow is over-approximated; calls through user-supplied values are assumed not to write SyncObj state. '
         'Each rule is a necessary condition: breaking it yields a concrete schedule/input that breaks the property; '
         'satisfying all rules does not prove the behaviour as a whole.')


def _p(rules, decided, not_decided, technique, thorough_rules=()):
    return {
        'rules': list(rules),
        'thorough_rules': list(thorough_rules),
        'explanation': 'Static rule discharge on the parsed source of /repo/pysyncobj (nothing is imported or executed). Decided: ' + decided,
        'not_decided': list(not_decided),
        'level_text': 'Decides, for every path of the code, these structural necessary conditions of the property: ' + decided +
                      ' NOT decided (stays with other techniques): ' + '; '.join(not_decided) + '.',
        'level_note': _NOTE,
        'technique': 'static analysis: ' + technique,
    }


PROPS = {
    'C01': _p(['R-apply-step', 'R-append-gate', 'R-commit-gate', 'R-truncate-on-conflict', 'R-log-owners', 'R-leader-append-position', 'R-sender-prev-adjacent', 'R-commit-rule', 'R-match-writes', 'R-payload-complete', 'R-owners-log', 'L-undefined-name'],
              'apply-loop step discipline (exactly one advance per dispatched entry, batch bounded by the commit index); received entries stored '
              'only behind the log-matching gate; follower commit index raised only on a verified path and never past what the message verified; '
              'truncation only on a stored-vs-received conflict; who may truncate/clear/trim the log; snapshot payload positions agree between writer and loader.'
              ' Also: the index up to which a message is taken to have verified the log is derived from the message, never from the own log end; the journal head is dropped exactly up to the position the finished dump covers; log, applied / commit / match / next index are written only by their protocol owners.',
              ['agreement of two nodes under all schedules (global argument over interleavings, nextIndex/matchIndex dynamics, snapshot timing)'],
              'CFG reachability with obligation nodes removed (must-pass-through), path-sensitive must-facts, who-may-call'),
    'C02': _p(['R-cb-linear', 'R-success-guard', 'R-disposition', 'R-commit-subscription', 'R-request-id-unique', 'R-commit-gate', 'R-owners-callbacks', 'L-undefined-name', 'R-err-helper-delivers', 'L-none-call'],
              'callback linearity (a callback taken from the queue or a waiting table is consumed exactly once on every path); SUCCESS only under '
              'stored-term == applied-term with the dispatch result of that entry; exactly one disposition (append / forward / error) per dequeued command; '
              'a callback waits at exactly the (index, term) its command was appended with; request ids never reused.'
              " Also: QUEUE_FULL is reported only from a handler that catches nothing but the queue's Full; the two callback tables are written only by the drain, the handler, the apply step and the leader-change sweep (a local alias of a table is recognised, rebinding it is not a reset).",
              ['that a SUCCESS-reported command is never undone later (global, see C04)', 'timeouts'],
              'linear typestate by event counting over path-sensitive CFG exploration, guard entailment, def-use'),
    'C03': _p(['R-vote-grant', 'R-term-vote-writes', 'R-majority', 'R-leader-entry', 'R-step-down', 'R-leader-append-position', 'R-match-writes', 'R-tally-reset', 'R-owners-election', 'L-undefined-name', 'R-state-before-notify'],
              'the five Raft vote-grant conditions are entailed at the grant; term only grows and the vote is reset only with a term change; every majority '
              'test is a strict majority of voters+self over the voter set; LEADER is entered only behind a majority test as CANDIDATE of the current term; '
              'newer terms / accepted append_entries lead to FOLLOWER.'
              ' Also: every candidacy resets the vote tally to 1; term, vote, state, tally, election deadline and leader pointer are written only by their owners.',
              ['the global counting argument (one leader per term follows from these local rules plus FIFO links)', 'vote duplication across restarts (C07)'],
              'path-sensitive must-fact guard entailment, small-domain evaluation of extracted majority arithmetic'),
    'C04': _p(['R-commit-rule', 'R-match-writes', 'R-ack-after-store', 'R-truncate-on-conflict', 'R-commit-gate', 'R-leader-append-position', 'R-sender-prev-adjacent', 'R-applied-monotone', 'R-majority', 'R-rollback-paired', 'R-owners-log', 'L-undefined-name'],
              'leader commits only an index stored on a strict majority of voters whose entry has the current term; matchIndex only raised for a successful reply, '
              'upwards, to the acknowledged index; positive acknowledgement only after gate + store (or completed install) with a recognised index; truncation only on '
              'conflict; follower commit only on verified paths, monotone and bounded by the leader commit.'
              ' Also: membership entries rolled back before a truncation are exactly the deleted ones; the verified index comes from the message; state ownership.',
              ['Log Matching as a global invariant'],
              'must-facts with alias/congruence closure, CFG dominance, small-domain arithmetic'),
    'C05': _p(['R-timer-reset', 'R-heartbeat', 'R-vote-refusal-justified', 'R-sender-total', 'R-chunk-length', 'R-reply-exhaustive', 'R-disposition', 'R-serializer-idle', 'R-hint-floor', 'R-owners-election', 'L-undefined-name', 'L-none-call'],
              'progress obligations only: election deadline re-armed by accepted append_entries / grant / candidacy and candidacy guarded by the deadline; every '
              'iteration of the per-follower send loop sends; next index moved past a finished snapshot; every (reset, success) reply combination is acted on and refreshes '
              'the response time; no dequeued command is dropped silently.'
              ' Also: the serializer leaves its busy state whenever it reports a finished dump; a failure hint lowered below the received position stays above the first stored index.',
              ['convergence itself: leader election within bounded timeouts, catch-up, equality of replicas (liveness in virtual time)'],
              'CFG reachability (wedge detection), reply-combination table agreement'),
    'C06': _p(['R-durable-before-ack', 'R-ack-after-store', 'R-dump-before-trim', 'R-restart-keeps-journal', 'R-log-owners', 'R-head-drop-atomic', 'R-write-then-publish', 'R-tail-drop-monotone', 'R-offset-coherent', 'R-commit-persisted-value', 'R-dump-atomic', 'L-undefined-name', 'R-commit-index-setter-only'],
              'positive ack only after the journal add that reaches the file write and publish; serializer SUCCESS (which triggers the trim) only after the atomic rename / clean '
              'child exit; at start-up the journal is replaced only when it does not contain the dump position and a kept journal is trimmed exactly to it; head drop atomicity.'
              ' Also: the in-memory and the published end offset of the file journal agree at every record write and at every return; the head drop goes to the dumped position; distinct temporary names for own dump and incoming transfer; no journal operation sets the stored commit index.',
              ['equality of the rebuilt object with a replay of the committed prefix', 'kill points inside mmap stores'],
              'ordering rules on CFGs (dominance / must-pass-through), call-graph reachability to the durability point, guard-shape recogniser'),
    'C07': _p(['R-vote-durable'],
              'whether currentTerm and votedFor ever reach durable storage before a vote leaves the node and are reloaded at start (decided negatively on this tree: known finding).',
              ['nothing further: the mechanism the property needs is structurally absent'],
              'def-use / effect analysis from vote events to durable sinks'),
    'C08': _p(['R-write-then-publish', 'R-record-layout', 'R-bounded-write', 'R-meta-atomic', 'R-head-drop-atomic', 'R-tail-drop-monotone', 'R-offset-coherent', 'R-journal-siblings', 'L-undefined-name', 'R-commit-index-setter-only'],
              'record write precedes publish and the published offset is the running end; reader / writer / tail-drop byte layout constants agree with the struct formats; '
              'mmap store only when offset+size <= capacity is established; .meta only replaced via tmp+move; tail drop walks backwards, counts before cutting the mirror, '
              'stores and publishes the final offset; sibling journals implement the same interface and every mutator updates mirror and file.'
              ' Also: in-memory / published end offset coherence for every operation, and the publish helper skips the header write only against a cache primed from the file; the stored commit index changes only through its setter; the reopening reader never stops at a record size the writer can produce (empty command included); an early return of the head drop agrees with the list model; a failed in-place resize is made up for by growing and re-mapping the file.',
              ['equality with an in-memory list for all operation sequences (byte-level round trip)', 'head drop kill-safety (known finding)'],
              'ordering on CFGs, must-facts for the bounded write, table agreement against struct.calcsize, sibling cross-check'),
    'C09': _p(['R-payload-complete', 'R-version-in-payload', 'R-no-field-leak', 'R-snapshot-point', 'R-dump-atomic', 'R-version-pairing', 'R-transfer-restart', 'R-transfer-flags', 'R-dump-before-trim', 'R-serializer-idle', 'L-undefined-name', 'R-consumer-payload', 'R-fork-child-exits'],
              'payload components and the positions the loader reads them from; enabled version inside the payload in every serializer mode; no internal attribute leaks into the payload; '
              'no apply between fixing the position and serializing; dump only ever renamed into place; name table rebuilt for the enabled version; interrupted transfers restart.'
              ' Also: the member component of the payload contains the writing node; checkSerializing resets the busy marker whenever it reports SUCCESS / FAILED; temporary dump names of different writers differ after resolving attributes bound in __init__.',
              ['pickle round-trip equality of user state', 'chunk reassembly under every interruption pattern'],
              'writer/reader table agreement, attribute def-order analysis, CFG reachability, call-graph reachability'),
    'C10': _p(['R-gate-live', 'R-rollback-paired', 'R-apply-on-append', 'R-removed-excluded', 'R-owners-membership', 'R-payload-complete', 'L-undefined-name'],
              'the leader-side gate is live (pending marker set to the index of every appended membership entry, cleared only once applied, both gates dominate the mutation); '
              'truncation preceded by the reverse rollback of the same slice; snapshot adoption restores the member set; refused changes are not appended and stored ones are '
              'applied on followers; add/remove perform all their bookkeeping effects.'
              ' Also: with dynamic membership on, no path after storing entries avoids the membership scan (read-only nodes included); restoring from a snapshot installs the given set; the snapshot member set contains its writer; voter / observer / connected sets and the pending marker have fixed owners.',
              ['quorum-overlap safety under interleavings (follows from the gate + C03/C04 by a paper argument)', 'operator discipline clauses'],
              'dead-guard / def-use analysis, path-sensitive reachability with obligation nodes removed, effect multiset per path',
              thorough_rules=['L-dead-guard']),
    'C11': _p(['R-chunk-length', 'R-chunk-kinds', 'R-cmd-shapes', 'R-wire-schema', 'R-bounded-write', 'R-read-ungated', 'L-undefined-name', 'R-owners-chunk-buffer'],
              'the chunk classifier uses the length of the sliced sequence and yields start, process*, finish for every size; sender kinds = receiver kinds with the right buffer effect '
              'per kind; command pack/unpack shapes agree and reserved keywords are removed before pickling; every key the handler reads is written by every consistent sender; journal write bounded.'
              ' Also: socket reads are never gated on the amount already buffered (a frame may exceed any buffer size); every first / middle chunk is acknowledged before the handler returns; the chunk buffer is written by the handler only.',
              ['equality of pickled arguments after transport (round trip)', 'exact batch arithmetic of __getEntries'],
              'small-domain evaluation of the extracted classifier, path-sensitive effect sequences, wire-schema agreement under must-facts'),
    'C12': _p(['R-user-exc-contained', 'R-apply-step', 'L-undefined-name'],
              'whether an exception of user code can leave the apply step (known finding on this tree), and that no handler continues with the next entry without advancing.',
              ['equality of replicas afterwards (determinism of user code)'],
              'exception-edge reachability on the CFG of the apply step and dispatcher'),
    'C13': _p(['R-header-agree', 'R-codec-inverse', 'R-length-range', 'R-length-symmetry', 'R-decode-contained', 'R-consume-once', 'R-parser-state', 'R-write-fifo', 'R-disconnect-idempotent', 'R-read-ungated', 'L-undefined-name'],
              'header format and literal sizes agree; receive pipeline is the reversed inverse of the send pipeline; received length bounded below and by the buffered bytes before use; '
              'decode errors contained => disconnect without consuming; buffer advanced exactly once per delivered frame by header+length; parser keeps no state but the buffer; '
              'write buffer is appended whole frames and trimmed by the sent prefix.'
              ' Also: reads are not gated on the buffered amount; every raising step on data derived from the payload is inside the catch-all; the end of the buffered frames is decided by identity with None; a positive send count always trims the write buffer (no prefix is sent twice).',
              ['behaviour of the kernel socket layer', '"for all fragmentations" as such (follows from R-parser-state: delivery is a function of the byte stream)'],
              'must-facts on slice bounds, exception-edge containment, event counting per path, table agreement with struct.calcsize'),
    'C14': _p(['R-attribution', 'R-drop-teardown', 'R-dial-order', 'R-send-connected', 'R-silent-timeout', 'R-reconnect-wiring', 'R-disconnect-idempotent', 'R-readonly-id-unique', 'R-disc-attribution', 'R-established-checked', 'L-undefined-name', 'R-callback-wiring', 'L-none-call', 'R-connecting-registered', 'R-interval-clock'],
              'attribution only: delivery callback bound only after the peer named a known member or "readonly", bound node taken from the member table; dropNode tears down registry, '
              'member set, address table and connection; exactly one endpoint dials and only without a live connection; send only to a registered CONNECTED connection.'
              ' Also: a lost connection is attributed to a member only by comparing the registry entries with the connection object; CONNECTED is entered only behind a clear SO_ERROR; CONNECTING is never left behind without a poller subscription; retry and silence intervals are measured on the monotonic clock; every read event refreshes the silence stamp; a recognised member is never refused its new connection.',
              ['reconnection within bounded time', 'half-open connection handling', 'accuracy of connect/disconnect notifications under fault sequences'],
              'must-fact guard entailment, effect multiset per path'),
    'C15': _p(['R-delegate-agree', 'R-counter-ops', 'R-queue-bound', 'R-consumer-state', 'R-cmd-shapes', 'R-none-is-a-value', 'R-heap-discipline', 'L-undefined-name', 'R-consumer-payload', 'R-reset-replaces', 'R-deterministic-ops'],
              'every delegating battery method agrees with the builtin it forwards to (operation, parameter order, defaults, returned value; documented deviations tabled); counter arithmetic; '
              'bounded queues insert only below the bound, report acceptance truthfully, remove in queue order; battery state is created where it gets serialised.'
              ' Also: no wrapper decides absence of a key from a None lookup result (None is a value); a wrapper named like a builtin operation passes every parameter to it; reset() replaces the container; no replicated operation delegates to a builtin whose result depends on the hash-table layout (finding D22: ReplSet.pop).',
              ['behavioural equivalence over operation sequences for the non-delegating methods', 'equality of replicas'],
              'signature-table agreement (cross-checked with inspect.signature of builtins), guard entailment'),
    'C16': _p(['R-lock-guards', 'R-expiry-partition', 'R-late-acquire', 'L-undefined-name', 'L-none-call', 'R-lock-client-identity'],
              'lock table transitions happen only under their guards; holder view and taker views of expiry are disjoint over (d<U, d=U, d>U); both acquisition paths apply the same '
              'late-acquire test, report failure and release; prolongation period at most half the auto-unlock time.'
              ' Also: after the "too late" test every path releases the lock and reports False, and both ends of the elapsed time come from the same clock; isAcquired is analysed also when written as one boolean return; every lock-table call gets a clock read as the current time; the default client id holds process and object id.',
              ['exclusion under commit delay with unsynchronised clocks', 'eventual obtainability under partitions'],
              'guard entailment, comparator partition over a three-point domain, sibling agreement'),
    'C17': _p(['R-id-order', 'R-name-format', 'R-setversion-guards', 'R-version-select', 'R-version-apply', 'R-apply-step', 'R-version-pairing', 'R-version-in-payload', 'R-enumeration-siblings', 'L-undefined-name'],
              'ids assigned in sorted (version, consumer ordinal, name) order, consecutively, tables written only by the constructor; registration and lookup names share one format; '
              'setCodeVersion guards; resolver picks the newest version <= requested; VERSION apply refuses unsupported versions before switching and stops the batch; name table paired with the '
              'enabled version; enabled version carried by snapshots.'
              ' Also: every (wildcard) store of the enabled version reaches a rebuild of the name table on all normal paths; own and consumer methods are selected for id assignment by the same filter.',
              ['compatibility of old and new user code'],
              'def-use on sort keys, expression-shape agreement, guard entailment'),
    'C18': _p(['R-majority', 'R-no-vote-without-address', 'R-observer-bookkeeping', 'R-readonly-id-unique', 'R-selfnode-deref', 'R-apply-on-append', 'R-owners-membership', 'R-sender-total', 'L-undefined-name', 'R-callback-wiring', 'L-none-call', 'R-leader-change-notified', 'R-payload-complete'],
              'all majorities measure and count the voter set only; no candidacy or vote without an own address, vote requests to voters only, observers only receive append_entries; '
              'observer connect/disconnect touch only observer bookkeeping; no unguarded dereference of the (possibly absent) own node in tick-reachable code.'
              ' Also: read-only nodes apply stored membership entries like voters do; voter / observer / connected sets have fixed owners; a node (read-only ones never time out themselves) that adopts another leader has swept the requests waiting for the old one.',
              ['convergence of observers (C05-like)'],
              'small-domain evaluation, effect summaries (footprints), None-dereference contradiction rule with must-facts'),
    'C19': _p(['R-caller-footprint', 'R-queue-locked', 'R-result-publish', 'R-atomic-publish', 'L-undefined-name', 'R-leader-change-notified'],
              'caller-thread code writes only the locked queue / wake-up pipe; every deque and tick-callback access is under its lock; result stored before the event is set, read only after the wait, '
              'per-call result object, timed-out or failed waits raise; caller-read tables are published by one assignment of a fully built value.'
              ' Also: a forwarded call cannot be left waiting for ever by a leader change (the waiting-reply table is swept before another leader is adopted).',
              ['exactly-once application under all thread interleavings (C02 global part)'],
              'ownership/effect analysis with two thread roots, lock-scope check, CFG dominance'),
    'C20': _p(['R-fallback-every-tick', 'R-response-time-writes', 'R-hasquorum', 'R-majority', 'R-owners-liveness', 'L-undefined-name', 'R-state-before-notify'],
              'a leader reaches the fallback test on every tick; responders counted iff they answered within leaderFallbackTimeout over the voter set; failing arm => FOLLOWER and no leader; '
              'response times refreshed only by replies received as leader; hasQuorum equals strict majority of connected voters (+self) for n=0..8.'
              ' Also: a connection event never refreshes the response table; a voter without an entry never counts as recent; the table has fixed owners; a majority threshold kept in an attribute is recomputed wherever the voter set changes; the fallback deadline is now minus the configured timeout itself; the state setter stores the state before it notifies.',
              ['the time bound itself', '"no SUCCESS while cut off"'],
              'CFG reachability, small-domain evaluation by a mini interpreter over the extracted property body'),
}

NOT_APPLICABLE = {}
