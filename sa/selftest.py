"""Self-validation of the checker (DESIGN 2.6) -- not a property check.

Every variant is a single textual edit of the *current* /repo/pysyncobj sources written to a scratch copy
in a temp dir (outside /repo and /verif, removed immediately).  Two families:
  * 'break'    -- the edit violates a property; the named rule must fire and name the construct;
  * 'preserve' -- a behaviour-preserving refactoring; every check must stay silent.
A variant whose anchor text is not present in the edited tree is skipped, never an alarm.
"""
import json
import os
import re
import shutil
import subprocess
import sys
import tempfile
import time
from concurrent.futures import ThreadPoolExecutor

VERIF = os.path.dirname(os.path.dirname(os.path.abspath(__file__)))


def load_variants():
    sys.path.insert(0, os.path.join(VERIF, 'selftest'))
    import variants
    return variants.VARIANTS


def apply_variant(v, repo, dst):
    shutil.copytree(os.path.join(repo, 'pysyncobj'), os.path.join(dst, 'pysyncobj'))
    applied = 0
    for fn, find, repl in v['edits']:
        p = os.path.join(dst, 'pysyncobj', fn)
        with open(p) as f:
            s = f.read()
        if v.get('regex'):
            s2, n = re.subn(find, repl, s)
        else:
            n = s.count(find)
            s2 = s.replace(find, repl)
        if n == 0:
            return False
        applied += n
        with open(p, 'w') as f:
            f.write(s2)
    # the edited tree must still compile
    for fn in set(e[0] for e in v['edits']):
        p = os.path.join(dst, 'pysyncobj', fn)
        try:
            compile(open(p).read(), p, 'exec')
        except SyntaxError as e:
            raise RuntimeError('variant %s does not compile: %s' % (v['id'], e))
    return True


def load_twins():
    """independently written behaviour-preserving refactorings (selftest/twins/*.diff, each passed the full test suite):
    treated like 'preserve' variants, applied with patch(1); one that no longer applies is skipped"""
    d = os.path.join(VERIF, 'selftest', 'twins')
    out = []
    if os.path.isdir(d):
        for fn in sorted(os.listdir(d)):
            if fn.endswith('.diff'):
                out.append({'id': 'T-' + fn[:-5], 'kind': 'preserve', 'patch': os.path.join(d, fn)})
    return out


def apply_patch_variant(v, repo, dst):
    shutil.copytree(os.path.join(repo, 'pysyncobj'), os.path.join(dst, 'pysyncobj'))
    r = subprocess.run(['patch', '-p1', '-s', '--no-backup-if-mismatch', '-i', v['patch']], cwd=dst, capture_output=True, text=True)
    return r.returncode == 0


def run_variant(v, repo, props):
    tmp = tempfile.mkdtemp(prefix='sa_selftest_')
    try:
        if not (apply_patch_variant(v, repo, tmp) if 'patch' in v else apply_variant(v, repo, tmp)):
            return v, 'skipped', {}, {}
        env = dict(os.environ, VERIF_EVIDENCE_DIR=os.path.join(tmp, 'ev'), VERIF_TIER='quick')
        fired = {}
        errors = {}
        for pid in props:
            r = subprocess.run([os.path.join(VERIF, 'check'), pid, '--tier', 'quick', '--repo', tmp], capture_output=True, text=True, env=env)
            if r.returncode == 1:
                fired[pid] = [l[8:] for l in r.stdout.splitlines() if l.startswith('FINDING ')]
            elif r.returncode != 0:
                errors[pid] = [l for l in r.stdout.splitlines() if 'ANALYSIS-ERROR' in l][:1]
        return v, 'ran', fired, errors
    finally:
        shutil.rmtree(tmp, ignore_errors=True)


def run(repo, only_props=None, only_ids=None, jobs=16):
    from sa.props import PROPS
    variants = list(load_variants()) + load_twins()
    work = []
    for v in variants:
        if only_ids and v['id'] not in only_ids:
            continue
        if v['kind'] == 'break':
            props = v['props']
            if only_props and not (set(props) & set(only_props)):
                continue
            if only_props:
                props = [p for p in props if p in only_props]
        else:
            props = sorted(only_props) if only_props else sorted(PROPS)
        work.append((v, props))
    with ThreadPoolExecutor(max_workers=jobs) as ex:
        results = list(ex.map(lambda w: run_variant(w[0], repo, w[1]), work))
    killed = missed = skipped = fa = quiet = errs = 0
    lines = []
    missed_ids = []
    fa_ids = []
    for v, status, fired, errors in results:
        if status == 'skipped':
            skipped += 1
            lines.append('selftest %-34s SKIPPED (anchor text not in this tree)' % v['id'])
            continue
        if v['kind'] == 'break':
            rules = set(f.split()[0] for fl in fired.values() for f in fl)
            if v['rule'] in rules:
                killed += 1
                lines.append('selftest %-34s killed by %s (%s)' % (v['id'], v['rule'], ','.join(sorted(fired))))
            else:
                missed += 1
                missed_ids.append(v['id'])
                lines.append('selftest %-34s MISSED: expected %s, fired %s, errors %s' % (v['id'], v['rule'], sorted(rules), errors))
        else:
            if fired:
                fa += 1
                fa_ids.append(v['id'])
                lines.append('selftest %-34s FALSE ALARM on a behaviour-preserving edit: %s' % (v['id'], {k: [x[:160] for x in fl[:2]] for k, fl in fired.items()}))
            elif errors:
                errs += 1
                lines.append('selftest %-34s analysis-error (anchor moved by the refactoring): %s' % (v['id'], errors))
            else:
                quiet += 1
                lines.append('selftest %-34s silent (ok)' % v['id'])
    summary = {
        'selftest_variants_break_applicable': killed + missed,
        'selftest_variants_killed': killed,
        'selftest_missed_required': missed_ids,
        'selftest_refactorings_applicable': fa + quiet + errs,
        'selftest_refactorings_silent': quiet,
        'selftest_refactorings_anchor_lost': errs,
        'selftest_false_alarms': fa_ids,
        'selftest_skipped': skipped,
    }
    return summary, lines


def seeded_for(prop_id):
    out = []
    d = os.path.join(VERIF, 'seeded')
    if not os.path.isdir(d):
        return out
    for name in sorted(os.listdir(d)):
        mp = os.path.join(d, name, 'meta.json')
        pp = os.path.join(d, name, 'patch.diff')
        if os.path.exists(mp) and os.path.exists(pp):
            try:
                meta = json.load(open(mp))
            except Exception:
                continue
            if meta.get('breaks_property') == prop_id:
                out.append((name, pp))
    return out


def run_seeded(name, patch, repo, prop_id):
    tmp = tempfile.mkdtemp(prefix='sa_seeded_')
    try:
        shutil.copytree(os.path.join(repo, 'pysyncobj'), os.path.join(tmp, 'pysyncobj'))
        r = subprocess.run(['patch', '-p1', '-s', '-i', patch], cwd=tmp, capture_output=True, text=True)
        if r.returncode != 0:
            return name, 'skipped'
        env = dict(os.environ, VERIF_EVIDENCE_DIR=os.path.join(tmp, 'ev'), VERIF_TIER='quick')
        r = subprocess.run([os.path.join(VERIF, 'check'), prop_id, '--tier', 'quick', '--repo', tmp], capture_output=True, text=True, env=env)
        return name, ('killed' if r.returncode == 1 else ('error' if r.returncode else 'missed'))
    finally:
        shutil.rmtree(tmp, ignore_errors=True)


def run_for_property(prop_id, repo, seed):
    summary, lines = run(repo, only_props=[prop_id])
    seeded = seeded_for(prop_id)
    with ThreadPoolExecutor(max_workers=8) as ex:
        res = list(ex.map(lambda s_: run_seeded(s_[0], s_[1], repo, prop_id), seeded))
    summary['seeded_changes_applicable'] = len([r for r in res if r[1] != 'skipped'])
    summary['seeded_changes_detected'] = len([r for r in res if r[1] == 'killed'])
    for name, st in res:
        lines.append('seeded   %-34s %s' % (name, st))
        if st in ('missed', 'error'):
            summary.setdefault('selftest_missed_required', []).append('seeded:' + name)
    summary['_lines'] = lines
    return summary


def main(repo, seed, args):
    t0 = time.time()
    only = [a for a in args if not a.startswith('--')] or None
    summary, lines = run(repo, only_ids=only)
    print('\n'.join(lines))
    print(json.dumps(summary, indent=1))
    print('selftest wall %.1fs' % (time.time() - t0))
    return 1 if (summary['selftest_false_alarms'] or summary['selftest_missed_required']) else 0
