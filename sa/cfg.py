"""Per-function control-flow graph over the statement kinds the package uses
(DESIGN 2.3).  Short-circuit conditions are split into atomic decision nodes, so
every conditional edge carries exactly one atomic condition and a polarity.
Fails closed (AnalysisError) on statement kinds it does not know."""
import ast
from .pyir import AnalysisError
from .inline import InlineBlock, InlineReturn

CATCH_ALL = {'Exception', 'BaseException'}


class Node(object):
    __slots__ = ('id', 'kind', 'ast', 'lineno', 'succ', 'pred', 'parents', 'extra')

    def __init__(self, id, kind, astnode, parents):
        self.id = id
        self.kind = kind     # entry | exit | raise | stmt | cond | loop | iter | with | handler | def
        self.ast = astnode
        self.lineno = getattr(astnode, 'lineno', 0) if astnode is not None else 0
        self.succ = []       # (dst id, label)
        self.pred = []       # (src id, label)
        self.parents = parents
        self.extra = None

    def __repr__(self):
        return 'N%d<%s L%d>' % (self.id, self.kind, self.lineno)


class CFG(object):
    def __init__(self, func, program=None):
        self.func = func
        self.program = program
        self.nodes = []
        self._parents = ()
        self._loops = []      # (loop node id, break sink list)
        self._tries = []      # dict(handlers=[(node, names)], catch_all=bool, finalbody=None|list)
        self._inlines = []    # (sink list, try depth) of the enclosing inlined helper bodies
        self.entry = self._new('entry', None)
        self.exit = self._new('exit', None)
        self.raise_exit = self._new('raise', None)
        outs = self._seq(func.node.body, [(self.entry.id, None)])
        self._connect(outs, self.exit.id)

    # ------------------------------------------------------------ helpers
    def _new(self, kind, astnode):
        n = Node(len(self.nodes), kind, astnode, self._parents)
        self.nodes.append(n)
        return n

    def _edge(self, src, dst, label):
        self.nodes[src].succ.append((dst, label))
        self.nodes[dst].pred.append((src, label))

    def _connect(self, ins, dst):
        for src, label in ins:
            self._edge(src, dst, label)

    @staticmethod
    def may_raise(astnode):
        if astnode is None:
            return False
        for n in ast.walk(astnode):
            if isinstance(n, (ast.Call, ast.Subscript, ast.Raise, ast.Starred)):
                return True
            if isinstance(n, ast.Assign) and any(isinstance(t, (ast.Tuple, ast.List)) for t in n.targets) and not isinstance(n.value, (ast.Tuple, ast.List)):
                return True         # unpacking a value of unknown shape (ValueError / TypeError)
            if isinstance(n, (ast.FunctionDef, ast.Lambda)) and n is not astnode:
                continue
        return False

    def _class_bases(self, tname):
        out = {tname}
        if self.program is not None and tname in self.program.classes:
            for c in self.program.mro(self.program.classes[tname]):
                out.add(c.name)
                out.update(c.bases)
        return out

    def _exc_edges(self, src, tname='*'):
        """route an exception raised at node `src` to the enclosing handlers / function exit"""
        i = len(self._tries) - 1
        self._route_exc(src, tname, i)

    def _route_exc(self, src, tname, level):
        while level >= 0:
            t = self._tries[level]
            if t.get('in_handlers'):
                # raising inside a handler/else of this try: its own handlers do not apply
                if t['finalbody']:
                    fin_outs = self._finally_copy(t, level, 'exc', [(src, ('exc', tname))])
                    # after the finally body the exception continues outward
                    for s, _ in fin_outs:
                        self._route_exc(s, tname, level - 1)
                    return
                level -= 1
                continue
            caught_for_sure = False
            for hnode, names in t['handlers']:
                if tname == '*':
                    self._edge(src, hnode.id, ('exc', tname))
                    if names is None or (names & CATCH_ALL):
                        caught_for_sure = True
                        break
                else:
                    bases = self._class_bases(tname)
                    if names is None or (names & CATCH_ALL) or (names & bases):
                        self._edge(src, hnode.id, ('exc', tname))
                        caught_for_sure = True
                        break
            if caught_for_sure:
                return
            if t['finalbody']:
                fin_outs = self._finally_copy(t, level, 'exc', [(src, ('exc', tname))])
                for s, _ in fin_outs:
                    self._route_exc(s, tname, level - 1)
                return
            level -= 1
        self._edge(src, self.raise_exit.id, ('exc', tname))

    def _finally_copy(self, t, level, why, ins):
        saved_tries = self._tries
        self._tries = self._tries[:level]
        saved_parents = self._parents
        try:
            outs = self._seq(t['finalbody'], ins)
        finally:
            self._tries = saved_tries
            self._parents = saved_parents
        return outs

    # ------------------------------------------------------------ statements
    def _seq(self, stmts, ins):
        for st in stmts:
            ins = self._stmt(st, ins)
        return ins

    def _simple(self, st, ins, kind='stmt'):
        n = self._new(kind, st)
        self._connect(ins, n.id)
        if self.may_raise(st):
            self._exc_edges(n.id)
        return n

    def _stmt(self, st, ins):
        if isinstance(st, ast.Assign) and isinstance(st.value, ast.IfExp):
            # `x = a if c else b` is a branch: decide c, then assign on each arm (the arms keep a reference to the statement)
            t, f = self._cond(st.value.test, ins, st)
            outs = []
            for arm_ins, val in ((t, st.value.body), (f, st.value.orelse)):
                a = ast.Assign(targets=st.targets, value=val)
                ast.copy_location(a, st)
                a.lineno = getattr(st, 'lineno', 0)
                outs += self._stmt(a, arm_ins) if isinstance(val, ast.IfExp) else [(self._simple(a, arm_ins).id, None)]
                self.nodes[outs[-1][0]].extra = st
            return outs
        if isinstance(st, (ast.Assign, ast.AugAssign, ast.AnnAssign, ast.Expr, ast.Delete, ast.Pass,
                           ast.Import, ast.ImportFrom, ast.Global, ast.Nonlocal)):
            n = self._simple(st, ins)
            return [(n.id, None)]
        if isinstance(st, (ast.FunctionDef, ast.ClassDef)):
            n = self._new('def', st)
            self._connect(ins, n.id)
            return [(n.id, None)]
        if isinstance(st, ast.Return):
            n = self._simple(st, ins)
            self._route_return(n.id)
            return []
        if isinstance(st, ast.Raise):
            n = self._new('stmt', st)
            self._connect(ins, n.id)
            tname = '*'
            e = st.exc
            if isinstance(e, ast.Call):
                e = e.func
            if isinstance(e, ast.Name):
                tname = e.id
            elif isinstance(e, ast.Attribute):
                tname = e.attr
            self._exc_edges(n.id, tname)
            return []
        if isinstance(st, ast.Assert):
            t, f = self._cond(st.test, ins, st)
            for src, label in f:
                # failing assert raises
                n = self._new('stmt', st)
                self._edge(src, n.id, label)
                self._exc_edges(n.id, 'AssertionError')
            return t
        if isinstance(st, ast.If):
            t, f = self._cond(st.test, ins, st)
            self._push_parent(st)
            o1 = self._seq(st.body, t)
            o2 = self._seq(st.orelse, f)
            self._pop_parent()
            return o1 + o2
        if isinstance(st, ast.While):
            head = self._new('loop', st)
            self._connect(ins, head.id)
            self._push_parent(st)
            const_true = isinstance(st.test, ast.Constant) and bool(st.test.value)
            if const_true:
                t, f = [(head.id, None)], []
            else:
                t, f = self._cond(st.test, [(head.id, None)], st)
            breaks = []
            self._loops.append((head.id, breaks))
            body_outs = self._seq(st.body, t)
            self._loops.pop()
            self._connect(body_outs, head.id)
            outs = self._seq(st.orelse, f)
            self._pop_parent()
            return outs + breaks
        if isinstance(st, ast.For):
            head = self._new('iter', st)
            self._connect(ins, head.id)
            if self.may_raise(st.iter):
                self._exc_edges(head.id)
            self._push_parent(st)
            breaks = []
            self._loops.append((head.id, breaks))
            body_outs = self._seq(st.body, [(head.id, 'iter')])
            self._loops.pop()
            self._connect(body_outs, head.id)
            outs = self._seq(st.orelse, [(head.id, 'done')])
            self._pop_parent()
            return outs + breaks
        if isinstance(st, ast.Break):
            n = self._new('stmt', st)
            self._connect(ins, n.id)
            if not self._loops:
                raise AnalysisError('break outside loop')
            self._check_no_finally_between_loop(st)
            self._loops[-1][1].append((n.id, None))
            return []
        if isinstance(st, ast.Continue):
            n = self._new('stmt', st)
            self._connect(ins, n.id)
            self._check_no_finally_between_loop(st)
            self._edge(n.id, self._loops[-1][0], None)
            return []
        if isinstance(st, ast.With):
            n = self._new('with', st)
            self._connect(ins, n.id)
            if any(self.may_raise(i.context_expr) for i in st.items):
                self._exc_edges(n.id)
            self._push_parent(st)
            outs = self._seq(st.body, [(n.id, None)])
            self._pop_parent()
            return outs
        if isinstance(st, ast.Try):
            return self._try(st, ins)
        if isinstance(st, InlineBlock):
            # body of a private helper substituted for its call (sa/inline.py); InlineReturn jumps to its end
            sink = []
            self._inlines.append((sink, len(self._tries)))
            self._push_parent(st)
            outs = self._seq(st.body, ins)
            self._pop_parent()
            self._inlines.pop()
            return outs + sink
        if isinstance(st, InlineReturn):
            n = self._new('stmt', st)
            self._connect(ins, n.id)
            if not self._inlines:
                raise AnalysisError('inline return outside an inlined helper body')
            sink, tdepth = self._inlines[-1]
            outs = [(n.id, None)]
            for level in range(len(self._tries) - 1, tdepth - 1, -1):
                t = self._tries[level]
                if t['finalbody']:
                    outs = self._finally_copy(t, level, 'ret', outs)
            sink.extend(outs)
            return []
        raise AnalysisError('%s: statement kind %s not interpreted by the CFG builder'
                            % (self.func.qualname, type(st).__name__))

    def _check_no_finally_between_loop(self, st):
        # break/continue through a finally body is not modelled
        for t in self._tries:
            if t['finalbody'] and t.get('loop_depth') == len(self._loops):
                raise AnalysisError('%s:%d break/continue through finally is not interpreted'
                                    % (self.func.qualname, st.lineno))

    def _route_return(self, src):
        ins = [(src, None)]
        for level in range(len(self._tries) - 1, -1, -1):
            t = self._tries[level]
            if t['finalbody']:
                ins = self._finally_copy(t, level, 'ret', ins)
        self._connect(ins, self.exit.id)

    def _push_parent(self, st):
        self._parents = self._parents + (st,)

    def _pop_parent(self):
        self._parents = self._parents[:-1]

    def _try(self, st, ins):
        self._push_parent(st)
        handlers = []
        for h in st.handlers:
            names = None
            if h.type is not None:
                names = set()
                elts = h.type.elts if isinstance(h.type, ast.Tuple) else [h.type]
                for e in elts:
                    if isinstance(e, ast.Name):
                        names.add(e.id)
                    elif isinstance(e, ast.Attribute):
                        names.add(e.attr)
            hn = self._new('handler', h)
            handlers.append((hn, names))
        t = {'handlers': handlers, 'finalbody': st.finalbody or None, 'loop_depth': len(self._loops)}
        self._tries.append(t)
        body_outs = self._seq(st.body, ins)
        t['in_handlers'] = True
        outs = self._seq(st.orelse, body_outs)
        for (hn, names), h in zip(handlers, st.handlers):
            outs = outs + self._seq(h.body, [(hn.id, None)])
        self._tries.pop()
        if st.finalbody:
            outs = self._seq(st.finalbody, outs)
        self._pop_parent()
        return outs

    # ------------------------------------------------------------ conditions
    def _cond(self, expr, ins, owner):
        """returns (true_outs, false_outs); splits and/or/not and comparison chains"""
        if isinstance(expr, ast.BoolOp):
            if isinstance(expr.op, ast.And):
                f_all = []
                t = ins
                for v in expr.values:
                    t, f = self._cond(v, t, owner)
                    f_all += f
                return t, f_all
            else:
                t_all = []
                f = ins
                for v in expr.values:
                    t, f = self._cond(v, f, owner)
                    t_all += t
                return t_all, f
        if isinstance(expr, ast.UnaryOp) and isinstance(expr.op, ast.Not):
            t, f = self._cond(expr.operand, ins, owner)
            return f, t
        if isinstance(expr, ast.Compare) and len(expr.ops) > 1:
            parts = []
            left = expr.left
            for op, right in zip(expr.ops, expr.comparators):
                c = ast.Compare(left=left, ops=[op], comparators=[right])
                ast.copy_location(c, expr)
                parts.append(c)
                left = right
            b = ast.BoolOp(op=ast.And(), values=parts)
            ast.copy_location(b, expr)
            return self._cond(b, ins, owner)
        n = self._new('cond', expr)
        n.extra = owner
        if not n.lineno:
            n.lineno = getattr(owner, 'lineno', 0)
        self._connect(ins, n.id)
        if self.may_raise(expr):
            self._exc_edges(n.id)
        return [(n.id, ('cond', True))], [(n.id, ('cond', False))]

    # ------------------------------------------------------------ queries
    def stmt_nodes(self, pred=None):
        return [n for n in self.nodes if n.kind in ('stmt', 'with', 'iter', 'cond', 'def', 'handler', 'loop')
                and (pred is None or pred(n))]

    def nodes_for_ast(self, astnode):
        """CFG nodes whose ast is `astnode` or contains it"""
        out = []
        for n in self.nodes:
            if n.ast is None:
                continue
            if n.ast is astnode or (n.kind == 'stmt' and n.extra is astnode):
                out.append(n)
                continue
            if n.kind in ('iter', 'with', 'loop', 'handler', 'def'):
                # compound statement heads: only header expressions belong to the node
                hdr = []
                if n.kind == 'iter':
                    hdr = [n.ast.target, n.ast.iter]
                elif n.kind == 'with':
                    hdr = [i.context_expr for i in n.ast.items]
                for h in hdr:
                    if any(x is astnode for x in ast.walk(h)):
                        out.append(n)
                continue
            if any(x is astnode for x in ast.walk(n.ast)):
                out.append(n)
        return out

    def reachable_from(self, start, avoid=(), follow_exc=True):
        avoid = set(avoid)
        seen = set()
        work = [start]
        while work:
            i = work.pop()
            if i in seen or i in avoid:
                continue
            seen.add(i)
            for d, label in self.nodes[i].succ:
                if not follow_exc and isinstance(label, tuple) and label[0] == 'exc':
                    continue
                work.append(d)
        return seen

    def dominators(self, start=None, follow_exc=True):
        """iterative dominator sets from `start` (default entry)"""
        start = self.entry.id if start is None else start
        reach = self.reachable_from(start, follow_exc=follow_exc)
        dom = {i: set(reach) for i in reach}
        dom[start] = {start}
        changed = True
        order = sorted(reach)
        while changed:
            changed = False
            for i in order:
                if i == start:
                    continue
                preds = [p for p, l in self.nodes[i].pred if p in reach
                         and (follow_exc or not (isinstance(l, tuple) and l[0] == 'exc'))]
                if not preds:
                    continue
                new = set.intersection(*[dom[p] for p in preds]) | {i}
                if new != dom[i]:
                    dom[i] = new
                    changed = True
        return dom

    def dump(self):
        out = []
        for n in self.nodes:
            src = ''
            if n.ast is not None:
                try:
                    src = ast.unparse(n.ast).split('\n')[0][:70]
                except Exception:
                    src = ''
            out.append('%3d %-7s L%-4d %-70s -> %s' % (n.id, n.kind, n.lineno, src,
                                                      ', '.join('%d%s' % (d, '' if l is None else ':' + str(l)) for d, l in n.succ)))
        return '\n'.join(out)


def build(program, func):
    key = func.qualname
    c = program._cfgs.get(key)
    if c is None:
        c = CFG(func, program)
        program._cfgs[key] = c
    return c
