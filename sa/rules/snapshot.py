"""Snapshot rules (C09; R-version-pairing shared with C17)."""
import ast
from . import rule
from .. import util as U
from ..pyir import AnalysisError, unparse
from .. import oracle
from .raftlog import loader_func
from .election import journal_positions
from .storage import serializer_funcs


def compaction_func(ctx):
    """the SyncObj method that calls serializer.serialize"""
    P, R = ctx.P, ctx.R
    for f in P.methods_of(R.S):
        for c in P.calls_in(f):
            if isinstance(c.func, ast.Attribute) and c.func.attr == 'serialize' and P.self_attr(c.func.value, f.self_name) == R.serializer:
                return f, c
    raise AnalysisError('nobody calls serializer.serialize (compaction function gone)')


def names_snapshot(ctx, cls):
    """(init func, loop statement that records the attribute names, set attribute) for SyncObj / SyncObjConsumer"""
    P = ctx.P
    init = cls.methods.get('__init__')
    if init is None:
        raise AnalysisError('%s.__init__ gone' % cls.name)
    for n in init.node.body if True else []:
        pass
    best = None
    for n in ast.walk(init.node):
        if isinstance(n, ast.For) and isinstance(n.iter, ast.Attribute) and n.iter.attr == '__dict__' and isinstance(n.iter.value, ast.Name) \
                and n.iter.value.id == init.self_name:
            for c in ast.walk(n):
                if isinstance(c, ast.Call) and isinstance(c.func, ast.Attribute) and c.func.attr == 'add':
                    a = P.self_attr(c.func.value, init.self_name)
                    if a:
                        best = (init, n, a)
    if best is None:
        raise AnalysisError('%s.__init__ no longer records its infrastructure attribute names' % cls.name)
    return best


def init_attr_order(ctx, cls):
    """attributes first written in __init__ before / after the names snapshot (top-level statement order)"""
    P = ctx.P
    init, snap, setattr_ = names_snapshot(ctx, cls)
    before, after = [], []
    seen = set()
    for acc in P.accesses(init, include_nested=False):
        if acc.kind not in ('write', 'aug'):
            continue
        if acc.attr in seen:
            continue
        seen.add(acc.attr)
        ln = getattr(acc.node, 'lineno', 0)
        (before if ln < snap.lineno else after).append(acc.attr)
    return init, snap, setattr_, before, after


def payload_elts(ctx, comp, call):
    """components of the payload handed to serialize(): the tuple literal, or the tuple a local was bound to once"""
    a0 = call.args[0] if call.args else None
    if isinstance(a0, ast.Name):
        v = U.single_assign_value(comp, a0.id)
        if isinstance(v, ast.Tuple):
            a0 = v
    ctx.require(isinstance(a0, ast.Tuple), 'serialize() is not called with a tuple literal payload')
    return a0.elts


@rule('R-payload-complete', 'the snapshot payload carries object state, last applied entry, its predecessor, the member set '
                            'and the enabled code version in every serializer mode, and the loader reads each component '
                            'from the position the writer put it')
def r_payload_complete(ctx):
    P, R = ctx.P, ctx.R
    comp, call = compaction_func(ctx)
    idx_pos, term_pos = journal_positions(P)
    elts = payload_elts(ctx, comp, call)
    ex = U.explorer(ctx, comp)
    res = U.full_run(ctx, comp)
    cn = U.node_containing(ex.cfg, call)
    # classify writer components
    roles = {}
    entries_var = None
    for i, e in enumerate(elts):
        if isinstance(e, ast.Subscript) and isinstance(e.value, ast.Name) and isinstance(e.slice, ast.Constant) and e.slice.value in (0, 1):
            entries_var = e.value.id
            roles['last' if e.slice.value == 1 else 'prev'] = i
        elif isinstance(e, ast.Name):
            # member set: defined from the voters role
            defs = [d for d in U.walk_no_nested(comp.node) if isinstance(d, ast.Assign) and any(isinstance(t, ast.Name) and t.id == e.id for t in d.targets)]
            if any(any(P.self_attr(x, comp.self_name) == R.voters for x in ast.walk(d.value)) for d in defs):
                roles['members'] = i
            else:
                roles['state'] = i
    inst = 'writer payload has state, last entry, previous entry, member set'
    ctx.tick()
    missing = [r for r in ('state', 'last', 'prev', 'members') if r not in roles]
    if missing:
        ctx.violation('%s:payload-missing-%s' % (comp.qualname, '+'.join(missing)), comp.loc(call), 'snapshot payload lacks %s' % missing, instance=inst)
        ctx.expect_min(1)
        return
    ctx.ok(inst, comp.loc(call), 'positions %s' % roles)
    # the member component names every voter including the writer: the loader of *another* node removes itself, not the writer
    inst = 'member component is voters + the writing node itself'
    ctx.tick()
    me = elts[roles['members']]
    mdefs = [d for d in U.walk_no_nested(comp.node) if isinstance(d, ast.Assign) and any(isinstance(t, ast.Name) and t.id == me.id for t in d.targets)]
    has_self = mdefs and all(any(P.self_attr(x, comp.self_name) == R.selfNode for x in ast.walk(d.value)) for d in mdefs)
    if has_self:
        ctx.ok(inst, comp.loc(mdefs[0]), unparse(mdefs[0].value))
    else:
        ctx.violation('%s:member-component-without-self' % comp.qualname, comp.loc(mdefs[0] if mdefs else call),
                      'the member set stored in the snapshot (`%s`) does not contain the node that writes it: a follower installing the snapshot silently drops its leader from its '
                      'member set (majorities are then computed over different sets)' % (unparse(mdefs[0].value) if mdefs else '?'), instance=inst)
    # ... and nobody else: a loader installs this set as its voters, so observers / merely connected nodes must not be in it
    inst = 'member component holds voters only'
    ctx.tick()
    foreign = []
    for d in mdefs:
        for x in ast.walk(d.value):
            a = P.self_attr(x, comp.self_name)
            if a is not None and a in (R.observers, R.connected) and a not in foreign:
                foreign.append(a)
    if foreign:
        ctx.violation('%s:member-component-includes-non-voters' % comp.qualname, comp.loc(mdefs[0]),
                      'the member set stored in the snapshot (`%s`) also takes nodes from self.%s: a node that loads the snapshot installs them as voters, and read-only / merely '
                      'connected nodes then count towards election and commit majorities' % (unparse(mdefs[0].value), ', self.'.join(foreign)), instance=inst)
    elif mdefs:
        ctx.ok(inst, comp.loc(mdefs[0]), unparse(mdefs[0].value))
    # the two entries are read at lastApplied-1, count 2
    fetch = [d for d in U.walk_no_nested(comp.node) if isinstance(d, ast.Assign) and any(isinstance(t, ast.Name) and t.id == entries_var for t in d.targets)]
    inst = 'snapshot position = (lastApplied - 1, lastApplied)'
    ctx.tick()
    okf = False
    if fetch and isinstance(fetch[-1].value, ast.Call) and len(fetch[-1].value.args) >= 2:
        a0 = ex.tb.term(fetch[-1].value.args[0])
        a1 = fetch[-1].value.args[1]
        okf = a0.base is not None and a0.base.key == 'self.' + R.lastApplied and a0.off == -1 and isinstance(a1, ast.Constant) and a1.value == 2
    if okf:
        ctx.ok(inst, comp.loc(fetch[-1]), unparse(fetch[-1].value))
    else:
        ctx.violation('%s:snapshot-position' % comp.qualname, comp.loc(fetch[-1] if fetch else call),
                      'the two entries stored with the snapshot are not fetched as (lastApplied - 1, 2)', instance=inst)
    # the snapshot id handed to serialize (used for the later trim) is the index of the previous entry
    inst = 'trim id = index of the stored previous entry'
    ctx.tick()
    if len(call.args) >= 2:
        t = call.args[1]
        want = '%s[0][%d]' % (entries_var, idx_pos)
        if unparse(t) == want:
            ctx.ok(inst, comp.loc(call), want)
        else:
            ctx.violation('%s:trim-id' % comp.qualname, comp.loc(call), 'serialize() is given `%s` as the position to trim to, expected `%s` (the entry before the last applied one must stay in the log)'
                          % (unparse(t), want), instance=inst)
    # reader agreement
    loader = loader_func(ctx)
    dvar = None
    for n in ast.walk(loader.node):
        if isinstance(n, ast.Assign) and isinstance(n.value, ast.Call) and isinstance(n.value.func, ast.Attribute) and n.value.func.attr == 'deserialize':
            dvar = n.targets[0].id
    ctx.require(dvar, 'loader does not bind the deserialized payload to a local')
    adds = []
    for n in ast.walk(loader.node):
        if isinstance(n, ast.Call) and isinstance(n.func, ast.Attribute) and n.func.attr == 'add' and P.self_attr(n.func.value, loader.self_name) == R.log:
            for a in n.args:
                if isinstance(a, ast.Starred) and isinstance(a.value, ast.Subscript) and isinstance(a.value.value, ast.Name) and a.value.value.id == dvar:
                    adds.append((n.lineno, a.value.slice.value))
    adds.sort()
    inst = 'loader rebuilds the log as [previous, last] from the writer positions'
    ctx.tick()
    if [i for _, i in adds] == [roles['prev'], roles['last']]:
        ctx.ok(inst, loader.loc(), 'add(*data[%d]); add(*data[%d])' % (roles['prev'], roles['last']))
    else:
        ctx.violation('%s:log-rebuild-order' % loader.qualname, loader.loc(), 'the loader adds payload components %s, the writer stored previous at %d and last at %d'
                      % ([i for _, i in adds], roles['prev'], roles['last']), instance=inst)
    inst = 'loader takes lastApplied from the last applied entry'
    ctx.tick()
    las = U.assigns_to_attr(P, loader, R.lastApplied)
    want = '%s[%d][%d]' % (dvar, roles['last'], idx_pos)
    lex = U.explorer(ctx, loader)
    lres = U.full_run(ctx, loader)

    def _is_want(st):
        n = U.node_containing(lex.cfg, st)
        g = ('eq', lex.tb.term(st.value), lex.tb.term(U.parse_expr(want)))
        return all(oracle.entails(fs, g) for fs in lres.facts_at(n.id)) and bool(lres.facts_at(n.id))
    if las and all(_is_want(st) for st, k in las):
        ctx.ok(inst, loader.loc(las[0][0]), want)
    else:
        ctx.violation('%s:applied-index-source' % loader.qualname, loader.loc(las[0][0]) if las else loader.loc(),
                      'lastApplied is restored from `%s`, expected `%s`' % (unparse(las[0][0].value) if las else '-', want), instance=inst)
    inst = 'loader restores members from the member component'
    ctx.tick()
    uses_members = any(isinstance(n, ast.Subscript) and isinstance(n.value, ast.Name) and n.value.id == dvar and isinstance(n.slice, ast.Constant)
                       and n.slice.value == roles['members'] for n in ast.walk(loader.node))
    if uses_members:
        ctx.ok(inst, loader.loc(), '%s[%d]' % (dvar, roles['members']))
    else:
        ctx.violation('%s:members-source' % loader.qualname, loader.loc(), 'the loader never reads the member component %s[%d]' % (dvar, roles['members']), instance=inst)
    ctx.expect_min(7)


@rule('R-version-in-payload', 'the enabled code version travels with every snapshot: in the default modes it is part of the '
                              'serialised attribute dict, in user-serializer mode it must be forwarded too')
def r_version_in_payload(ctx):
    P, R = ctx.P, ctx.R
    comp, call = compaction_func(ctx)
    elts = payload_elts(ctx, comp, call)
    roles = {}
    for i, e in enumerate(elts):
        if isinstance(e, ast.Name):
            defs = [d for d in U.walk_no_nested(comp.node) if isinstance(d, ast.Assign) and any(isinstance(t, ast.Name) and t.id == e.id for t in d.targets)]
            if not any(any(P.self_attr(x, comp.self_name) == R.voters for x in ast.walk(d.value)) for d in defs):
                roles['state'] = i
    ctx.require('state' in roles, 'state component of the payload not found')
    # enabled version: part of the state component in default mode (assigned after the names snapshot) ...
    init, snap, setattr_, before, after = init_attr_order(ctx, R.S)
    inst = 'enabled code version is part of the serialised state (default modes)'
    ctx.tick()
    if R.enabledVersion in after and R.enabledVersion not in before:
        ctx.ok(inst, init.loc(snap), 'self.%s is first assigned after the infrastructure attribute names are recorded, so it is not excluded' % R.enabledVersion)
    else:
        ctx.violation('SyncObj.__init__:enabled-version-excluded-from-snapshot', init.loc(snap),
                      'self.%s is assigned before the infrastructure attribute names are recorded, so it is excluded from every snapshot: a node restored from a snapshot '
                      'taken after a version switch reports the old version' % R.enabledVersion, instance=inst)
    # ... and dropped in user-serializer mode
    S = serializer_funcs(ctx)
    ser = S.methods['serialize']
    dparam = ser.params[1]
    for c in P.calls_in(ser):
        if isinstance(c.func, ast.Attribute) and P.self_attr(c.func, ser.self_name) and len(c.args) == 2:
            # self.__serializer(tmpFile, <payload part>)
            inst = 'user-serializer mode forwards the enabled code version'
            ctx.tick()
            a = c.args[1]
            sliced_from_1 = isinstance(a, ast.Subscript) and isinstance(a.slice, ast.Slice) and isinstance(a.slice.lower, ast.Constant) and a.slice.lower.value == 1
            state_none_in_user_mode = any(isinstance(d, ast.Assign) and isinstance(d.value, ast.Constant) and d.value.value is None and
                                          any(isinstance(t, ast.Name) and isinstance(elts[roles['state']], ast.Name) and t.id == elts[roles['state']].id for t in d.targets)
                                          for d in U.walk_no_nested(comp.node))
            if sliced_from_1 or state_none_in_user_mode:
                ctx.violation('Serializer.serialize:user-serializer-drops-enabled-version', ser.loc(c),
                              'with conf.serializer set the user function receives `%s`; the state component (the only carrier of the enabled code version) is %s'
                              % (unparse(a), 'cut off' if sliced_from_1 else 'None'), instance=inst)
            else:
                ctx.ok(inst, ser.loc(c), unparse(a))
    ctx.expect_min(2)


@rule('R-no-field-leak', 'no internal attribute of SyncObj / SyncObjConsumer is created after the attribute-name snapshot '
                         '(it would be pickled into every snapshot and overwrite protocol state on load), except the '
                         'enabled code version')
def r_no_field_leak(ctx):
    P, R = ctx.P, ctx.R
    for cls, allowed in ((R.S, {R.enabledVersion}), (P.cls('SyncObjConsumer'), set())):
        init, snap, setattr_, before, after = init_attr_order(ctx, cls)
        bset = set(before)
        written = {}
        for m in P.methods_of(cls):
            for acc in P.accesses(m, include_nested=True):
                if acc.kind in ('write', 'aug', 'elem_write', 'mutcall', 'del', 'elem_del'):
                    written.setdefault(acc.attr, (m, acc.node))
        n_attr = 0
        for a, (m, node) in sorted(written.items()):
            if a in ('__dict__',):
                continue
            n_attr += 1
            if a in bset or a == setattr_:
                continue
            if a in allowed:
                ctx.ok('%s.%s intentionally part of the snapshot' % (cls.name, a), m.loc(node), 'assigned after the names snapshot', nontrivial=False)
                continue
            ctx.tick()
            ctx.violation('%s:attribute-%s-created-after-names-snapshot' % (cls.name, a), m.loc(node),
                          'self.%s is written in %s but not created in __init__ before the infrastructure names are recorded: it is pickled into every snapshot '
                          'and overwrites the receiver\'s value on load' % (a, m.qualname), instance='%s.%s' % (cls.name, a))
        ctx.tick(n_attr)
        ctx.ok('%s: %d written attributes are created before the names snapshot' % (cls.name, n_attr), init.loc(snap), '%d infrastructure names' % len(bset))
    ctx.expect_min(2)


@rule('R-snapshot-point', 'between fixing the snapshot position and handing the state to the serializer nothing can apply '
                          'a command or move the applied index')
def r_snapshot_point(ctx):
    P, R = ctx.P, ctx.R
    comp, call = compaction_func(ctx)
    ex = U.explorer(ctx, comp)
    cfg = ex.cfg
    cn = U.node_containing(cfg, call)
    elts = payload_elts(ctx, comp, call)
    entries_var = [e.value.id for e in elts if isinstance(e, ast.Subscript) and isinstance(e.value, ast.Name)][0]
    fetch = [d for d in U.walk_no_nested(comp.node) if isinstance(d, ast.Assign) and any(isinstance(t, ast.Name) and t.id == entries_var for t in d.targets)]
    ctx.require(fetch, 'position read not found')
    fn = U.node_containing(cfg, fetch[-1])
    between = cfg.reachable_from(fn.id, avoid=[cn.id]) & _coreach(cfg, cn.id)
    bad = None
    for nid in between:
        n = cfg.nodes[nid]
        if n.ast is None or nid == fn.id:
            continue
        for c in [x for x in ast.walk(n.ast) if isinstance(x, ast.Call)]:
            r = P.resolve_call(comp, c)
            if r.kind in ('method',):
                reach = P.reachable_funcs(r.targets, follow_field=False)
                if R.dispatcher in reach or any(('A:' + R.lastApplied) in P.writes(t) for t in r.targets):
                    bad = (n, c)
        if isinstance(n.ast, (ast.Assign, ast.AugAssign)):
            tg = n.ast.targets if isinstance(n.ast, ast.Assign) else [n.ast.target]
            if any(P.self_attr(t, comp.self_name) == R.lastApplied for t in tg):
                bad = (n, n.ast)
    ctx.tick(len(between))
    inst = 'no apply between position read and serialize'
    if bad:
        ctx.violation('%s:apply-between-position-and-serialize' % comp.qualname, comp.loc(bad[1]),
                      '`%s` can run between reading the snapshot position and serializing the state: the dump would not match its position' % unparse(bad[1]), instance=inst)
    else:
        ctx.ok(inst, comp.loc(call), '%d CFG nodes between the position read and the serialize call, none reaches the dispatcher or writes lastApplied' % len(between))
    # the state dict is built from self.__dict__ in the same function, after the position read
    inst = 'state collected after the position is fixed, in the same tick'
    ctx.tick()
    builds = [n for n in cfg.nodes if n.kind == 'stmt' and n.ast is not None and '__dict__' in unparse(n.ast) and n.id in cfg.reachable_from(fn.id)]
    if builds:
        ctx.ok(inst, comp.loc(builds[0].ast), '')
    else:
        ctx.unproven(inst, comp.loc(call), 'state is not collected from self.__dict__ after the position read')
    # Serializer.serialize pickles (or forks) before returning: no deferred pickling of live objects
    S = serializer_funcs(ctx)
    ser = S.methods['serialize']
    inst = 'serializer pickles or forks before returning'
    ctx.tick()
    dumps = [c for c in P.calls_in(ser) if unparse(c.func) in ('pickle.dump', 'pickle.dumps', 'os.fork') or (isinstance(c.func, ast.Attribute) and P.self_attr(c.func, ser.self_name))]
    stores_payload = [n for n in ast.walk(ser.node) if isinstance(n, ast.Assign) and isinstance(n.value, ast.Name) and n.value.id == ser.params[1]
                      and P.self_attr(n.targets[0], ser.self_name)]
    if dumps and not stores_payload:
        ctx.ok(inst, ser.loc(), 'payload is consumed inside serialize(); never stored for later')
    else:
        ctx.violation('Serializer.serialize:deferred-pickling', ser.loc(), 'the live payload is stored for later pickling (state may change before it is written)', instance=inst)
    ctx.expect_min(2)


def _coreach(cfg, target):
    seen = set()
    work = [target]
    while work:
        i = work.pop()
        if i in seen:
            continue
        seen.add(i)
        for p, l in cfg.nodes[i].pred:
            work.append(p)
    return seen


@rule('R-dump-atomic', 'the dump file is only ever replaced atomically: every writer writes another name and renames it '
                       'onto the dump path; nobody else opens the dump path for writing')
def r_dump_atomic(ctx):
    P, R = ctx.P, ctx.R
    S = serializer_funcs(ctx)
    init = S.methods['__init__']
    fname = None
    for n in ast.walk(init.node):
        if isinstance(n, ast.Assign) and isinstance(n.value, ast.Name) and n.value.id == init.params[1]:
            fname = P.self_attr(n.targets[0], init.self_name)
    ctx.require(fname, 'Serializer file name attribute not found')
    n_w = 0
    for m in P.methods_of(S):
        ex = U.explorer(ctx, m)
        cfg = ex.cfg
        writers = []
        for c in P.calls_in(m):
            if isinstance(c.func, ast.Name) and c.func.id == 'open' and len(c.args) >= 2 and isinstance(c.args[1], ast.Constant) and any(ch in str(c.args[1].value) for ch in 'wa+'):
                writers.append((c, c.args[0]))
            elif isinstance(c.func, ast.Attribute) and P.self_attr(c.func, m.self_name) and len(c.args) == 2 and m.name == 'serialize':
                writers.append((c, c.args[0]))      # user serializer(fileName, data)
        for c, tgt in writers:
            n_w += 1
            inst = '%s: writer `%s`' % (m.qualname, unparse(c)[:60])
            ctx.tick()
            tt = tgt
            if isinstance(tgt, ast.Name):
                defs = [d for d in U.walk_no_nested(m.node) if isinstance(d, ast.Assign) and any(isinstance(t, ast.Name) and t.id == tgt.id for t in d.targets)]
                tt = defs[-1].value if defs else tgt
            if P.self_attr(tt, m.self_name) == fname:
                ctx.violation('%s:dump-written-in-place' % m.qualname, m.loc(c), 'the dump file is opened for writing under its final name: a kill leaves a torn dump', instance=inst)
                continue
            if not (isinstance(tt, ast.BinOp) and any(P.self_attr(x, m.self_name) == fname for x in ast.walk(tt))):
                ctx.unproven(inst, m.loc(c), 'written name `%s` is not derived from the dump path' % unparse(tt))
                continue
            renames = [U.node_containing(cfg, c2).id for c2 in P.calls_in(m) if unparse(c2.func) in ('atomicReplace', 'os.rename', 'os.replace')
                       and len(c2.args) == 2 and P.self_attr(c2.args[1], m.self_name) == fname and unparse(c2.args[0]) == unparse(tgt)]
            # the rename happens after the written file was closed: not inside the `with open(tmp) ..` that writes it
            inside = None
            for c2 in P.calls_in(m):
                if unparse(c2.func) in ('atomicReplace', 'os.rename', 'os.replace') and len(c2.args) == 2 and P.self_attr(c2.args[1], m.self_name) == fname:
                    n2 = U.node_containing(cfg, c2)
                    for w_ in (n2.parents if n2 is not None else ()):
                        if isinstance(w_, ast.With) and any(x is c for it_ in w_.items for x in ast.walk(it_.context_expr)):
                            inside = c2
            if renames and inside is not None:
                ctx.violation('%s:renamed-before-close' % m.qualname, m.loc(inside),
                              'the temporary dump is renamed onto the dump path inside the `with open(..)` block that writes it: the tail of the data is still in the '
                              'file object\'s buffer, so a kill before the block ends leaves an empty or truncated file under the final name', instance=inst)
            elif renames:
                ctx.ok(inst, m.loc(c), 'writes `%s`, renamed onto the dump path by an atomic replace' % unparse(tt))
            else:
                ctx.violation('%s:tmp-dump-never-renamed' % m.qualname, m.loc(c), 'the temporary dump `%s` is never renamed onto the dump path atomically' % unparse(tt), instance=inst)
    ctx.require(n_w >= 2, 'dump writers not found')
    # different writers (own compaction vs. incoming transfer) never share a temporary name.  Names are compared after
    # resolving locals and attributes that __init__ binds once (`self.__tmp = fileName + '.tmp'`)
    sinit = S.methods.get('__init__')
    fparam = None
    if sinit is not None:
        for st, k in U.assigns_to_attr(P, sinit, fname):
            if isinstance(st.value, ast.Name):
                fparam = st.value.id

    def norm(m, e, depth=0):
        if depth > 5:
            return unparse(e)
        if P.self_attr(e, m.self_name) == fname or (m is sinit and isinstance(e, ast.Name) and e.id == fparam):
            return 'DUMP'
        if isinstance(e, ast.Constant):
            return repr(e.value)
        if isinstance(e, ast.BinOp) and isinstance(e.op, ast.Add):
            return norm(m, e.left, depth + 1) + '+' + norm(m, e.right, depth + 1)
        if isinstance(e, ast.IfExp):
            br = [x for x in (e.body, e.orelse) if not (isinstance(x, ast.Constant) and x.value is None)]
            if len(br) == 1:
                return norm(m, br[0], depth + 1)
        if isinstance(e, ast.Name):
            defs = [d for d in U.walk_no_nested(m.node) if isinstance(d, ast.Assign) and any(isinstance(t, ast.Name) and t.id == e.id for t in d.targets)]
            if len(defs) == 1:
                return norm(m, defs[0].value, depth + 1)
        a_ = P.self_attr(e, m.self_name)
        if a_ and sinit is not None:
            ds = [st for st, k in U.assigns_to_attr(P, sinit, a_)]
            others_ = [1 for g in P.methods_of(S) if g is not sinit for st, k in U.assigns_to_attr(P, g, a_)]
            if len(ds) == 1 and not others_:
                return norm(sinit, ds[0].value, depth + 1)
        return unparse(e)
    tmp_names = {}
    for m in P.methods_of(S):
        for c in P.calls_in(m):
            tgt = None
            if isinstance(c.func, ast.Name) and c.func.id == 'open' and len(c.args) >= 2 and isinstance(c.args[1], ast.Constant) and any(ch in str(c.args[1].value) for ch in 'wa+'):
                tgt = c.args[0]
            elif isinstance(c.func, ast.Attribute) and P.self_attr(c.func, m.self_name) and len(c.args) == 2 and m.name == 'serialize':
                tgt = c.args[0]
            if tgt is not None:
                k = norm(m, tgt)
                if 'DUMP' in k:
                    tmp_names.setdefault(k, []).append((m, c))
    inst = 'own dump and incoming transfer use different temporary files'
    ctx.tick()
    shared = [(k, v) for k, v in tmp_names.items() if len(set(m.name for m, d in v)) > 1]
    if shared:
        k, v = shared[0]
        v = sorted(v, key=lambda x: x[0].name)
        first, second = v[0], [x for x in v if x[0].name != v[0][0].name][0]
        ctx.violation('Serializer:shared-temporary-dump-name', second[0].loc(second[1]),
                      '%s and %s both write `%s`: a compaction between two chunks of an incoming snapshot renames the half-written transfer into place / the transfer scribbles '
                      'into the fresh dump' % (first[0].qualname, second[0].qualname, k.replace('DUMP', '<dump>')), instance=inst)
    else:
        ctx.ok(inst, '', 'names %s' % sorted(x.replace('DUMP', '<dump>') for x in tmp_names))
    # nobody else opens conf.fullDumpFile for writing
    others = 0
    for f in P.all_funcs():
        if f.owner_cls is S:
            continue
        for c in P.calls_in(f, include_nested=True):
            if isinstance(c.func, ast.Name) and c.func.id == 'open' and len(c.args) >= 2 and isinstance(c.args[1], ast.Constant) and any(ch in str(c.args[1].value) for ch in 'wa+'):
                if any(isinstance(x, ast.Attribute) and x.attr == 'fullDumpFile' for x in ast.walk(c.args[0])):
                    others += 1
                    ctx.violation('%s:writes-dump-file' % f.qualname, f.loc(c), 'the dump file is opened for writing outside the serializer', instance='only the serializer writes the dump')
    ctx.tick()
    if not others:
        ctx.ok('only the serializer writes the dump', '', 'no other open(conf.fullDumpFile, w) in the package')
    # receiver: True only after the complete file was put in place
    stm = S.methods['setTransmissionData']
    ex = U.explorer(ctx, stm)
    res = U.full_run(ctx, stm)
    cfg = ex.cfg
    # the in-memory snapshot: the attribute deserialize() wraps in BytesIO(..)
    des = S.methods['deserialize']
    mem_attr = None
    for c in P.calls_in(des):
        if unparse(c.func).endswith('BytesIO') and c.args and P.self_attr(c.args[0], des.self_name):
            mem_attr = P.self_attr(c.args[0], des.self_name)
    # (data, isFirst, isLast): the flags by their position in the unpacked parameter
    last_var = None
    for n in ast.walk(stm.node):
        if isinstance(n, ast.Assign) and isinstance(n.targets[0], ast.Tuple) and len(n.targets[0].elts) == 3 and isinstance(n.value, ast.Name) and n.value.id == stm.params[1] \
                and isinstance(n.targets[0].elts[2], ast.Name):
            last_var = n.targets[0].elts[2].id
    ctx.require(last_var, 'setTransmissionData no longer unpacks (data, isFirst, isLast)')
    done = [n.id for n in cfg.nodes if n.kind == 'stmt' and n.ast is not None and (
        any(isinstance(c, ast.Call) and unparse(c.func) in ('atomicReplace', 'os.rename', 'os.replace') for c in ast.walk(n.ast)) or
        (isinstance(n.ast, ast.Assign) and mem_attr is not None and P.self_attr(n.ast.targets[0], stm.self_name) == mem_attr))]
    for n in cfg.nodes:
        if n.kind == 'stmt' and isinstance(n.ast, ast.Return) and isinstance(n.ast.value, ast.Constant) and n.ast.value.value is True:
            inst = 'install reported complete only after the last chunk was put in place'
            ctx.tick()
            last_ok = all(any(l[0] == 'truthy' and l[2] and l[1].key == last_var for l in fs) for fs in res.facts_at(n.id)) and bool(res.facts_at(n.id))
            if n.id in cfg.reachable_from(cfg.entry.id, avoid=done) or not last_ok:
                ctx.violation('Serializer.setTransmissionData:complete-without-last-chunk', stm.loc(n.ast),
                              'the receiver reports a complete snapshot on a path that is not the last chunk / did not put the file in place', instance=inst)
            else:
                ctx.ok(inst, stm.loc(n.ast), 'behind isLast and the rename / assignment of the assembled data')
    # a chunk flagged "first" always restarts the reassembly (file re-opened for writing / buffer reset) before data is added
    fv = None
    for n in ast.walk(stm.node):
        if isinstance(n, ast.Assign) and isinstance(n.targets[0], ast.Tuple) and len(n.targets[0].elts) == 3:
            fv = n.targets[0].elts[1].id
    if fv is not None:
        restart = [n.id for n in cfg.nodes if n.kind == 'stmt' and n.ast is not None and (
            any(isinstance(c, ast.Call) and isinstance(c.func, ast.Name) and c.func.id == 'open' and len(c.args) >= 2 and isinstance(c.args[1], ast.Constant) and 'w' in str(c.args[1].value)
                for c in ast.walk(n.ast)) or
            (isinstance(n.ast, ast.Assign) and P.self_attr(n.ast.targets[0], stm.self_name) and isinstance(n.ast.value, ast.Call) and unparse(n.ast.value.func) in ('bytes', 'bytearray')))]
        adds_ = [n for n in cfg.nodes if n.kind == 'stmt' and n.ast is not None and (
            any(isinstance(c, ast.Call) and isinstance(c.func, ast.Attribute) and c.func.attr == 'write' for c in ast.walk(n.ast)) or
            (isinstance(n.ast, ast.AugAssign) and P.self_attr(n.ast.target, stm.self_name)))]
        unpack = [n for n in cfg.nodes if n.kind == 'stmt' and isinstance(n.ast, ast.Assign) and isinstance(n.ast.targets[0], ast.Tuple) and len(n.ast.targets[0].elts) == 3]
        start = [d for d, l in unpack[0].succ if not (isinstance(l, tuple) and l[0] == 'exc')][0]
        r_first = ex.run(start=start, init=frozenset([('truthy', ex.tb.term(ast.Name(id=fv, ctx=ast.Load())), True)]), avoid=restart, follow_exc=False)
        inst = 'a first chunk always restarts the reassembly'
        ctx.tick()
        hit = [n for n in adds_ if r_first.reached(n.id)]
        if hit:
            ctx.violation('Serializer.setTransmissionData:first-chunk-does-not-restart', stm.loc(hit[0].ast),
                          'with the first-chunk flag set, data can be added to the reassembly without re-opening / resetting it: a transfer restarted after an interruption is appended '
                          'to the partial one and a torn dump is renamed into place: %s' % r_first.path_str(hit[0].id, r_first.facts_at(hit[0].id)[0]), instance=inst)
        else:
            ctx.ok(inst, stm.loc(), 'no write/append reachable with isFirst set unless the temp file is re-opened or the buffer reset')
    ctx.expect_min(4)


def rebuild_func(ctx):
    """the function that rebuilds the version name table: the one _getFuncName's table is assigned in, taking the version as parameter"""
    P, R = ctx.P, ctx.R
    g = P.lookup_method(R.S, '_getFuncName')
    if g is None:
        raise AnalysisError('_getFuncName gone')
    table = None
    for n in ast.walk(g.node):
        if isinstance(n, ast.Subscript):
            a = P.self_attr(n.value, g.self_name)
            if a:
                table = a
    if table is None:
        raise AnalysisError('_getFuncName does not index a table attribute')
    for f in P.methods_of(R.S):
        if f.name == '__init__' or len(f.params) != 2:
            continue
        if any(k == 'assign' for st, k in U.assigns_to_attr(P, f, table)) or any(a.attr == table and a.kind == 'elem_write' for a in P.accesses(f)):
            return f, table
    raise AnalysisError('name-table rebuild function not found')


@rule('R-version-pairing', 'the versioned method name table is always rebuilt for the value the enabled code version holds '
                           'at that point')
def r_version_pairing(ctx):
    P, R = ctx.P, ctx.R
    rebuild, table = rebuild_func(ctx)
    callers = P.callers_of(rebuild)
    ctx.require(callers, 'name-table rebuild is never called')
    for f, c in callers:
        inst = '%s: `%s`' % (f.qualname, unparse(c))
        arg = c.args[0] if c.args else None
        ctx.tick()
        if arg is None:
            ctx.unproven(inst, f.loc(c), 'no argument')
            continue
        if P.self_attr(arg, f.self_name) == R.enabledVersion:
            ctx.ok(inst, f.loc(c), 'argument is the enabled version itself')
            continue
        cfg = U.explorer(ctx, f).cfg
        n = U.node_containing(cfg, c)
        blk = U.straight_line_block(cfg, n.id)
        paired = False
        for st, kind in U.assigns_to_attr(P, f, R.enabledVersion):
            sn = U.node_containing(cfg, st)
            if sn.id in blk and unparse(st.value) == unparse(arg):
                paired = True
        if paired:
            ctx.ok(inst, f.loc(c), 'same block assigns the enabled version the same value')
        elif f.name == '__init__' and isinstance(arg, ast.Constant):
            inits = [st for st, k in U.assigns_to_attr(P, f, R.enabledVersion)]
            if inits and all(isinstance(st.value, ast.Constant) and st.value.value == arg.value for st in inits):
                ctx.ok(inst, f.loc(c), 'constructor: both the table and the enabled version start at %r' % arg.value)
            else:
                ctx.violation('%s:name-table-initial-version' % f.qualname, f.loc(c), 'the constructor builds the table for %r but starts with another enabled version' % arg.value, instance=inst)
        else:
            ctx.violation('%s:name-table-rebuilt-for-%s' % (f.qualname, 'constant-%s' % arg.value if isinstance(arg, ast.Constant) else 'other-value'), f.loc(c),
                          'the name table is rebuilt for `%s`, which is not the enabled code version at that point: calls resolve to the wrong implementation'
                          % unparse(arg), instance=inst)
    # the other direction: wherever the enabled version is (re)written -- explicitly or by restoring the whole attribute
    # dictionary from a snapshot -- every normal path to the function's normal exit passes a rebuild of the table
    for f in P.methods_of(R.S):
        if f.name == '__init__' or f is rebuild:
            continue
        stores = [st for st, k in U.assigns_to_attr(P, f, R.enabledVersion)]
        stores += [a.node for a in P.accesses(f, include_nested=False) if a.kind == 'wildcard' and isinstance(a.node, (ast.Assign, ast.AugAssign))]
        if not stores:
            continue
        if not f.name.startswith('__') or f.name.endswith('__'):
            pass
        elif not P.callers_of(f):
            ctx.info('%s stores the enabled version but has no caller' % f.qualname, f.loc(), 'dead code, not an obligation')
            continue
        cfg = U.explorer(ctx, f).cfg
        rb = [U.node_containing(cfg, c).id for g, c in callers if g is f]
        for st in stores:
            sn = U.node_containing(cfg, st)
            if sn is None:
                continue
            inst = '%s: `%s` is followed by a rebuild of the name table' % (f.qualname, unparse(st)[:50])
            ctx.tick()
            others = [U.node_containing(cfg, o).id for o in stores if o is not st]
            starts = [d for d, l in sn.succ if not (isinstance(l, tuple) and l[0] == 'exc')]
            reach = set()
            for d in starts:
                if d in rb:
                    continue
                reach |= cfg.reachable_from(d, avoid=rb, follow_exc=False)
            if cfg.exit.id in reach:
                ctx.violation('%s:version-written-without-table-rebuild' % f.qualname, f.loc(st),
                              'after `%s` the function can return normally without rebuilding the versioned method-name table: the node reports the restored / new '
                              'enabled version but keeps resolving calls with the table of the old one' % unparse(st)[:60], instance=inst)
            else:
                ctx.ok(inst, f.loc(st), 'normal exit unreachable from the store when the rebuild call is removed')
    ctx.expect_min(5)


@rule('R-transfer-restart', 'a snapshot transfer to a node that lost its connection restarts from the first chunk: the sender '
                            'cancels the transfer whenever it sees the node disconnected, or every disconnect path cancels it')
def r_transfer_restart(ctx):
    P, R = ctx.P, ctx.R
    from .raftmisc import sender_func
    f = sender_func(ctx)
    ex = U.explorer(ctx, f)
    res = U.full_run(ctx, f)
    cfg = ex.cfg

    # the serializer method that forgets a transfer: pops its id parameter from the table getTransmissionData works on
    S_ = serializer_funcs(ctx)
    gtd = S_.methods['getTransmissionData']
    tables = set(P.self_attr(c.func.value, gtd.self_name) for c in P.calls_in(gtd) if isinstance(c.func, ast.Attribute) and c.func.attr in ('get', 'pop')) - {None}
    cancel_names = set()
    for m_ in P.methods_of(S_):
        if m_ is gtd or len(m_.params) != 2:
            continue
        body = [x for x in m_.node.body if not (isinstance(x, ast.Expr) and isinstance(x.value, ast.Constant))]
        if len(body) == 1 and any(isinstance(c, ast.Call) and isinstance(c.func, ast.Attribute) and c.func.attr == 'pop' and P.self_attr(c.func.value, m_.self_name) in tables
                                  and c.args and isinstance(c.args[0], ast.Name) and c.args[0].id == m_.params[1] for c in ast.walk(body[0])):
            cancel_names.add(m_.name)
    ctx.require(cancel_names, 'the serializer has no method that forgets the transfer of one peer')

    def cancels(func):
        return [c for c in P.calls_in(func) if isinstance(c.func, ast.Attribute) and c.func.attr in cancel_names
                and P.self_attr(c.func.value, func.self_name) == R.serializer]
    # (a) sender-time cancellation under `node not in connected`, inside a loop over voters | observers
    a_ok = False
    for c in cancels(f):
        n = U.node_containing(cfg, c)
        loops = [p for p in n.parents if isinstance(p, ast.For)]
        pop_ok = any(set(P.self_attr(x, f.self_name) for x in ast.walk(lp.iter)) >= {R.voters, R.observers} and
                     R.connected not in set(P.self_attr(x, f.self_name) for x in ast.walk(lp.iter)) for lp in loops)
        notconn = all(any(l[0] == 'opaque' and not l[2] and ('self.%s' % R.connected) in l[1] for l in fs) for fs in res.facts_at(n.id)) and bool(res.facts_at(n.id))
        if pop_ok and notconn:
            a_ok = True
    # (b) every disconnect path cancels
    b_ok = True
    missing = []
    for key in ('setOnNodeDisconnectedCallback', 'setOnReadonlyNodeDisconnectedCallback'):
        g = R.slot_methods.get(key)
        if g is None or not cancels(g):
            b_ok = False
            missing.append(g.qualname if g else key)
    ctx.tick(2)
    inst = 'interrupted snapshot transfer restarts from the first chunk'
    if a_ok:
        ctx.ok(inst, f.loc(), 'the send loop ranges over all voters and observers and cancels the transfer of every node it finds disconnected')
    elif b_ok:
        ctx.ok(inst, f.loc(), 'both disconnect callbacks cancel the transfer')
    else:
        ctx.violation('%s:transfer-not-cancelled-on-disconnect' % f.qualname, f.loc(),
                      'neither the send loop (it no longer visits disconnected nodes to cancel their transfer) nor every disconnect path (%s lacks it) cancels a snapshot '
                      'transfer: after a reconnect the leader resumes mid-stream and the follower installs a dump with a hole' % ', '.join(missing), instance=inst)
    # the transfer is cancelled under the key it was started with: the same kind of expression is handed to the start / continue
    # method and to the cancel method (`node` and `node.id` name different table entries)
    starts = []
    for g_ in P.methods_of(R.S):
        for c in P.calls_in(g_):
            if isinstance(c.func, ast.Attribute) and c.func.attr == gtd.name and P.self_attr(c.func.value, g_.self_name) == R.serializer and c.args:
                starts.append((g_, c))
    key_shapes = set()
    for g_, c in starts:
        key_shapes.add('attr:' + c.args[0].attr if isinstance(c.args[0], ast.Attribute) else 'plain')
    inst = 'a transfer is cancelled under the key it was started with'
    for g_ in P.methods_of(R.S):
        for c in cancels(g_):
            ctx.tick()
            shape = 'attr:' + c.args[0].attr if c.args and isinstance(c.args[0], ast.Attribute) else 'plain'
            if key_shapes and shape not in key_shapes:
                ctx.violation('%s:transfer-cancelled-under-another-key' % g_.qualname, g_.loc(c),
                              '`%s` names the transfer by `%s`, but transfers are started with %s: the cancel never matches, after a reconnect the half-read transfer is resumed '
                              'and the follower assembles a dump with a hole' % (unparse(c), unparse(c.args[0]), ' / '.join('`%s`' % unparse(c2.args[0]) for g2, c2 in starts)), instance=inst)
            else:
                ctx.ok(inst, g_.loc(c), unparse(c))
    ctx.expect_min(1)


@rule('R-transfer-flags', 'the sender of a chunked snapshot marks exactly the first chunk as first (flag computed before the '
                          'offset advances) and the empty read as last, and forgets the transfer after the last chunk')
def r_transfer_flags(ctx):
    P = ctx.P
    S = serializer_funcs(ctx)
    g = S.methods['getTransmissionData']
    ex = U.explorer(ctx, g)
    cfg = ex.cfg
    rets = [n for n in cfg.nodes if n.kind == 'stmt' and isinstance(n.ast, ast.Return) and isinstance(n.ast.value, ast.Tuple) and len(n.ast.value.elts) == 3]
    ctx.require(rets, 'getTransmissionData no longer returns (data, isFirst, isLast)')
    data_v, first_v, last_v = [unparse(e) for e in rets[0].ast.value.elts]
    # offset counter: the key advanced by `+= size`
    adv = [n for n in cfg.nodes if n.kind == 'stmt' and isinstance(n.ast, ast.AugAssign) and isinstance(n.ast.op, ast.Add) and isinstance(n.ast.target, ast.Subscript)]
    adv_amount = adv[0].ast.value if adv else None
    adv_target = adv[0].ast.target if adv else None
    if not adv:
        # d[k] = d[k] + n
        for n in cfg.nodes:
            if n.kind == 'stmt' and isinstance(n.ast, ast.Assign) and len(n.ast.targets) == 1 and isinstance(n.ast.targets[0], ast.Subscript) and isinstance(n.ast.value, ast.BinOp) \
                    and isinstance(n.ast.value.op, ast.Add) and unparse(n.ast.targets[0]) in (unparse(n.ast.value.left), unparse(n.ast.value.right)):
                adv.append(n)
                adv_target = n.ast.targets[0]
                adv_amount = n.ast.value.right if unparse(n.ast.value.left) == unparse(adv_target) else n.ast.value.left
                break
    ctx.require(adv, 'transfer offset is never advanced')
    key = unparse(adv_target)
    firsts = [n for n in cfg.nodes if n.kind == 'stmt' and isinstance(n.ast, ast.Assign) and unparse(n.ast.targets[0]) == first_v]
    inst = 'first-chunk flag = (offset == 0), computed before the offset advances'
    ctx.tick()
    okf = bool(firsts) and all(isinstance(n.ast.value, ast.Compare) and isinstance(n.ast.value.ops[0], ast.Eq) and unparse(n.ast.value.left) == key
                               and isinstance(n.ast.value.comparators[0], ast.Constant) and n.ast.value.comparators[0].value == 0 for n in firsts)
    order = okf and all(f.id not in cfg.reachable_from(a.id) for f in firsts for a in adv)
    if okf and order:
        ctx.ok(inst, g.loc(firsts[0].ast), '%s = %s == 0 before `%s`' % (first_v, key, unparse(adv[0].ast)))
    else:
        ctx.violation('Serializer.getTransmissionData:first-flag', g.loc(firsts[0].ast) if firsts else g.loc(),
                      'the first-chunk flag is not `%s == 0` evaluated before the offset is advanced: the receiver never sees a first chunk (or sees several) and ignores the transfer'
                      % key, instance=inst)
    # the offset advances by the size of the chunk that was read
    inst = 'offset advances by the length of the chunk'
    ctx.tick()
    sz = unparse(adv_amount)
    szdef = [n for n in cfg.nodes if n.kind == 'stmt' and isinstance(n.ast, ast.Assign) and unparse(n.ast.targets[0]) == sz]
    if szdef and unparse(szdef[0].ast.value) == 'len(%s)' % data_v:
        ctx.ok(inst, g.loc(adv[0].ast), '%s += len(%s)' % (key, data_v))
    else:
        ctx.violation('Serializer.getTransmissionData:offset-advance', g.loc(adv[0].ast), 'the transfer offset is advanced by `%s`, not by the length of the chunk just read' % sz, instance=inst)
    # an in-memory snapshot is cut at [offset : offset + batch]: the slice that produces the chunk starts at the transfer offset and
    # ends a positive amount after that same offset
    res_g = U.full_run(ctx, g)
    for n in cfg.nodes:
        if n.kind != 'stmt' or not isinstance(n.ast, ast.Assign) or unparse(n.ast.targets[0]) != data_v:
            continue
        v = n.ast.value
        if not (isinstance(v, ast.Subscript) and isinstance(v.slice, ast.Slice)):
            continue
        inst = 'chunk slice is [offset : offset + batch size]'
        ctx.tick()
        lo, up = v.slice.lower, v.slice.upper
        keyt = ex.tb.term(U.parse_expr(key))
        lo_ok = lo is not None and bool(res_g.facts_at(n.id)) and all(oracle.entails(fs, ('eq', ex.tb.term(lo), keyt)) for fs in res_g.facts_at(n.id))
        up_ok = isinstance(up, ast.BinOp) and isinstance(up.op, ast.Add) and lo is not None and unparse(lo) in (unparse(up.left), unparse(up.right))
        if lo_ok and up_ok:
            ctx.ok(inst, g.loc(n.ast), unparse(v))
        else:
            ctx.violation('Serializer.getTransmissionData:chunk-slice', g.loc(n.ast),
                          '`%s` is not the slice from the transfer offset `%s` to that offset plus the batch size: from the second chunk on the slice is empty or overlaps, '
                          'the receiver takes the empty chunk for the end of the dump (a follower behind the compaction point never catches up)' % (unparse(v), key), instance=inst)
    # last flag and forgetting the transfer
    lasts = [n for n in cfg.nodes if n.kind == 'stmt' and isinstance(n.ast, ast.Assign) and unparse(n.ast.targets[0]) == last_v]
    inst = 'last-chunk flag = empty read; the transfer is forgotten after it'
    ctx.tick()
    okl = bool(lasts) and all(isinstance(n.ast.value, ast.Compare) and isinstance(n.ast.value.ops[0], ast.Eq) and isinstance(n.ast.value.comparators[0], ast.Constant)
                              and n.ast.value.comparators[0].value == 0 and unparse(n.ast.value.left) in (sz, 'len(%s)' % data_v) for n in lasts)
    res = U.full_run(ctx, g)
    pops = [n for n in cfg.nodes if n.kind == 'stmt' and n.ast is not None and any(isinstance(c, ast.Call) and isinstance(c.func, ast.Attribute) and c.func.attr == 'pop' for c in ast.walk(n.ast))]
    popped_on_last = any(all(any(l[0] == 'truthy' and l[2] and l[1].key == last_v for l in fs) for fs in res.facts_at(n.id)) and res.facts_at(n.id) for n in pops)
    if okl and popped_on_last:
        ctx.ok(inst, g.loc(lasts[0].ast), '')
    else:
        ctx.violation('Serializer.getTransmissionData:last-flag', g.loc(lasts[0].ast) if lasts else g.loc(),
                      'the last-chunk flag is not "the read returned nothing" / the finished transfer is not forgotten: the leader re-sends or never finishes the snapshot', instance=inst)
    # the receiving side: the dump is loaded (and the transfer acknowledged) only on the edge on which the receiver
    # reported the snapshot complete
    from .raftlog import install_nodes, ae_region
    R = ctx.R
    info = ae_region(ctx)
    hex_, hcfg = info['ex'], info['ex'].cfg
    h = R.handler
    for inode in install_nodes(ctx, hex_):
        inst = 'snapshot installed only when the receiver reported it complete'
        ctx.tick()
        guards = [n for n in hcfg.nodes if n.kind == 'cond' and any(isinstance(c, ast.Call) and isinstance(c.func, ast.Attribute) and c.func.attr == 'setTransmissionData'
                                                                       for c in ast.walk(n.ast))]
        # also `done = serializer.setTransmissionData(..)` followed by `if done:`
        for n in hcfg.nodes:
            if n.kind == 'cond' and isinstance(n.ast, ast.Name):
                v = U.single_assign_value(h, n.ast.id)
                if isinstance(v, ast.Call) and isinstance(v.func, ast.Attribute) and v.func.attr == 'setTransmissionData':
                    guards.append(n)
        okg = False
        for gnode in guards:
            tt = [d for d, l in gnode.succ if l == ('cond', True)]
            ff = [d for d, l in gnode.succ if l == ('cond', False)]
            via_t = bool(tt) and inode.id in hcfg.reachable_from(tt[0], avoid=[gnode.id])
            via_f = bool(ff) and inode.id in hcfg.reachable_from(ff[0], avoid=[gnode.id])
            around = inode.id in hcfg.reachable_from(info['entry'], avoid=[gnode.id])
            if via_t and not via_f and not around:
                okg = True
        if okg:
            ctx.ok(inst, h.loc(inode.ast), 'dominated by the true edge of setTransmissionData(..)')
        else:
            ctx.violation('%s:snapshot-installed-before-complete' % h.qualname, h.loc(inode.ast),
                          'the dump is loaded with clearJournal=True on a path that is not the "transfer complete" edge of setTransmissionData(): after the first chunk of a '
                          'multi-chunk transfer the node replaces its log by whatever dump file it has and acknowledges the snapshot', instance=inst)
    ctx.expect_min(3)


@rule('R-serializer-idle', 'the serializer leaves its busy state whenever it reports a finished dump: every return of '
                           'checkSerializing that may carry SUCCESS or FAILED has reset the busy marker that serialize() and '
                           'getTransmissionData() refuse on')
def r_serializer_idle(ctx):
    P = ctx.P
    S_ = serializer_funcs(ctx)
    ser = S_.methods['serialize']
    chk = S_.methods['checkSerializing']
    gtd = S_.methods['getTransmissionData']
    # busy marker: the attribute both serialize() and getTransmissionData() compare with a constant before an early return

    def early_guard_attrs(m):
        out = []
        for st in m.node.body[:3]:
            if isinstance(st, ast.If) and isinstance(st.test, ast.Compare) and len(st.test.ops) == 1 and st.body and isinstance(st.body[-1], ast.Return):
                a = P.self_attr(st.test.left, m.self_name)
                if a and isinstance(st.test.comparators[0], ast.Constant):
                    out.append((a, st.test.comparators[0].value, st.test.ops[0]))
        return out
    g1, g2 = early_guard_attrs(ser), early_guard_attrs(gtd)
    common = [x for x in g1 if any(x[0] == y[0] and x[1] == y[1] for y in g2)]
    ctx.require(common, 'busy marker (attribute compared with a constant at the top of serialize() and getTransmissionData()) not found')
    marker, idle, op = common[0]
    ctx.require(isinstance(op, ast.NotEq), 'busy guard is not `marker != <idle value>`')
    ex = U.explorer(ctx, chk)
    cfg = ex.cfg
    res = U.full_run(ctx, chk)
    terminal = {'SUCCESS', 'FAILED'}

    def state_names(e, depth=0):
        """(set of SERIALIZER_STATE member names the expression may denote, exact?)"""
        if isinstance(e, ast.Attribute) and isinstance(e.value, ast.Name) and e.value.id == 'SERIALIZER_STATE':
            return {e.attr}, True
        if isinstance(e, ast.IfExp):
            a, ea = state_names(e.body, depth)
            b, eb = state_names(e.orelse, depth)
            return a | b, ea and eb
        if isinstance(e, ast.Name) and depth < 3:
            defs = [d.value for d in U.walk_no_nested(chk.node) if isinstance(d, ast.Assign) and len(d.targets) == 1 and isinstance(d.targets[0], ast.Name) and d.targets[0].id == e.id]
            if defs:
                names, exact = set(), True
                for d in defs:
                    a, ea = state_names(d, depth + 1)
                    names |= a
                    exact = exact and ea
                return names, exact
        return set(), False
    goal = ('eq', ex.tb.term(U.parse_expr('self.%s' % marker)), ex.tb.term(ast.Constant(value=idle)))
    n_ret = 0
    for n in cfg.nodes:
        if n.kind != 'stmt' or not isinstance(n.ast, ast.Return) or n.ast.value is None or not res.reached(n.id):
            continue
        v = n.ast.value
        first = v.elts[0] if isinstance(v, ast.Tuple) and v.elts else v
        names, exact = state_names(first)
        inst = 'return `%s` leaves the serializer idle when it reports a finished dump' % unparse(v)[:60]
        n_ret += 1
        if exact and not (names & terminal):
            ctx.ok(inst, chk.loc(n.ast), 'reports %s: not a finished dump' % sorted(names), nontrivial=False)
            continue
        bad = None
        for fs in res.facts_at(n.id):
            ctx.tick()
            if oracle.entails(fs, goal):
                continue
            if not exact:
                # a state held in a variable: the path matters only if the variable may be SUCCESS / FAILED
                ft = ex.tb.term(first)
                cant = all(oracle.entails(fs, ('ne', ft, ex.tb.term(U.parse_expr('SERIALIZER_STATE.%s' % t)))) for t in terminal)
                if cant:
                    continue
                if not names:
                    # value of unknown origin (user checker): an explicit membership test must have been passed
                    if not any(l[0] == 'in' and l[1] == ft for l in fs):
                        continue
            bad = fs
            break
        if bad is None:
            ctx.ok(inst, chk.loc(n.ast), 'self.%s == %r entailed on every path that can report SUCCESS / FAILED' % (marker, idle))
        else:
            ctx.violation('%s:finished-dump-leaves-serializer-busy' % chk.qualname, chk.loc(n.ast),
                          'checkSerializing can return `%s` with self.%s still != %r: serialize() and getTransmissionData() refuse forever afterwards '
                          '(no further compaction, and a lagging follower is never sent the snapshot): %s' % (unparse(v), marker, idle, res.path_str(n.id, bad)), instance=inst)
    # the dual: once serialize() has started a dump (forked a child, or begun writing inline) it cannot return normally
    # with the marker still idle -- otherwise the finished dump is never noticed (no trim) and the next call starts another one
    scfg = U.explorer(ctx, ser).cfg
    starts = [n for n in scfg.nodes if n.kind in ('stmt', 'cond', 'with') and n.ast is not None and any(
        isinstance(c, ast.Call) and (unparse(c.func) in ('os.fork',) or unparse(c.func).endswith('BytesIO') or (isinstance(c.func, ast.Name) and c.func.id == 'open'))
        for c in (ast.walk(n.ast) if n.kind != 'with' else [x for i in n.ast.items for x in ast.walk(i.context_expr)]))]
    marks = [n.id for n in scfg.nodes if n.kind == 'stmt' and isinstance(n.ast, ast.Assign) and P.self_attr(n.ast.targets[0], ser.self_name) == marker
             and not (isinstance(n.ast.value, ast.Constant) and n.ast.value.value == idle)]
    exits_ = [n.id for n in scfg.nodes if n.kind == 'stmt' and n.ast is not None and any(isinstance(c, ast.Call) and unparse(c.func) == 'os._exit' for c in ast.walk(n.ast))]
    inst = 'serialize() leaves the busy marker set once a dump was started'
    ctx.tick()
    bad_start = None
    for st_ in starts:
        for d, l in st_.succ:
            if isinstance(l, tuple) and l[0] == 'exc':
                continue
            if d in marks or d in exits_:
                continue
            if scfg.exit.id in scfg.reachable_from(d, avoid=marks + exits_, follow_exc=True):
                bad_start = st_
    if not starts:
        ctx.unproven(inst, ser.loc(), 'no fork / open / BytesIO call found in serialize()')
    elif bad_start is None:
        ctx.ok(inst, ser.loc(), '%d start site(s): the normal exit is unreachable from them without assigning self.%s (or leaving the child with os._exit)' % (len(starts), marker))
    else:
        ctx.violation('%s:dump-started-without-busy-marker' % ser.qualname, ser.loc(bad_start.ast),
                      'after `%s` serialize() can return with self.%s still %r: checkSerializing() never reports this dump (the journal is never trimmed) and the next '
                      'compaction attempt starts another dump next to the running one' % (unparse(bad_start.ast)[:50], marker, idle), instance=inst)
    ctx.expect_min(6, 'returns of checkSerializing')


@rule('R-consumer-payload', 'with consumers the state component of a snapshot is the list [own state, consumer 1 state, ...] in '
                            'consumer order, and the loader reads it back the same way (own state = element 0, consumer i = element i + 1)')
def r_consumer_payload(ctx):
    P, R = ctx.P, ctx.R
    comp, call = compaction_func(ctx)
    loader = loader_func(ctx)
    # the consumers attribute: the one both functions iterate calling _serialize / _deserialize
    cons = None
    for f in (comp, loader):
        for n in U.walk_no_nested(f.node):
            if isinstance(n, ast.For):
                for x in ast.walk(n.iter):
                    a = P.self_attr(x, f.self_name)
                    if a and any(isinstance(c, ast.Call) and isinstance(c.func, ast.Attribute) and c.func.attr in ('_serialize', '_deserialize') for c in ast.walk(n)):
                        cons = a
    ctx.require(cons, 'no loop over the consumers calling _serialize / _deserialize')
    # ---- writer
    inst = 'writer: state component is [own state] + [c._serialize() for c in consumers]'
    ctx.tick()
    wloops = [n for n in U.walk_no_nested(comp.node) if isinstance(n, ast.For) and P.self_attr(n.iter, comp.self_name) == cons]
    okw = False
    why = 'no loop over self.%s in the compaction function' % cons
    for lp in wloops:
        apps = [c for c in ast.walk(lp) if isinstance(c, ast.Call) and isinstance(c.func, ast.Attribute) and c.func.attr == 'append' and isinstance(c.func.value, ast.Name)
                and c.args and isinstance(c.args[0], ast.Call) and isinstance(c.args[0].func, ast.Attribute) and c.args[0].func.attr == '_serialize'
                and isinstance(c.args[0].func.value, ast.Name) and isinstance(lp.target, ast.Name) and c.args[0].func.value.id == lp.target.id]
        if not apps:
            why = 'the consumer loop does not append `consumer._serialize()` to a list'
            continue
        lst = apps[0].func.value.id
        # every definition of that list variable that reaches the loop is a one-element list display
        cfg = U.explorer(ctx, comp).cfg
        res = U.full_run(ctx, comp)
        head = [n for n in cfg.nodes if n.ast is lp and n.kind == 'iter']
        defs = [d for d in U.walk_no_nested(comp.node) if isinstance(d, ast.Assign) and any(isinstance(t, ast.Name) and t.id == lst for t in d.targets)]
        displays = [d for d in defs if isinstance(d.value, ast.List) and len(d.value.elts) == 1]
        if not displays:
            why = '`%s` is appended to, but it is never initialised as the one-element list [own state]' % lst
            continue
        dn = [U.node_containing(cfg, d).id for d in displays]
        if head and head[0].id in cfg.reachable_from(cfg.entry.id, avoid=dn, follow_exc=False):
            # reachable without the display: only acceptable when the consumers are known to be absent there (loop does nothing)
            r2 = U.explorer(ctx, comp).run(avoid=dn, follow_exc=False)
            neg = U.explorer(ctx, comp).tb.literal(U.parse_expr('self.%s' % cons), False)
            if not all(neg in fs for fs in r2.facts_at(head[0].id)):
                why = 'the consumer loop is reached on a path where `%s` was not set to [own state] although consumers may exist' % lst
                continue
        okw = True
        wl = (lp, lst, displays[0])
    if not okw:
        # comprehension form: X = [own] + [c._serialize() for c in consumers]
        for d in U.walk_no_nested(comp.node):
            if isinstance(d, ast.Assign) and isinstance(d.value, ast.BinOp) and isinstance(d.value.op, ast.Add) and isinstance(d.value.left, ast.List) and len(d.value.left.elts) == 1 \
                    and isinstance(d.value.right, (ast.ListComp,)) and len(d.value.right.generators) == 1 and P.self_attr(d.value.right.generators[0].iter, comp.self_name) == cons \
                    and isinstance(d.value.right.elt, ast.Call) and isinstance(d.value.right.elt.func, ast.Attribute) and d.value.right.elt.func.attr == '_serialize':
                okw = True
                wl = (d, unparse(d.targets[0]), ast.Assign(targets=d.targets, value=d.value.left, lineno=d.lineno))
    if okw:
        ctx.ok(inst, comp.loc(wl[2]), '`%s = %s` then `%s.append(consumer._serialize())` for every consumer' % (wl[1], unparse(wl[2].value), wl[1]))
    else:
        ctx.violation('%s:consumer-states-not-collected' % comp.qualname, comp.loc(wloops[0] if wloops else None), why + ': a snapshot of an object with consumers cannot be written '
                      '(the compaction raises) or loses the consumers\' state', instance=inst)
    # ---- loader
    inst = 'loader: own state = element 0, consumer i = element i + 1'
    ctx.tick()
    rl = [n for n in U.walk_no_nested(loader.node) if isinstance(n, ast.For) and any(P.self_attr(x, loader.self_name) == cons for x in ast.walk(n.iter))
          and any(isinstance(c, ast.Call) and isinstance(c.func, ast.Attribute) and c.func.attr == '_deserialize' for c in ast.walk(n))]
    okl = False
    whyl = 'no loop over the consumers calling _deserialize'
    if rl:
        lp = rl[0]
        dc = [c for c in ast.walk(lp) if isinstance(c, ast.Call) and isinstance(c.func, ast.Attribute) and c.func.attr == '_deserialize'][0]
        arg = dc.args[0] if dc.args else None
        # consumersData[i] with consumersData = <state>[1:]  and i the enumerate index
        if isinstance(arg, ast.Subscript) and isinstance(arg.value, ast.Name) and isinstance(arg.slice, ast.Name):
            src = [d.value for d in U.walk_no_nested(loader.node) if isinstance(d, ast.Assign) and any(isinstance(t, ast.Name) and t.id == arg.value.id for t in d.targets)]
            slices = [v for v in src if isinstance(v, ast.Subscript) and isinstance(v.slice, ast.Slice) and isinstance(v.slice.lower, ast.Constant) and v.slice.lower.value == 1 and v.slice.upper is None]
            enum_ok = isinstance(lp.iter, ast.Call) and isinstance(lp.iter.func, ast.Name) and lp.iter.func.id == 'enumerate' and isinstance(lp.target, ast.Tuple) \
                and isinstance(lp.target.elts[0], ast.Name) and lp.target.elts[0].id == arg.slice.id
            own = [d for d in U.walk_no_nested(loader.node) if isinstance(d, ast.Assign) and isinstance(d.value, ast.Subscript) and isinstance(d.value.slice, ast.Constant)
                   and d.value.slice.value == 0 and slices and unparse(d.value.value) == unparse(slices[0].value)]
            if slices and enum_ok and own:
                okl = True
            else:
                whyl = 'the consumers are not restored from elements 1.. of the state component by their position (%s)' % (
                    'no `[1:]` slice' if not slices else ('index is not the enumerate() position' if not enum_ok else 'own state is not element 0'))
        elif isinstance(arg, ast.Name) and isinstance(lp.iter, ast.Call) and isinstance(lp.iter.func, ast.Name) and lp.iter.func.id in ('zip', 'izip') and len(lp.iter.args) == 2 \
                and isinstance(lp.target, ast.Tuple) and len(lp.target.elts) == 2 and isinstance(lp.target.elts[1], ast.Name) and lp.target.elts[1].id == arg.id:
            # for consumer, state in zip(consumers, <state>[1:])
            second = U.deref1(P, loader, lp.iter.args[1])
            if isinstance(second, ast.Subscript) and isinstance(second.slice, ast.Slice) and isinstance(second.slice.lower, ast.Constant) and second.slice.lower.value == 1 \
                    and second.slice.upper is None and P.self_attr(lp.iter.args[0], loader.self_name) == cons:
                okl = True
            else:
                whyl = 'zip() does not pair the consumers with elements 1.. of the state component'
        else:
            whyl = '`%s` is not `<consumer states>[i]`' % (unparse(arg) if arg is not None else '?')
    if okl:
        ctx.ok(inst, loader.loc(rl[0]), unparse(dc))
    else:
        ctx.violation('%s:consumer-states-not-restored-by-position' % loader.qualname, loader.loc(rl[0] if rl else None), whyl, instance=inst)
    ctx.expect_min(2)


@rule('R-fork-child-exits', 'in the forking dump mode the process image is duplicated only to write the file: os._exit is reached '
                            'only in the forked child, and the forked child never returns from serialize()')
def r_fork_child_exits(ctx):
    """A child that returns from serialize() goes on running as a second copy of the node (same identity, same sockets);
    an os._exit() reached without a fork terminates the node itself after writing the dump.  Both pass tests that only
    look at the dump file."""
    P = ctx.P
    S = P.cls('Serializer')
    ser = S.methods.get('serialize')
    ctx.require(ser is not None, 'Serializer.serialize gone')
    ex = U.explorer(ctx, ser)
    cfg = ex.cfg
    forks = [c for c in P.calls_in(ser) if unparse(c.func) in ('os.fork', 'fork')]
    exits = [c for c in P.calls_in(ser) if unparse(c.func) in ('os._exit', '_exit')]
    if not forks:
        ctx.require(not exits, 'os._exit without any fork in serialize()')
        ctx.ok('serialize() does not fork', ser.loc(), 'nothing to pair')
        ctx.expect_min(1)
        return
    fork_assign = None
    for n in ast.walk(ser.node):
        if isinstance(n, ast.Assign) and n.value is forks[0] and len(n.targets) == 1 and isinstance(n.targets[0], ast.Name):
            fork_assign = n
    ctx.require(fork_assign is not None, 'the result of os.fork() is not kept in a local')
    pid = fork_assign.targets[0].id
    fork_nodes = [n.id for n in U.nodes_containing(cfg, forks[0])]
    exit_nodes = [n.id for c in exits for n in U.nodes_containing(cfg, c)]

    def ev(m):
        return ('fork',) if m.id in fork_nodes else ()
    res = ex.run(track=ev, stop=exit_nodes, follow_exc=True)
    # (a) os._exit only after a fork, in the child
    inst = 'os._exit is reached only in the forked child'
    bad = None
    n_states = 0
    child = U.goal(ex, '%s == 0' % pid)
    for e in exit_nodes:
        for fs, cnt in res.cstates.get(e, ()):
            n_states += 1
            ctx.tick()
            if dict(cnt).get('fork', 0) < 1:
                bad = (e, fs, 'no fork happened on this path: the node process itself exits after writing the dump')
            elif oracle.entails(fs, U.goal(ex, '%s != 0' % pid)):
                bad = (e, fs, 'this is the parent')
    if bad is not None:
        ctx.violation('Serializer.serialize:exit-outside-child', ser.loc(cfg.nodes[bad[0]].ast), 'os._exit() is reachable where %s: %s' % (bad[2], res.path_str(bad[0], bad[1])), instance=inst)
    else:
        ctx.ok(inst, ser.loc(exits[0]) if exits else ser.loc(), '%d path classes reach os._exit, all behind fork() with %s == 0 possible' % (n_states, pid))
    # (b) the child never leaves serialize() normally or by an exception
    inst = 'the forked child never returns from serialize()'
    bad = None
    n_states = 0
    for end in (cfg.exit.id, cfg.raise_exit.id):
        for fs, cnt in res.cstates.get(end, ()):
            if dict(cnt).get('fork', 0) < 1:
                continue
            n_states += 1
            ctx.tick()
            if not oracle.entails(fs, U.goal(ex, '%s != 0' % pid)):
                bad = (end, fs)
    if bad is not None:
        ctx.violation('Serializer.serialize:child-returns', ser.loc(fork_assign),
                      'after os.fork() a path leaves serialize() %s without `%s != 0` being known: the child process goes on running as a second copy of the node: %s'
                      % ('normally' if bad[0] == cfg.exit.id else 'by an exception', pid, res.path_str(bad[0], bad[1])), instance=inst)
    else:
        ctx.ok(inst, ser.loc(fork_assign), '%d path classes leave serialize() after the fork, all in the parent' % n_states)
    ctx.expect_min(2)
