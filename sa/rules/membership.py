"""Dynamic membership rules (C10)."""
import ast
from . import rule
from .. import util as U
from ..pyir import AnalysisError, unparse
from .. import oracle
from .raftlog import log_op_sites, ae_region, loader_func


def change_funcs(ctx):
    """(gate function, mutation function): the mutation function adds/discards voters and calls
    transport.addNode/dropNode; the gate function is the callee of the queue drain that calls it"""
    P, R = ctx.P, ctx.R
    mut = None
    for f in P.methods_of(R.S):
        calls = [c.func.attr for c in P.calls_in(f) if isinstance(c.func, ast.Attribute) and P.self_attr(c.func.value, f.self_name) == R.transport]
        if 'addNode' in calls and 'dropNode' in calls and 'reverse' in f.params:
            mut = f
    if mut is None:
        # one of the two transport calls may be missing (that is what R-removed-excluded reports): the function that both adds to
        # and discards from the voter set
        for f in P.methods_of(R.S):
            if f is R.init:
                continue
            kinds = set(a.node.func.attr for a in P.accesses(f) if a.attr == R.voters and a.kind == 'mutcall' and isinstance(a.node, ast.Call) and isinstance(a.node.func, ast.Attribute))
            if 'add' in kinds and (kinds & {'discard', 'remove'}):
                mut = f
    if mut is None:
        raise AnalysisError('membership mutation function (adds/drops a voter, takes `reverse`) not found')
    gate = None
    for c in P.calls_in(R.queue_drain):
        r = P.resolve_call(R.queue_drain, c)
        if r.kind == 'method':
            for t in r.targets:
                if any(mut in P.resolve_call(t, cc).targets for cc in P.calls_in(t)):
                    gate = t
                    gate_call = c
    if gate is None:
        raise AnalysisError('leader-side membership gate (callee of the queue drain that calls the mutation) not found')
    return gate, gate_call, mut


def pending_marker(ctx, gate):
    """attribute tested `is not None` on the way to `return False` in the gate"""
    P = ctx.P
    ex = U.explorer(ctx, gate)
    cfg = ex.cfg
    marks = []
    for n in cfg.nodes:
        if n.kind == 'cond' and isinstance(n.ast, ast.Compare) and len(n.ast.ops) == 1 and isinstance(n.ast.ops[0], (ast.IsNot, ast.Is)):
            a = P.self_attr(U.deref1(P, gate, n.ast.left), gate.self_name)      # the attribute, or a local copy of it
            if a is None:
                continue
            pol = isinstance(n.ast.ops[0], ast.IsNot)
            for d, l in n.succ:
                if l == ('cond', pol):
                    # a refusal (`return False`) is reachable on the not-None side before the mutation
                    reach = cfg.reachable_from(d, follow_exc=False)
                    if any(cfg.nodes[i].kind == 'stmt' and isinstance(cfg.nodes[i].ast, ast.Return) and isinstance(cfg.nodes[i].ast.value, ast.Constant)
                           and cfg.nodes[i].ast.value.value is False for i in reach) and a not in marks:
                        marks.append(a)
    return marks


def _noop_attr(ctx):
    """the attribute in which a new leader remembers the index of the no-op entry it appends"""
    P, R = ctx.P, ctx.R
    from .election import become_leader_func
    from .raftlog import log_op_sites
    for b in become_leader_func(ctx):
        for g, c, via in log_op_sites(ctx, 'add'):
            if g is not b or len(c.args) < 2:
                continue
            for n in ast.walk(b.node):
                if isinstance(n, ast.Assign) and P.self_attr(n.targets[0], b.self_name) and unparse(n.value) == unparse(c.args[1]):
                    return P.self_attr(n.targets[0], b.self_name)
    return None


@rule('R-gate-live', 'the leader-side gate of membership changes is live: the pending-change marker is set to the index '
                     'of every appended membership entry, and both gates (own no-op applied, previous change applied) '
                     'dominate the mutation')
def r_gate_live(ctx):
    P, R = ctx.P, ctx.R
    gate, gate_call, mut = change_funcs(ctx)
    gate = U.bool_returns_normalised(P, gate)       # `return mutate(..) and marker is None` is read as branches
    marks = pending_marker(ctx, gate)
    ctx.require(marks, 'the gate %s refuses on no `is not None` marker' % gate.qualname)
    marker = marks[0]
    # (a) some write of a non-None value exists
    non_none = []
    for acc in P.class_accesses(R.S):
        if acc.attr == marker and acc.kind == 'write' and isinstance(acc.node, ast.Assign):
            v = acc.node.value
            if not (isinstance(v, ast.Constant) and v.value is None):
                non_none.append(acc)
    ctx.tick()
    if not non_none:
        ctx.violation('%s:pending-marker-never-set' % gate.qualname, gate.loc(),
                      'self.%s is tested `is not None` to refuse overlapping membership changes but is only ever assigned None: the gate never refuses' % marker,
                      instance='pending marker has a non-None writer')
    else:
        ctx.ok('pending marker self.%s has a non-None writer' % marker, non_none[0].func.loc(non_none[0].node), '%d writer(s)' % len(non_none))
    # (b) every appended membership entry sets the marker to its index
    f = R.queue_drain
    ex = U.explorer(ctx, f)
    cfg = ex.cfg
    res = U.full_run(ctx, f)
    adds = [c for g, c, via in log_op_sites(ctx, 'add') if g is f]
    ctx.require(adds, 'queue drain appends nothing')
    # request variable: assigned from the membership parser; None when not a membership command
    req_var = None
    for a in gate_call.args:
        if isinstance(a, ast.Name):
            req_var = a.id
    ctx.require(req_var is not None, 'gate is not called with the parsed request variable')
    get_node = U.node_containing(cfg, R.queue_get_call)
    loops = [p for p in get_node.parents if isinstance(p, (ast.While, ast.For))]
    head = [n for n in cfg.nodes if n.ast is loops[-1] and n.kind in ('loop', 'iter')][0]
    markers = [n.id for n in cfg.nodes if n.kind == 'stmt' and isinstance(n.ast, ast.Assign)
               and any(P.self_attr(t, f.self_name) == marker for t in n.ast.targets)
               and not (isinstance(n.ast.value, ast.Constant) and n.ast.value.value is None)]
    req_none = ('none', ex.tb.term(ast.Name(id=req_var, ctx=ast.Load())), True)
    for c in adds:
        an = U.node_containing(cfg, c)
        inst = 'appended membership entry sets the pending marker'
        bad = None
        for fs in res.facts_at(an.id):
            ctx.tick()
            if oracle.entails(fs, req_none):
                continue            # not a membership command on this path
            r2 = ex.run(start=an.id, init=fs, avoid=markers, stop=[head.id, cfg.exit.id], follow_exc=False)
            for end in (head.id, cfg.exit.id):
                for fs2 in r2.facts_at(end):
                    if not oracle.entails(fs2, req_none):
                        bad = (end, fs2, r2)
        if bad is not None:
            end, fs2, r2 = bad
            ctx.violation('%s:membership-append-without-marker' % f.qualname, f.loc(c),
                          'a membership command is appended to the log without recording its index in self.%s, so the next change is not refused: %s'
                          % (marker, r2.path_str(end, fs2)), instance=inst)
        else:
            # the value assigned is the index passed to log.add
            ok_val = True
            idx_arg = c.args[1] if len(c.args) >= 2 else None
            for mid in markers:
                mv = cfg.nodes[mid].ast.value
                if idx_arg is not None and unparse(mv) != unparse(idx_arg):
                    ok_val = False
                    ctx.violation('%s:pending-marker-wrong-index' % f.qualname, f.loc(cfg.nodes[mid].ast),
                                  'the pending marker is set to `%s`, not to the index `%s` of the appended entry' % (unparse(mv), unparse(idx_arg)), instance=inst)
            if ok_val:
                ctx.ok(inst, f.loc(c), 'end of iteration unreachable from the append with a membership request unless self.%s = <entry index> is passed' % marker)
    # (c) both gates dominate the mutation inside the gate function
    gex = U.explorer(ctx, gate)
    gres = U.full_run(ctx, gate)
    mcalls = [c for c in P.calls_in(gate) if mut in P.resolve_call(gate, c).targets]
    for c in mcalls:
        n = U.node_containing(gex.cfg, c)
        inst = 'mutation in the gate behind both tests'
        g1 = ('none', gex.tb.term(U.parse_expr('self.%s' % marker)), True)
        ok1, cex1 = U.must(ctx, gres, n.id, g1)
        # own no-op applied: a `le` fact between a no-op index attribute and lastApplied
        la = 'self.' + R.lastApplied
        ok2 = all(any(l[0] in ('le', 'lt') and la in (l[1].key, l[2].key) and l[2].key == la for l in fs) for fs in gres.facts_at(n.id)) and bool(gres.facts_at(n.id))
        # exactly: the index remembered for the no-op appended on election is applied (`noop - 1 <= lastApplied` lets a change
        # through one round trip before the leader has committed anything of its own term)
        noop_attr = _noop_attr(ctx)
        if ok2 and noop_attr is not None:
            g2 = ('le', gex.tb.term(U.parse_expr('self.%s' % noop_attr)), gex.tb.term(U.parse_expr(la)))
            ok2 = all(oracle.entails(fs, g2) for fs in gres.facts_at(n.id))
        ctx.tick()
        if ok1 and ok2:
            ctx.ok(inst, gate.loc(c), 'marker is None and <own no-op index> <= lastApplied entailed')
        else:
            ctx.violation('%s:mutation-without-gate' % gate.qualname, gate.loc(c),
                          'the member set is changed on a path where %s' % ('an earlier change may still be pending' if not ok1 else 'the leader\'s own no-op entry may not be applied yet'),
                          instance=inst)
    # the marker is cleared only when the recorded index is applied
    for st, kind in U.assigns_to_attr(P, gate, marker):
        if isinstance(st.value, ast.Constant) and st.value.value is None:
            n = U.node_containing(gex.cfg, st)
            g = ('le', gex.tb.term(U.parse_expr('self.%s' % marker)), gex.tb.term(U.parse_expr('self.%s' % R.lastApplied)))
            ok, cex = U.must(ctx, gres, n.id, g)
            inst = 'marker cleared only once the change is applied'
            if ok:
                ctx.ok(inst, gate.loc(st), 'lastApplied >= marker entailed')
            else:
                ctx.violation('%s:marker-cleared-early' % gate.qualname, gate.loc(st), 'the pending marker is cleared before the recorded entry is applied', instance=inst)
    ctx.expect_min(3)


@rule('R-rollback-paired', 'a truncated membership entry is reverted (reverse-order loop with reverse=True over the deleted '
                           'slice) before the truncation; after clearing the log the member set is restored from the snapshot')
def r_rollback_paired(ctx):
    P, R = ctx.P, ctx.R
    gate, gate_call, mut = change_funcs(ctx)
    info = ae_region(ctx)
    ex, res = info['ex'], info['res']
    h = R.handler
    cfg = ex.cfg
    sites = [(f, c, via) for f, c, via in log_op_sites(ctx, 'deleteEntriesFrom') if f is h]
    # reverse loops: For over reversed(X) whose body calls mut(.., reverse=True)
    rev_loops = []
    rev_iter = {}
    for n in cfg.nodes:
        it = U.deref1(P, h, n.ast.iter) if n.kind == 'iter' else None        # reversed(..) itself or a local holding it
        if n.kind == 'iter' and isinstance(it, ast.Call) and isinstance(it.func, ast.Name) and it.func.id == 'reversed':
            for c in [x for x in ast.walk(n.ast) if isinstance(x, ast.Call)]:
                if mut in P.resolve_call(h, c).targets and any(k.arg == 'reverse' and isinstance(k.value, ast.Constant) and k.value.value is True for k in c.keywords):
                    rev_loops.append(n)
                    rev_iter[n.id] = it
    dyn = U.goal(ex, 'self.%s.dynamicMembershipChange' % R.conf)
    for f, c, via in sites:
        inst = 'truncation preceded by the membership rollback'
        tn = U.node_containing(cfg, c)
        if not rev_loops:
            ctx.violation('%s:truncate-without-membership-rollback' % h.qualname, h.loc(c), 'no reverse-order rollback loop precedes the truncation', instance=inst)
            continue
        # with dynamic membership on, the truncation is not reachable when the rollback loop is removed
        bad = False
        r2 = ex.run(start=info['entry'], init=frozenset([ex.tb.literal(U.parse_expr('self.%s.dynamicMembershipChange' % R.conf), True)]),
                    avoid=[n.id for n in rev_loops])
        ctx.tick()
        if r2.reached(tn.id):
            bad = True
            ctx.violation('%s:truncate-bypasses-membership-rollback' % h.qualname, h.loc(c),
                          'with dynamicMembershipChange enabled the log is truncated on a path that skips the rollback of the deleted membership entries: %s'
                          % r2.path_str(tn.id, r2.facts_at(tn.id)[0]), instance=inst)
        # same slice: the start expression of the reversed slice appears in the truncation index
        rl = rev_loops[0]
        it = rev_iter.get(rl.id, rl.ast.iter).args[0]
        start_names = set()
        if isinstance(it, ast.Subscript) and isinstance(it.slice, ast.Slice) and it.slice.lower is not None:
            start_names = set(x.id for x in ast.walk(it.slice.lower) if isinstance(x, ast.Name))
            start_consts = [x.value for x in ast.walk(it.slice.lower) if isinstance(x, ast.Constant)]
        arg_names = set(x.id for a in c.args for x in ast.walk(a) if isinstance(x, ast.Name))
        if start_names and not (start_names <= arg_names):
            bad = True
            ctx.violation('%s:rollback-slice-mismatch' % h.qualname, h.loc(rl.ast),
                          'the rollback loop runs over `%s` but the truncation starts at `%s`: the reverted entries are not the deleted ones'
                          % (unparse(it), unparse(c.args[0])), instance=inst)
        # same entries: the loop runs over X[S:] with X fetched from the log starting at index A, and the truncation starts at A + S
        if not bad and isinstance(it, ast.Subscript) and isinstance(it.slice, ast.Slice) and it.slice.lower is not None and it.slice.upper is None and isinstance(it.value, ast.Name) and c.args:
            inst5 = 'rolled-back entries are exactly the deleted ones'
            def log_start(name, depth=0):
                """AST of the log index the list `name` starts at: name = <fetch from the log>(A, ..) -> A;  name = other[k:] -> start(other) + k"""
                ds = [d for d in U.walk_no_nested(h.node) if isinstance(d, ast.Assign) and len(d.targets) == 1 and isinstance(d.targets[0], ast.Name) and d.targets[0].id == name]
                if len(ds) != 1 or depth > 3:
                    return None
                v = ds[0].value
                if isinstance(v, ast.Call) and v.args and any(('A:' + R.log) in P.reads(t) for t in P.resolve_call(h, v).targets):
                    return v.args[0]
                if isinstance(v, ast.Subscript) and isinstance(v.slice, ast.Slice) and v.slice.upper is None and v.slice.lower is not None and isinstance(v.value, ast.Name):
                    b = log_start(v.value.id, depth + 1)
                    if b is not None:
                        return ast.BinOp(left=b, op=ast.Add(), right=v.slice.lower)
                return None
            start = log_start(it.value.id)
            fetch = [ast.Expr(value=ast.Call(func=ast.Name(id='_', ctx=ast.Load()), args=[start], keywords=[]))] if start is not None else []
            xdefs = [None]
            ctx.tick()
            if len(xdefs) == 1 and fetch:
                want = ex.tb.term(ast.BinOp(left=fetch[0].value.args[0], op=ast.Add(), right=it.slice.lower))
                okx = all(oracle.entails(fs, ('eq', ex.tb.term(c.args[0]), want)) for fs in res.facts_at(tn.id)) and bool(res.facts_at(tn.id))
                if okx:
                    ctx.ok(inst5, h.loc(rl.ast), '`%s` holds the log from index `%s`; truncation index == that + `%s`' % (it.value.id, unparse(fetch[0].value.args[0]), unparse(it.slice.lower)))
                else:
                    bad = True
                    ctx.violation('%s:rollback-entries-not-the-deleted-ones' % h.qualname, h.loc(rl.ast),
                                  'the rollback loop runs over `%s`, where `%s` holds the log from index `%s`, but the truncation deletes from `%s`: membership entries that are '
                                  'deleted are not reverted (or kept ones are)' % (unparse(it), it.value.id, unparse(fetch[0].value.args[0]), unparse(c.args[0])), instance=inst5)
            else:
                ctx.unproven(inst5, h.loc(rl.ast), 'origin of `%s` is not a single fetch from the log' % it.value.id)
        if not bad:
            ctx.ok(inst, h.loc(c), 'reverse loop with reverse=True dominates the truncation under dynamicMembershipChange; slice start `%s` shared' % (', '.join(sorted(start_names)) or 'const'))
    # loader: clear followed by restore of the member set
    loader = loader_func(ctx)
    lex = U.explorer(ctx, loader)
    lcfg = lex.cfg
    restore = None
    for g in P.methods_of(R.S):
        # restore function: assigns the voter set from its parameter
        for st, kind in U.assigns_to_attr(P, g, R.voters):
            if g.name != '__init__' and kind == 'assign' and isinstance(st.value, ast.Name):
                restore = g
    if restore is None:
        # ... or, failing that, the method the loader hands a list built from the snapshot to, which touches the voter set
        for c in P.calls_in(loader):
            r = P.resolve_call(loader, c)
            if r.kind == 'method' and c.args and isinstance(c.args[0], (ast.ListComp, ast.Subscript, ast.Name, ast.SetComp)):
                for t in r.targets:
                    if any(a.attr == R.voters and a.kind in ('write', 'mutcall', 'aug') for a in P.accesses(t)) and len(t.params) == 2:
                        restore = t
    ctx.require(restore is not None, 'member-set restore function not found')
    # the restore installs the given set: every normal path assigns the voter set from (a local derived from) its parameter
    rex = U.explorer(ctx, restore)
    rcfg = rex.cfg
    installs = [U.node_containing(rcfg, st).id for st, kind in U.assigns_to_attr(P, restore, R.voters) if kind == 'assign' and isinstance(st.value, ast.Name)]
    inst = 'restoring the member set makes the voter set equal to the given set'
    ctx.tick()
    if installs and rcfg.exit.id not in rcfg.reachable_from(rcfg.entry.id, avoid=installs, follow_exc=False):
        ctx.ok(inst, restore.loc(), 'normal exit of %s unreachable without `self.%s = <new set>`' % (restore.qualname, R.voters))
    else:
        ctx.violation('%s:restore-does-not-install-the-set' % restore.qualname, restore.loc(),
                      'the function that restores the member set from a snapshot can return without assigning the voter set from its argument: members that joined while this node '
                      'lagged are registered with the transport but never become voters here (it computes majorities over a stale set)', instance=inst)
    rnodes = [n.id for n in lcfg.nodes if n.kind == 'stmt' and any(restore in P.resolve_call(loader, c).targets for c in ast.walk(n.ast) if isinstance(c, ast.Call))]
    for f, c, via in log_op_sites(ctx, 'clear'):
        if f is not loader:
            continue
        cn = U.node_containing(lcfg, c)
        inst = 'log clear in the loader followed by member-set restore'
        r3 = lex.run(start=cn.id, init=frozenset([lex.tb.literal(U.parse_expr('self.%s.dynamicMembershipChange' % R.conf), True)]), avoid=rnodes, follow_exc=False)
        ctx.tick()
        if r3.reached(lcfg.exit.id):
            ctx.violation('%s:clear-without-member-restore' % loader.qualname, loader.loc(c),
                          'after replacing the log by the snapshot the member set is not restored from the snapshot on every path', instance=inst)
        elif not rnodes:
            ctx.violation('%s:no-member-restore' % loader.qualname, loader.loc(c), 'the loader never restores the member set', instance=inst)
        else:
            ctx.ok(inst, loader.loc(c), 'normal exit unreachable without the restore when dynamicMembershipChange is on')
        # the restored set comes from the snapshot's member component (data[3]) minus self
    # every path on which the loader adopts the snapshot (writes the applied index) restores the member set,
    # whether or not the journal was replaced
    dyn_lit = lex.tb.literal(U.parse_expr('self.%s.dynamicMembershipChange' % R.conf), True)
    for st, kind in U.assigns_to_attr(P, loader, R.lastApplied):
        an = U.node_containing(lcfg, st)
        inst = 'adopting the snapshot position restores the member set'
        # forward: from the adoption to the exit; backward: restore may also precede the adoption
        fwd = lex.run(start=an.id, init=frozenset([dyn_lit]), avoid=rnodes, follow_exc=False)
        bwd = lex.run(init=frozenset([dyn_lit]), avoid=rnodes, follow_exc=False)
        ctx.tick()
        if fwd.reached(lcfg.exit.id) and bwd.reached(an.id):
            ctx.violation('%s:snapshot-adopted-without-member-restore' % loader.qualname, loader.loc(st),
                          'with dynamicMembershipChange enabled the loader can adopt the snapshot position without restoring the member set stored in the snapshot '
                          '(membership entries compacted away are then forgotten): %s' % bwd.path_str(an.id, bwd.facts_at(an.id)[0]), instance=inst)
        else:
            ctx.ok(inst, loader.loc(st), 'no path passes the adoption and reaches the exit without the restore')
    ctx.expect_min(3)


@rule('R-apply-on-append', 'leader: a membership command is appended only if the mutation succeeded, and not appended when '
                           'refused; follower: every stored entry is scanned for membership commands after the store loop')
def r_apply_on_append(ctx):
    P, R = ctx.P, ctx.R
    gate, gate_call, mut = change_funcs(ctx)
    f = R.queue_drain
    ex = U.explorer(ctx, f)
    cfg = ex.cfg
    adds = [c for g, c, via in log_op_sites(ctx, 'add') if g is f]
    gn = [n for n in U.nodes_containing(cfg, gate_call) if n.kind == 'cond']
    ctx.require(gn, 'the gate call is not a branch condition of the drain')
    gn = gn[0]
    get_node = U.node_containing(cfg, R.queue_get_call)
    loops = [p for p in get_node.parents if isinstance(p, (ast.While, ast.For))]
    head = [n for n in cfg.nodes if n.ast is loops[-1] and n.kind in ('loop', 'iter')][0]
    false_t = [d for d, l in gn.succ if l == ('cond', False)]
    for c in adds:
        an = U.node_containing(cfg, c)
        inst = 'refused membership command is not appended'
        ctx.tick()
        if false_t and an.id in cfg.reachable_from(false_t[0], avoid=[head.id]):
            ctx.violation('%s:refused-change-appended' % f.qualname, f.loc(c), 'a membership command refused by the gate is still appended to the log', instance=inst)
        else:
            ctx.ok(inst, f.loc(c), 'append unreachable from the refusing edge of the gate within the iteration')
        # the gate (mutation) precedes the append: append not reachable from the request parse without passing the gate or request None
    # follower: after the add loop, scan loop over the same iterable calling mut (no reverse)
    info = ae_region(ctx)
    hex_, hres = info['ex'], info['res']
    h = R.handler
    hcfg = hex_.cfg
    add_loops = []
    for g, c, via in log_op_sites(ctx, 'add'):
        if g is not h:
            continue
        for n in U.nodes_containing(hcfg, c):
            for p in n.parents:
                if isinstance(p, ast.For):
                    add_loops.append(p)
    scan_loops = []
    for n in hcfg.nodes:
        if n.kind == 'iter' and n.ast not in add_loops:
            for c in [x for x in ast.walk(n.ast) if isinstance(x, ast.Call)]:
                if mut in P.resolve_call(h, c).targets and not any(k.arg == 'reverse' and not (isinstance(k.value, ast.Constant) and not k.value.value) for k in c.keywords):
                    scan_loops.append(n)
    inst = 'follower applies membership entries it stored'
    ctx.tick()
    if not add_loops:
        ctx.unproven(inst, h.loc(), 'store loop not found')
    elif not scan_loops:
        ctx.violation('%s:stored-membership-not-applied' % h.qualname, h.loc(add_loops[0]), 'stored entries are not scanned for membership commands', instance=inst)
    else:
        same = [n for n in scan_loops if unparse(n.ast.iter) == unparse(add_loops[0].iter)]
        # order by control flow, not by line number (an inlined helper keeps its own line numbers)
        add_heads = [m for m in hcfg.nodes if m.kind == 'iter' and m.ast is add_loops[0]]
        after = [n for n in same if add_heads and n.id in hcfg.reachable_from(add_heads[0].id, follow_exc=False)
                 and add_heads[0].id not in hcfg.reachable_from(n.id, follow_exc=False)]
        if same and after:
            ctx.ok(inst, h.loc(after[0].ast), 'scan loop over `%s` follows the store loop' % unparse(add_loops[0].iter))
            # ... on every node: with dynamic membership enabled no path from the store loop to the end of the handler avoids the scan
            inst2 = 'with dynamicMembershipChange on, every path after storing entries passes the membership scan'
            ctx.tick()
            dyn = hex_.tb.literal(U.parse_expr('self.%s.dynamicMembershipChange' % R.conf), True)
            done = [d for d, l in add_heads[0].succ if l == 'done']
            if dyn is not None and done:
                r3 = hex_.run(start=done[0], init=frozenset([dyn]), avoid=[n.id for n in after], follow_exc=False)
                if r3.reached(hcfg.exit.id):
                    fs3 = r3.facts_at(hcfg.exit.id)[0]
                    ctx.violation('%s:membership-scan-bypassed' % h.qualname, h.loc(after[0].ast),
                                  'with dynamicMembershipChange enabled some nodes store membership entries without applying them (path avoiding the scan: %s): such a node '
                                  'keeps the old member set until the entry is committed -- or forever, if it never learns the new leader' % r3.path_str(hcfg.exit.id, fs3),
                                  instance=inst2)
                else:
                    ctx.ok(inst2, h.loc(after[0].ast), 'handler exit unreachable from the end of the store loop without the scan loop')
            else:
                ctx.unproven(inst2, h.loc(after[0].ast), 'configuration flag not expressible as a literal')
        else:
            ctx.violation('%s:membership-scan-mismatch' % h.qualname, h.loc(scan_loops[0].ast),
                          'the membership scan runs over `%s` but the stored entries are `%s`' % (unparse(scan_loops[0].ast.iter), unparse(add_loops[0].iter)), instance=inst)
    # a node that replays its journal after a restart (or learns of the commit later) applies membership entries again
    # at apply time; the mutation is idempotent and must not depend on anything but the entry being a membership command
    d = R.dispatcher
    dex = U.explorer(ctx, d)
    dcfg = dex.cfg
    mcalls = [U.node_containing(dcfg, c).id for c in P.calls_in(d) if mut in P.resolve_call(d, c).targets]
    parses = [n for n in dcfg.nodes if n.kind == 'stmt' and isinstance(n.ast, ast.Assign) and isinstance(n.ast.value, ast.Call)
              and any('parse' in t.name.lower() or 'A:' + R.voters not in P.reads(t) and len(t.params) == 2 and any(
                  isinstance(x, ast.Constant) and x.value in ('add', 'rem') for x in ast.walk(t.node)) for t in P.resolve_call(d, n.ast.value).targets)]
    inst = 'the dispatcher re-applies every membership command it executes'
    ctx.tick()
    if not mcalls:
        ctx.violation('%s:membership-not-applied-at-apply-time' % d.qualname, d.loc(), 'the dispatcher never calls the membership mutation: a node that replays its journal after a '
                      'restart keeps the member set of its start-up configuration', instance=inst)
    elif parses and isinstance(parses[0].ast.targets[0], ast.Name):
        var = parses[0].ast.targets[0].id
        notnone = ('none', dex.tb.term(ast.Name(id=var, ctx=ast.Load())), False)
        succ = [dd for dd, l in parses[0].succ if not (isinstance(l, tuple) and l[0] == 'exc')]
        r4 = dex.run(start=succ[0], init=frozenset([notnone]), avoid=mcalls, follow_exc=False) if succ else None
        if r4 is not None and r4.reached(dcfg.exit.id):
            fs4 = r4.facts_at(dcfg.exit.id)[0]
            ctx.violation('%s:membership-reapplication-conditional' % d.qualname, d.loc(parses[0].ast),
                          'a membership command can be executed by the dispatcher without calling the membership mutation (%s): after a restart from the journal, or when the entry '
                          'is committed late, the node keeps a member set that differs from the one its log defines' % r4.path_str(dcfg.exit.id, fs4), instance=inst)
        else:
            ctx.ok(inst, d.loc(parses[0].ast), 'with a parsed membership request the dispatcher cannot return without calling %s' % mut.name)
    else:
        ctx.unproven(inst, d.loc(), 'membership parse in the dispatcher not recognised')
    ctx.expect_min(3)


@rule('R-removed-excluded', 'removing a voter discards it from the voter set, forgets its nextIndex/matchIndex and drops '
                            'its connection; adding one initialises them and registers it with the transport')
def r_removed_excluded(ctx):
    P, R = ctx.P, ctx.R
    gate, gate_call, mut = change_funcs(ctx)
    ex = U.explorer(ctx, mut)
    cfg = ex.cfg
    sn = mut.self_name

    def eff(n):
        out = []
        if n.kind != 'stmt':
            return out
        for c in [x for x in ast.walk(n.ast) if isinstance(x, ast.Call) and isinstance(x.func, ast.Attribute)]:
            a = P.self_attr(c.func.value, sn)
            if a == R.voters and c.func.attr in ('discard', 'remove'):
                out.append('voters-')
            if a == R.voters and c.func.attr == 'add':
                out.append('voters+')
            if a == R.nextIndex and c.func.attr == 'pop':
                out.append('next-')
            if a == R.matchIndex and c.func.attr == 'pop':
                out.append('match-')
            if a == R.transport and c.func.attr == 'dropNode':
                out.append('drop')
            if a == R.transport and c.func.attr == 'addNode':
                out.append('addnode')
        if isinstance(n.ast, ast.Assign) and isinstance(n.ast.targets[0], ast.Subscript):
            a = P.self_attr(n.ast.targets[0].value, sn)
            if a == R.nextIndex:
                out.append('next+')
            if a == R.matchIndex:
                out.append('match+')
        if isinstance(n.ast, ast.Return) and isinstance(n.ast.value, ast.Constant) and n.ast.value.value is True:
            out.append('ret-true')
        return out
    res = ex.run(track=eff, follow_exc=False)
    seen = 0
    done = set()
    for fs, cnt in res.cstates.get(cfg.exit.id, ()):
        d = dict(cnt)
        if not d.get('ret-true'):
            continue
        if cnt in done:
            continue
        done.add(cnt)
        seen += 1
        ctx.tick()
        rem = {'voters-', 'next-', 'match-', 'drop'}
        add = {'voters+', 'next+', 'match+', 'addnode'}
        have = set(k for k in d if k != 'ret-true')
        if have == rem:
            ctx.ok('remove arm: voter discarded, indices forgotten, connection dropped', mut.loc(), 'effects %s' % sorted(have))
        elif have == add:
            ctx.ok('add arm: voter added, indices initialised, transport told', mut.loc(), 'effects %s' % sorted(have))
        else:
            missing = (rem - have) if (have & rem) else (add - have)
            ctx.violation('%s:incomplete-membership-effects-%s' % (mut.qualname, '+'.join(sorted(missing))), mut.loc(),
                          'a successful membership change performs %s but not %s' % (sorted(have), sorted(missing)), instance='membership effects complete')
    ctx.require(seen >= 2, 'add/remove arms returning True not found')
    # the voter set never holds the node itself and an existing member is not "added" again (its indices would be reset):
    # at the add, `node != selfNode` and `node not in voters` are established; at the discard, `node != selfNode`
    fres = U.full_run(ctx, mut)
    for n in cfg.nodes:
        if n.kind != 'stmt' or n.ast is None:
            continue
        for c in [x for x in ast.walk(n.ast) if isinstance(x, ast.Call) and isinstance(x.func, ast.Attribute) and P.self_attr(x.func.value, sn) == R.voters and x.args]:
            if c.func.attr not in ('add', 'discard', 'remove') or not fres.reached(n.id):
                continue
            arg = unparse(c.args[0])
            inst = '`%s`: the node is not this node itself%s' % (unparse(c), ' and not a member yet' if c.func.attr == 'add' else '')
            g_self = ex.tb.literal(U.parse_expr('%s == self.%s' % (arg, R.selfNode)), False)
            ok1 = g_self is not None and all(oracle.entails(fs, g_self) for fs in fres.facts_at(n.id))
            ok2 = True
            if c.func.attr == 'add':
                g_in = ex.tb.literal(U.parse_expr('%s in self.%s' % (arg, R.voters)), False)
                ok2 = g_in is not None and all(oracle.entails(fs, g_in) for fs in fres.facts_at(n.id))
            ctx.tick()
            if ok1 and ok2:
                ctx.ok(inst, mut.loc(c), 'entailed on every path')
            else:
                ctx.violation('%s:%s' % (mut.qualname, 'voter-set-may-hold-self' if not ok1 else 'existing-member-added-again'), mut.loc(c),
                              ('`%s` is reached on a path where `%s != self.%s` is not established: a node that processes the entry about itself puts itself into its own voter set and '
                               'computes every majority over a set that counts it twice' % (unparse(c), arg, R.selfNode)) if not ok1 else
                              ('`%s` is reached for a node that may already be a member: its next / match index are reset' % unparse(c)), instance=inst)
    ctx.expect_min(4)


def dead_guards(P):
    """[(class, attr, cond func, cond node)] attributes compared with None in a condition of their own class that no
    statement of the class ever assigns a non-None value (the guard can never change its outcome)"""
    out = []
    for cname, ci in sorted(P.classes.items()):
        if '@' in cname or ci.module.name in ('win_inet_pton', 'monotonic'):
            continue
        tested = {}
        assigned_non_none = set()
        wildcard = False
        for m in P.methods_of(ci):
            sn = m.self_name
            if sn is None:
                continue
            for n in ast.walk(m.node):
                if isinstance(n, ast.Compare) and len(n.ops) == 1 and isinstance(n.ops[0], (ast.Is, ast.IsNot)) and isinstance(n.comparators[0], ast.Constant) \
                        and n.comparators[0].value is None:
                    a = P.self_attr(n.left, sn)
                    if a is not None and a.startswith('__'):
                        tested.setdefault(a, (m, n))
            for acc in P.accesses(m, include_nested=True):
                if acc.kind == 'wildcard':
                    wildcard = True
                if acc.kind in ('write', 'aug') and isinstance(acc.node, (ast.Assign, ast.AugAssign)):
                    v = acc.node.value
                    if not (isinstance(v, ast.Constant) and v.value is None) or isinstance(acc.node, ast.AugAssign):
                        assigned_non_none.add(acc.attr)
                if acc.kind == 'write' and isinstance(acc.node, ast.For):
                    assigned_non_none.add(acc.attr)
                if acc.kind == 'write' and not isinstance(acc.node, (ast.Assign, ast.AugAssign)):
                    assigned_non_none.add(acc.attr)
        immune = None
        if wildcard:
            # attributes may be restored through self.__dict__[k] = v -- except those recorded as infrastructure
            # (created in __init__ before the attribute names are snapshotted), which never enter a dump
            init = ci.methods.get('__init__')
            snap = None
            if init is not None:
                for n_ in ast.walk(init.node):
                    if isinstance(n_, ast.For) and isinstance(n_.iter, ast.Attribute) and n_.iter.attr == '__dict__':
                        snap = n_
            if snap is None:
                continue
            immune = set(acc.attr for acc in P.accesses(init, include_nested=False) if acc.kind == 'write' and getattr(acc.node, 'lineno', 10 ** 9) < snap.lineno)
        for a, (m, n) in sorted(tested.items()):
            if immune is not None and a not in immune:
                continue
            if a not in assigned_non_none:
                out.append((ci, a, m, n))
    return out


@rule('L-dead-guard', 'package-wide lint (thorough): no private attribute is tested against None while every assignment of it '
                      'in its class assigns None (a guard that can never refuse, the shape of the membership-gate defect)')
def l_dead_guard(ctx):
    import os
    from ..pyir import Program
    P = ctx.P
    found = dead_guards(P)
    n_classes = len([c for c in P.classes if '@' not in c])
    ctx.tick(n_classes)
    for ci, a, m, n in found:
        ctx.violation('%s:dead-none-guard-%s' % (ci.name, a), m.loc(n), 'self.%s is compared with None in %s but is only ever assigned None in class %s' % (a, m.qualname, ci.name),
                      instance='%s.%s' % (ci.name, a))
    if not found:
        ctx.ok('no dead None-guards in %d classes' % n_classes, '', '')
    # the matcher must still match its positive fixture
    fx = os.path.join(os.path.dirname(os.path.dirname(os.path.dirname(os.path.abspath(__file__)))), 'fixtures', 'deadguard')
    fp = Program(fx)
    hits = [(ci.name, a) for ci, a, m, n in dead_guards(fp)]
    ctx.tick()
    if hits == [('Gate', '__pending')]:
        ctx.ok('fixture: Gate.__pending recognised as a dead guard, Gate.__live not', 'fixtures/deadguard/pysyncobj/sample.py', '', nontrivial=True)
    else:
        raise AnalysisError('L-dead-guard no longer recognises its positive fixture (got %s)' % hits)
    ctx.expect_min(2)
