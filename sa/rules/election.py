"""Election / majority rules (C03, shared with C04, C18, C20)."""
import ast
from . import rule
from .. import util as U
from ..pyir import AnalysisError, unparse
from .. import oracle


# ----------------------------------------------------------------------------- majority sites
def majority_sites(ctx):
    """Comparisons one side of which is arithmetic over len(self.<set>) -- the majority tests.
    returns [(func, compare ast, len_attr, counter expr ast, threshold expr ast)]"""
    P, R = ctx.P, ctx.R
    out = []
    for f in P.methods_of(R.S):
        sn = f.self_name
        for n in U.walk_no_nested(f.node):
            if not (isinstance(n, ast.Compare) and len(n.ops) == 1):
                continue
            dn = U.deref(P, f, n)           # a threshold hoisted into a local is looked through
            n._deref = dn
            sides = [dn.left, dn.comparators[0]]
            # a threshold kept in an attribute (`self.__quorum = (len(voters) + 1) / 2` ... `count > self.__quorum`): the
            # arithmetic is the stored one; R-majority additionally demands that the attribute follows the voter set
            for i in (0, 1):
                a_ = P.self_attr(sides[i], sn)
                if a_ is None:
                    continue
                vals = []
                for g in P.methods_of(R.S):
                    for st, kind in U.assigns_to_attr(P, g, a_):
                        vals.append((g, st))
                if vals and all(kind_ok(P, g, st) for g, st in vals):
                    import copy
                    dn = copy.copy(dn)
                    if i == 0:
                        dn.left = vals[0][1].value
                    else:
                        dn.comparators = [vals[0][1].value]
                    n._deref = dn
                    n._cached = (a_, vals)
                    sides = [dn.left, dn.comparators[0]]
            for i in (0, 1):
                th = sides[i]
                if not isinstance(th, ast.BinOp):
                    continue
                lens = [c for c in ast.walk(th) if isinstance(c, ast.Call) and isinstance(c.func, ast.Name) and c.func.id == 'len'
                        and c.args and P.self_attr(c.args[0], sn)]
                if not lens:
                    continue
                counter = sides[1 - i]
                if isinstance(counter, ast.BinOp):
                    # 2 * count > len(voters) + 1: the counter is the single name / attribute inside the other side
                    atoms = [x for x in ast.walk(counter) if isinstance(x, ast.Name) or (isinstance(x, ast.Attribute) and P.self_attr(x, sn))]
                    atoms = [x for x in atoms if not (isinstance(x, ast.Name) and x.id == sn)]
                    if len(atoms) == 1 and not any(isinstance(c, ast.Call) for c in ast.walk(counter)):
                        counter = atoms[0]
                out.append((f, n, P.self_attr(lens[0].args[0], sn), counter, th, lens[0]))
    return out


def kind_ok(P, g, st):
    """`self.A = <arithmetic over len(self.<set>) with a division>`"""
    v = getattr(st, 'value', None)
    if not isinstance(st, ast.Assign) or not isinstance(v, ast.BinOp):
        return False
    has_len = any(isinstance(c, ast.Call) and isinstance(c.func, ast.Name) and c.func.id == 'len' and c.args and P.self_attr(c.args[0], g.self_name) for c in ast.walk(v))
    return has_len and any(isinstance(x, (ast.Div, ast.FloorDiv)) for x in ast.walk(v))


def counter_on_left(cmpn):
    return 'len(' not in unparse(cmpn.left)


def _iter_population(ctx, f, it):
    """(attr, problem or None, unproven note or None) for the collection a counter ranges over"""
    P, R = ctx.P, ctx.R
    sn = f.self_name
    attrs = []
    for x in ast.walk(it):
        a = P.self_attr(x, sn)
        if a is not None and a not in attrs:
            attrs.append(a)
    if attrs == [R.voters] and P.self_attr(it, sn) == R.voters:
        return R.voters, None, None
    if R.observers in attrs or R.connected in attrs:
        return attrs[0], 'counts over `%s`, which includes read-only / merely connected nodes, not over the voter set self.%s' % (unparse(it), R.voters), None
    if len(attrs) == 1:
        a = attrs[0]
        # a per-node table: does it also hold read-only nodes?
        for key in ('setOnReadonlyNodeConnectedCallback',):
            g = R.slot_methods.get(key)
            if g is not None and ('A:' + a) in P.writes(g):
                return a, 'counts over `%s`; that table also receives entries for read-only nodes (%s writes it), so non-voters are counted' % (unparse(it), g.qualname), None
        for g in P.methods_of(R.S):
            for acc in P.accesses(g):
                if acc.attr == a and acc.kind == 'elem_write':
                    gcfg = U.explorer(ctx, g).cfg
                    n = U.node_containing(gcfg, acc.node)
                    for lp in [p_ for p_ in (n.parents if n is not None else ()) if isinstance(p_, ast.For)]:
                        if any(P.self_attr(x, g.self_name) == R.observers for x in ast.walk(lp.iter)):
                            return a, 'counts over `%s`; %s fills that table for read-only nodes too (loop over `%s`), so non-voters are counted' % (unparse(it), g.qualname, unparse(lp.iter)), None
        return a, None, 'population `%s` is not syntactically the voter set' % unparse(it)
    return None, None, 'population `%s` not understood' % unparse(it)


def _counter_info(ctx, f, counter, cmp_node, _depth=0):
    """(kind, init value, counted population text, problems, extra) for the counter expression of a majority test;
    extra = {'cond': ast condition under which a member is counted, 'var': loop variable, 'unproven': note}"""
    P, R = ctx.P, ctx.R
    sn = f.self_name
    problems = []
    extra = {}
    if isinstance(counter, ast.Name):
        name = counter.id
        inits = []
        incs = []
        for n in U.walk_no_nested(f.node):
            if isinstance(n, ast.AnnAssign) and n.value is not None and isinstance(n.target, ast.Name) and n.target.id == name:
                n2 = ast.Assign(targets=[n.target], value=n.value)
                ast.copy_location(n2, n)
                inits.append(n2)
            elif isinstance(n, ast.Assign) and any(isinstance(t, ast.Name) and t.id == name for t in n.targets):
                inits.append(n)
            elif isinstance(n, ast.AugAssign) and isinstance(n.target, ast.Name) and n.target.id == name:
                incs.append(n)
        O = lambda x: U.ordr(f, x)     # source order (line numbers do not order inlined helper bodies)
        inits = [i for i in inits if O(i) <= O(cmp_node)]
        if not inits:
            return None
        init = max(inits, key=O)
        v = init.value
        if P.self_attr(v, sn) is not None and _depth < 3 and not incs:
            # a copy of an attribute counter (the vote tally handed to a predicate helper)
            sub = _counter_info(ctx, f, v, init, _depth + 1)
            if sub is not None:
                return sub
        if isinstance(v, ast.Name) and v.id != name and _depth < 3 and (P._is_local(f, v.id) or v.id in f.params):
            # the counter is a copy of another local (the value a counting helper handed back): that one is the counter
            sub = _counter_info(ctx, f, v, init, _depth + 1)
            if sub is not None:
                return sub
        # form 2: K + sum(1 for x in ITER if COND)  /  K + len([x for x in ITER if COND])
        comp = None
        k = None
        if isinstance(v, ast.BinOp) and isinstance(v.op, ast.Add):
            for a_, b_ in ((v.left, v.right), (v.right, v.left)):
                if isinstance(a_, ast.Constant) and isinstance(a_.value, int) and isinstance(b_, ast.Call) and isinstance(b_.func, ast.Name) \
                        and b_.func.id in ('sum', 'len') and b_.args and isinstance(b_.args[0], (ast.GeneratorExp, ast.ListComp, ast.SetComp)):
                    comp, k = b_.args[0], a_.value
        elif isinstance(v, ast.Call) and isinstance(v.func, ast.Name) and v.func.id in ('sum', 'len') and v.args \
                and isinstance(v.args[0], (ast.GeneratorExp, ast.ListComp, ast.SetComp)):
            comp, k = v.args[0], 0
        if comp is not None and len(comp.generators) == 1:
            gen = comp.generators[0]
            attr, prob, unp = _iter_population(ctx, f, gen.iter)
            if prob:
                problems.append(prob)
            if unp:
                extra['unproven'] = unp
            extra['cond'] = gen.ifs[0] if len(gen.ifs) == 1 else (ast.BoolOp(op=ast.And(), values=gen.ifs) if gen.ifs else None)
            extra['var'] = gen.target
            extra['iter'] = gen.iter
            later = [i for i in incs if O(init) < O(i) <= O(cmp_node)]
            for inc in later:
                problems.append('counter %s additionally changed by `%s`' % (name, unparse(inc)))
            return ('local', k, unparse(gen.iter), problems, extra)
        if not isinstance(v, ast.Constant) or not isinstance(v.value, int):
            return None
        counted = None
        for inc in incs:
            if not (O(init) < O(inc) <= O(cmp_node)):
                continue
            if not (isinstance(inc.op, ast.Add) and isinstance(inc.value, ast.Constant) and inc.value.value == 1):
                problems.append('counter %s changed by `%s`' % (name, unparse(inc)))
                continue
            loop = None
            for n in U.walk_no_nested(f.node):
                if isinstance(n, ast.For) and any(x is inc for x in ast.walk(n)):
                    if loop is None or O(n) > O(loop):
                        loop = n
            if loop is None:
                problems.append('counter %s incremented outside a loop over the voters' % name)
                continue
            counted = unparse(loop.iter)
            attr, prob, unp = _iter_population(ctx, f, loop.iter)
            if prob:
                problems.append(prob)
            if unp:
                extra['unproven'] = unp
            extra['iter'] = loop.iter
            extra['var'] = loop.target
            # the condition guarding the increment inside the loop
            conds = [x for x in ast.walk(loop) if isinstance(x, ast.If) and any(y is inc for y in ast.walk(x))]
            if conds:
                extra['cond'] = max(conds, key=O).test
        return ('local', v.value, counted, problems, extra)
    a = P.self_attr(counter, sn)
    if a is not None:
        init_val = None
        for g in P.methods_of(R.S):
            if g.name == '__init__':
                continue
            for st, kind in U.assigns_to_attr(P, g, a):
                if kind == 'assign' and isinstance(st.value, ast.Constant):
                    init_val = st.value.value
        return ('attr', init_val, None, problems, extra)
    return None


@rule('R-majority', 'every majority test is a strict majority of voters+self (small-domain evaluation n=0..8), '
                    'its counter starts at 1 (own vote/copy) and counts over the voter set only')
def r_majority(ctx):
    P, R = ctx.P, ctx.R
    sites = majority_sites(ctx)
    for f, cmpn, len_attr, counter, th, lencall in sites:
        inst = '%s: `%s`' % (f.qualname, unparse(cmpn))
        loc = f.loc(cmpn)
        if len_attr != R.voters:
            if len_attr in (R.connected, R.observers) or True:
                # a size test over another collection is only a majority site if it has the (len+1)/2 shape
                if not any(isinstance(x, (ast.Div, ast.FloorDiv)) for x in ast.walk(th)):
                    continue
            ctx.violation('%s:majority-over-%s' % (f.qualname, len_attr), loc,
                          'majority threshold measures self.%s instead of the voter set self.%s' % (len_attr, R.voters), instance=inst)
            continue
        if not any(isinstance(x, (ast.Div, ast.FloorDiv, ast.Mult)) for x in ast.walk(getattr(cmpn, '_deref', cmpn))):
            continue     # e.g. len(self.__otherNodes) == 0
        info = _counter_info(ctx, f, counter, cmpn)
        if info is None:
            ctx.unproven(inst, loc, 'counter expression `%s` is not a recognised counting idiom' % unparse(counter))
            continue
        kind, init, counted, problems, extra = info
        for p in problems:
            ctx.violation('%s:majority-counter' % f.qualname, loc, p, instance=inst + ' [counter]')
        if extra.get('unproven'):
            ctx.unproven(inst + ' [population]', loc, extra['unproven'])
        if init is None:
            ctx.unproven(inst, loc, 'initial value of the counter not constant')
            continue
        # small-domain evaluation: n others, k of them agree (k = 0..n); true agreeing incl. self = k + 1
        lenkey = unparse(lencall)
        ckey = unparse(counter)
        as_majority = as_minority = True
        bad = None
        try:
            for n in range(0, 9):
                for k in range(0, n + 1):
                    val = U.eval_arith(getattr(cmpn, '_deref', cmpn), {lenkey: n, ckey: init + k})
                    ctx.tick()
                    maj = 2 * (k + 1) > n + 1
                    if bool(val) != maj:
                        as_majority = False
                        if bad is None:
                            bad = (n, k, val)
                    if bool(val) != (not maj):
                        as_minority = False
        except AnalysisError as e:
            ctx.unproven(inst, loc, str(e))
            continue
        cached = getattr(cmpn, '_cached', None)
        if cached is not None:
            # the threshold is a stored value: it must be recomputed wherever the voter set changes
            attr_, vals = cached
            refreshers = set(g.qualname for g, st in vals)
            stale = []
            for g in P.methods_of(R.S):
                if g.name == '__init__':
                    continue
                muts = [a for a in P.accesses(g) if a.attr == R.voters and a.kind in ('write', 'aug', 'mutcall', 'del', 'elem_write')]
                if not muts:
                    continue
                if g.qualname not in refreshers:
                    stale.append(g)
                    continue
                # ... after the change, on every normal path to the exit
                gcfg = U.explorer(ctx, g).cfg
                rn = [U.node_containing(gcfg, st).id for g2, st in vals if g2 is g]
                for a in muts:
                    mn = U.node_containing(gcfg, a.node)
                    if mn is None:
                        continue
                    succ = [d for d, l in mn.succ if not (isinstance(l, tuple) and l[0] == 'exc')]
                    if any(gcfg.exit.id in gcfg.reachable_from(d, avoid=rn, follow_exc=False) for d in succ if d not in rn) and g not in stale:
                        stale.append(g)
            ctx.tick()
            if stale:
                ctx.violation('%s:majority-threshold-stale' % f.qualname, loc,
                              'the majority threshold is read from self.%s, which %s do(es) not recompute when changing the voter set self.%s: after a membership change the '
                              'test uses the majority size of the old cluster' % (attr_, ', '.join(g.qualname for g in stale), R.voters), instance=inst + ' [threshold follows the voter set]')
                continue
        if as_majority or as_minority:
            ctx.ok(inst, loc, 'equivalent to %s2*(agreeing+self) > voters+1 for n=0..8; counter init=%s over %s'
                   % ('' if as_majority else 'NOT ', init, counted or 'vote replies'))
        else:
            n, k, val = bad
            ctx.violation('%s:majority-arith' % f.qualname, loc,
                          'test `%s` is not a strict majority of voters+self: with %d other voters and %d of them agreeing '
                          '(plus self, counter=%d) it evaluates to %s' % (unparse(cmpn), n, k, init + k, val), instance=inst)
    ctx.expect_min(4, 'majority tests over the voter set')


# ----------------------------------------------------------------------------- vote grant
def _grant_nodes(ctx, ex):
    """CFG nodes of the handler assigning votedFor a value derived from the sender"""
    P, R = ctx.P, ctx.R
    h = R.handler
    out = []
    for n in ex.cfg.nodes:
        if n.kind == 'stmt' and isinstance(n.ast, ast.Assign):
            for t in n.ast.targets:
                if P.self_attr(t, h.self_name) == R.votedFor:
                    v = n.ast.value
                    if isinstance(v, ast.Constant) and v.value is None:
                        continue
                    out.append(n)
    return out


def _log_last(R, k):
    return 'self.%s[-1][%d]' % (R.log, k)


@rule('R-vote-grant', 'a vote is granted only with: term >= own, no vote given yet, candidate log up to date, '
                      'own address present, not leader; every response_vote is dominated by a grant')
def r_vote_grant(ctx):
    P, R = ctx.P, ctx.R
    ex, res, entry = U.region_run(ctx, 'request_vote')
    msg = R.handler_msg_param
    grants = [n for n in _grant_nodes(ctx, ex) if res.reached(n.id)]
    ctx.require(grants, 'no grant event (assignment of the candidate id to self.%s) in the request_vote region' % R.votedFor)
    idx_pos, term_pos = journal_positions(P)
    LT = _log_last(R, term_pos)
    LI = _log_last(R, idx_pos)
    goals = [
        ('term-not-stale', "%s['term'] >= self.%s" % (msg, R.currentTerm)),
        ('not-voted-yet', "self.%s is None" % R.votedFor),
        ('candidate-log-up-to-date', "%s['last_log_term'] > %s or (%s['last_log_term'] == %s and %s['last_log_index'] >= %s)"
         % (msg, LT, msg, LT, msg, LI)),
        ('has-own-address', "self.%s is not None" % R.selfNode),
        ('not-leader', "self.%s != %s.LEADER" % (R.raftState, R.state_class)),
    ]
    for g in grants:
        for name, src in goals:
            inst = 'grant@%s: %s' % (R.handler.qualname, name)
            ok, cex = U.must(ctx, res, g.id, U.goal(ex, src))
            if ok:
                ctx.ok(inst, R.handler.loc(g.ast), 'entailed on %d path classes: %s' % (len(res.facts_at(g.id)), src))
            else:
                ctx.violation('%s:grant-without-%s' % (R.handler.qualname, name), R.handler.loc(g.ast),
                              'the vote is granted on a path where `%s` does not hold; path: %s; facts: %s'
                              % (src, res.path_str(g.id, cex), U.facts_str(cex)),
                              witness={'path': res.path_str(g.id, cex), 'facts': U.facts_str(cex, 40)}, instance=inst)
    # every response_vote send is dominated by a grant
    sends = [(c, d) for (c, d, t, tgt) in U.send_sites(ctx, R.handler) if t == 'response_vote']
    ctx.require(sends, 'no send of a response_vote message in the handler')
    res2 = ex.run(start=entry, init=frozenset(), avoid=[g.id for g in grants])
    for c, d in sends:
        inst = 'response_vote send dominated by a grant'
        bad = False
        for n in U.nodes_containing(ex.cfg, c):
            if res2.reached(n.id):
                bad = True
                fs = res2.facts_at(n.id)[0]
                ctx.violation('%s:response_vote-without-grant' % R.handler.qualname, R.handler.loc(c),
                              'response_vote can be sent on a path that records no vote: %s' % res2.path_str(n.id, fs), instance=inst)
        if not bad:
            ctx.ok(inst, R.handler.loc(c), 'send unreachable from the region entry once the grant assignment is removed')
        # the reply carries the term it answers
        tv = U.dict_get(d, 'term')
        if tv is None:
            ctx.violation('%s:response_vote-no-term' % R.handler.qualname, R.handler.loc(c), 'response_vote carries no term', instance='response_vote term')
    ctx.expect_min(6)


def journal_positions(P):
    """positions of idx and term in a log entry, from the parameter order of Journal.add(command, idx, term)"""
    j = P.cls('Journal')
    add = j.methods.get('add')
    if add is None or len(add.params) != 4:
        raise AnalysisError('Journal.add(command, idx, term) signature changed')
    names = add.params[1:]
    try:
        return names.index('idx'), names.index('term')
    except ValueError:
        raise AnalysisError('Journal.add parameters are no longer (command, idx, term)')


# ----------------------------------------------------------------------------- term / vote writes
@rule('R-term-vote-writes', 'currentTerm only grows (increment, or adoption of a strictly larger message term); '
                            'votedFor is reset only together with a term change, set to self only with the increment')
def r_term_vote_writes(ctx):
    P, R = ctx.P, ctx.R
    msg = R.handler_msg_param
    for f in P.methods_of(R.S):
        if f.name == '__init__':
            continue
        writes_t = U.assigns_to_attr(P, f, R.currentTerm)
        writes_v = U.assigns_to_attr(P, f, R.votedFor)
        if not writes_t and not writes_v:
            continue
        ex = U.explorer(ctx, f)
        res = U.full_run(ctx, f)
        cfg = ex.cfg
        term_nodes = []
        for st, kind in writes_t:
            n = U.node_containing(cfg, st)
            term_nodes.append(n)
            inst = '%s: `%s`' % (f.qualname, unparse(st))
            if U.increment_amount(P, f, st, R.currentTerm) is not None:
                ctx.ok(inst, f.loc(st), 'increment')
                continue
            if kind == 'aug':
                ctx.violation('%s:term-write' % f.qualname, f.loc(st), 'term changed by `%s` (not an increment)' % unparse(st), instance=inst)
                continue
            # assignment: must be adoption of a strictly larger term
            g = ('lt', ex.tb.term(U.parse_expr('self.%s' % R.currentTerm)), ex.tb.term(st.value))
            ok, cex = U.must(ctx, res, n.id, g)
            if ok:
                ctx.ok(inst, f.loc(st), 'assigned value is strictly larger than the current term on all %d path classes' % len(res.facts_at(n.id)))
            else:
                ctx.violation('%s:term-adopt-not-larger' % f.qualname, f.loc(st),
                              'term overwritten with `%s` on a path where it is not known to be larger: %s'
                              % (unparse(st.value), res.path_str(n.id, cex)), instance=inst)
        for st, kind in writes_v:
            n = U.node_containing(cfg, st)
            inst = '%s: `%s`' % (f.qualname, unparse(st))
            v = st.value if kind == 'assign' else None
            block = U.straight_line_block(cfg, n.id)
            with_term_write = any(t is not None and t.id in block for t in term_nodes)
            if isinstance(v, ast.Constant) and v.value is None:
                if with_term_write:
                    ctx.ok(inst, f.loc(st), 'vote reset in the same straight-line block as a term change')
                else:
                    ctx.violation('%s:vote-reset-without-term-change' % f.qualname, f.loc(st),
                                  'the recorded vote is cleared without a term change in the same block (allows a second vote in one term)', instance=inst)
            elif v is not None and any(P.self_attr(x, f.self_name) == R.selfNode for x in ast.walk(v)):
                if with_term_write:
                    ctx.ok(inst, f.loc(st), 'self vote together with the term increment')
                else:
                    ctx.violation('%s:self-vote-without-increment' % f.qualname, f.loc(st),
                                  'the node votes for itself without incrementing the term in the same block', instance=inst)
            elif f is R.handler:
                ctx.ok(inst, f.loc(st), 'grant event (guards checked by R-vote-grant)', nontrivial=False)
            else:
                ctx.violation('%s:vote-write' % f.qualname, f.loc(st), 'unexpected writer of the recorded vote', instance=inst)
    ctx.expect_min(5, 'writes of currentTerm/votedFor')


# ----------------------------------------------------------------------------- leader entry
def become_leader_func(ctx):
    """the function that calls the state setter with LEADER"""
    P, R = ctx.P, ctx.R
    cands = []
    for f in P.methods_of(R.S):
        for c in P.calls_in(f):
            if R.setState is not None and U.calls_method(P, f, c, {R.setState.name}) and c.args and R.is_state_const(c.args[0], 'LEADER'):
                cands.append(f)
        for st, kind in U.assigns_to_attr(P, f, R.raftState):
            if kind == 'assign' and R.is_state_const(st.value, 'LEADER'):
                cands.append(f)
    cands = list(dict((c.qualname, c) for c in cands).values())
    return cands


@rule('R-leader-entry', 'the LEADER state is entered only through the become-leader function, which is called only '
                        'behind a majority test by a CANDIDATE for a response of its own term / right after its self vote')
def r_leader_entry(ctx):
    P, R = ctx.P, ctx.R
    bl = become_leader_func(ctx)
    ctx.require(bl, 'nobody sets the LEADER state')
    if len(bl) > 1:
        for f in bl[1:]:
            ctx.violation('%s:sets-LEADER' % f.qualname, f.loc(), 'a second function sets the LEADER state', instance='single become-leader function')
    become = bl[0]
    msites = dict((id(c), (f, c)) for f, c, a, cnt, th, lc in majority_sites(ctx) if a == R.voters)
    callers = P.callers_of(become)
    ctx.require(callers, 'become-leader function is never called')
    msg = R.handler_msg_param

    def behind_majority(f, cfg, n):
        """node n of f is reachable only through the 'majority reached' edge of a majority test of f"""
        for cid, (mf, mc) in msites.items():
            if mf is not f:
                continue
            for cn in U.decision_nodes(cfg, f, mc):
                if n.id in cfg.reachable_from(cfg.entry.id, avoid=[cn.id]):
                    continue
                t_target = [d for d, l in cn.succ if l == ('cond', True)]
                f_target = [d for d, l in cn.succ if l == ('cond', False)]
                via_true = n.id in cfg.reachable_from(t_target[0], avoid=[cn.id]) if t_target else False
                via_false = n.id in cfg.reachable_from(f_target[0], avoid=[cn.id]) if f_target else False
                op = mc.ops[0]
                counter_left = counter_on_left(mc)
                says_majority_when_true = (isinstance(op, (ast.Gt, ast.GtE)) and counter_left) or (isinstance(op, (ast.Lt, ast.LtE)) and not counter_left)
                if (via_true and not via_false and says_majority_when_true) or (via_false and not via_true and not says_majority_when_true):
                    return True
        return False
    # the majority test may also sit inside the become-leader function itself, in front of the state change
    bcfg = U.explorer(ctx, become).cfg
    lead_sets = [n_ for n_ in bcfg.nodes if n_.kind == 'stmt' and n_.ast is not None and (
        any(isinstance(c_, ast.Call) and R.setState is not None and U.calls_method(P, become, c_, {R.setState.name}) and c_.args and R.is_state_const(c_.args[0], 'LEADER') for c_ in ast.walk(n_.ast))
        or (isinstance(n_.ast, ast.Assign) and P.self_attr(n_.ast.targets[0], become.self_name) == R.raftState and R.is_state_const(n_.ast.value, 'LEADER')))]
    inner_majority = bool(lead_sets) and all(behind_majority(become, bcfg, n_) for n_ in lead_sets)
    for f, call in callers:
        ex = U.explorer(ctx, f)
        cfg = ex.cfg
        n = U.node_containing(cfg, call)
        inst = '%s calls %s' % (f.qualname, become.name)
        # dominated by the true edge of a majority test
        dom_ok = inner_majority
        for cid, (mf, mc) in msites.items():
            if mf is not f:
                continue
            for cn in U.decision_nodes(cfg, f, mc):
                # remove the true edge target path: is call reachable from entry avoiding the cond node?
                reach = cfg.reachable_from(cfg.entry.id, avoid=[cn.id])
                if n.id not in reach:
                    # and it must be on the side where the test says "majority"
                    t_target = [d for d, l in cn.succ if l == ('cond', True)]
                    f_target = [d for d, l in cn.succ if l == ('cond', False)]
                    via_true = n.id in cfg.reachable_from(t_target[0], avoid=[cn.id]) if t_target else False
                    via_false = n.id in cfg.reachable_from(f_target[0], avoid=[cn.id]) if f_target else False
                    op = mc.ops[0]
                    counter_left = counter_on_left(mc)
                    says_majority_when_true = (isinstance(op, (ast.Gt, ast.GtE)) and counter_left) or (isinstance(op, (ast.Lt, ast.LtE)) and not counter_left)
                    if (via_true and not via_false and says_majority_when_true) or (via_false and not via_true and not says_majority_when_true):
                        dom_ok = True
        ctx.tick()
        if not dom_ok:
            ctx.violation('%s:become-leader-without-majority' % f.qualname, f.loc(call),
                          'the node becomes leader on a path that does not pass a successful majority test', instance=inst)
            continue
        res = U.full_run(ctx, f)
        if f is R.handler:
            goals = [("self.%s == %s.CANDIDATE" % (R.raftState, R.state_class), 'candidate'),
                     ("%s['type'] == 'response_vote'" % msg, 'vote reply'),
                     ("%s['term'] == self.%s" % (msg, R.currentTerm), 'reply of the current term')]
            allok = True
            for src, nm in goals:
                ok, cex = U.must(ctx, res, n.id, U.goal(ex, src))
                if not ok:
                    allok = False
                    ctx.violation('%s:become-leader-guard-%s' % (f.qualname, nm.replace(' ', '-')), f.loc(call),
                                  'the node becomes leader on a path where `%s` is not established: %s' % (src, res.path_str(n.id, cex)),
                                  instance=inst + ' [' + nm + ']')
            if allok:
                ctx.ok(inst, f.loc(call), 'behind majority test; CANDIDATE, response_vote, term equality entailed')
        else:
            # tick site: right after the self vote (term increment dominates the call)
            incs = [U.node_containing(cfg, st) for st in U.increments_of(P, f, R.currentTerm)]
            ok = False
            for inc in incs:
                if n.id not in cfg.reachable_from(cfg.entry.id, avoid=[inc.id]):
                    ok = True
            if ok:
                ctx.ok(inst, f.loc(call), 'behind majority test and dominated by the candidacy start (term increment + self vote)')
            else:
                ctx.violation('%s:become-leader-without-candidacy' % f.qualname, f.loc(call),
                              'become-leader reachable without starting a candidacy in this tick', instance=inst)
    # vote counting only for replies of the current term while candidate
    for f in P.methods_of(R.S):
        for c in majority_sites(ctx):
            pass
        break
    h = R.handler
    ex = U.explorer(ctx, h)
    res = U.full_run(ctx, h)
    counters = set()
    for f, cmpn, a, counter, th, lc in majority_sites(ctx):
        ca = P.self_attr(counter, f.self_name)
        if ca:
            counters.add(ca)
    for ca in sorted(counters):
        for st, kind in U.assigns_to_attr(P, h, ca):
            n = U.node_containing(ex.cfg, st)
            inst = '%s: `%s`' % (h.qualname, unparse(st))
            allok = True
            for src in ("self.%s == %s.CANDIDATE" % (R.raftState, R.state_class), "%s['type'] == 'response_vote'" % msg,
                        "%s['term'] == self.%s" % (msg, R.currentTerm)):
                ok, cex = U.must(ctx, res, n.id, U.goal(ex, src))
                if not ok:
                    allok = False
                    ctx.violation('%s:vote-counted-unguarded' % h.qualname, h.loc(st),
                                  'a vote is counted on a path where `%s` does not hold: %s' % (src, res.path_str(n.id, cex)), instance=inst)
                    break
            if allok:
                ctx.ok(inst, h.loc(st), 'vote counted only as CANDIDATE for a response_vote of the current term')
    ctx.expect_min(3)


# ----------------------------------------------------------------------------- step down
def _set_state_nodes(ctx, ex, f, state_name):
    P, R = ctx.P, ctx.R
    out = []
    for n in ex.cfg.nodes:
        if n.kind != 'stmt':
            continue
        for c in [x for x in ast.walk(n.ast) if isinstance(x, ast.Call)]:
            if R.setState is not None and U.calls_method(P, f, c, {R.setState.name}) and c.args and R.is_state_const(c.args[0], state_name):
                out.append(n)
        if isinstance(n.ast, ast.Assign) and any(P.self_attr(t, f.self_name) == R.raftState for t in n.ast.targets) \
                and R.is_state_const(n.ast.value, state_name):
            out.append(n)
    return out


@rule('R-step-down', 'adopting a larger term in request_vote, and accepting append_entries, always leads to FOLLOWER state')
def r_step_down(ctx):
    P, R = ctx.P, ctx.R
    h = R.handler
    ex = U.explorer(ctx, h)
    cfg = ex.cfg
    fol = _set_state_nodes(ctx, ex, h, 'FOLLOWER')
    ctx.require(fol, 'the handler never sets FOLLOWER state')
    fol_ids = [n.id for n in fol]
    # (a) every term adoption in the handler is followed by FOLLOWER on all normal paths to the exit
    for st, kind in U.assigns_to_attr(P, h, R.currentTerm):
        n = U.node_containing(cfg, st)
        reach = cfg.reachable_from(n.id, avoid=fol_ids, follow_exc=False)
        inst = 'term adoption `%s` leads to FOLLOWER' % unparse(st)
        if cfg.exit.id in reach and n.id not in fol_ids:
            # allowed if FOLLOWER was already set before on all paths in this region (append_entries sets it after)
            ctx.violation('%s:adopt-term-without-step-down' % h.qualname, h.loc(st),
                          'after adopting a larger term the handler can return without switching to FOLLOWER', instance=inst)
        else:
            ctx.ok(inst, h.loc(st), 'exit unreachable without passing the FOLLOWER transition')
    # (b) append_entries region
    regs = U.regions(ctx).get('append_entries')
    ctx.require(regs, 'append_entries region gone')
    ex2, res, entry = U.region_run(ctx, 'append_entries', follow_exc=False)
    # accepted = facts contain term >= currentTerm: start after the second conjunct; we use the nodes reached
    # with that fact: find first stmt node in region whose facts entail term >= currentTerm
    msg = R.handler_msg_param
    g = U.goal(ex2, "%s['term'] >= self.%s" % (msg, R.currentTerm))
    accepted_entry = None
    for nid in sorted(res.states):
        node = cfg.nodes[nid]
        if node.kind == 'stmt' and all(oracle.entails(fs, g) for fs in res.facts_at(nid)):
            accepted_entry = nid
            break
    ctx.require(accepted_entry is not None, 'no statement in the append_entries region is guarded by term >= currentTerm')
    reach = cfg.reachable_from(accepted_entry, avoid=fol_ids, follow_exc=False)
    inst = 'accepted append_entries leads to FOLLOWER'
    ctx.tick()
    if cfg.exit.id in reach:
        ctx.violation('%s:append-entries-without-step-down' % h.qualname, h.loc(cfg.nodes[accepted_entry].ast),
                      'an accepted append_entries can be processed to the end without switching to FOLLOWER', instance=inst)
    else:
        ctx.ok(inst, h.loc(cfg.nodes[accepted_entry].ast), 'every normal path from the accepted region entry passes the FOLLOWER transition')
    ctx.expect_min(2)


@rule('R-vote-refusal-justified', 'a vote request is refused only for a Raft reason (stale term, candidate log behind, vote '
                                  'already given, not a follower/candidate): an up-to-date candidate is never turned down')
def r_vote_refusal(ctx):
    P, R = ctx.P, ctx.R
    ex, res0, entry = U.region_run(ctx, 'request_vote')
    cfg = ex.cfg
    msg = R.handler_msg_param
    grants = [n.id for n in _grant_nodes(ctx, ex)]
    ctx.require(grants, 'no grant event')
    idx_pos, term_pos = journal_positions(P)
    LT, LI = _log_last(R, term_pos), _log_last(R, idx_pos)
    reasons = U.goal(ex, "%s['term'] < self.%s or %s['last_log_term'] < %s or (%s['last_log_term'] == %s and %s['last_log_index'] < %s) "
                         "or self.%s is not None or self.%s not in (%s.FOLLOWER, %s.CANDIDATE)"
                     % (msg, R.currentTerm, msg, LT, msg, LT, msg, LI, R.votedFor, R.raftState, R.state_class, R.state_class))
    # end states: returns inside the region and the next type test (fall-through), without passing the grant
    regs = U.regions(ctx)
    nxt = [cid for k, lst in regs.items() for cid, e in lst if k != 'request_vote']
    rets = [n.id for n in cfg.nodes if n.kind == 'stmt' and isinstance(n.ast, ast.Return)]
    init = frozenset([ex.edge_literal(cfg.nodes[regs['request_vote'][0][0]], True), ex.tb.literal(U.parse_expr('self.%s is not None' % R.selfNode), True)])
    res = ex.run(start=entry, init=init, avoid=grants, stop=rets + nxt + [cfg.exit.id], follow_exc=False)
    n_end = 0
    bad = None
    for end in rets + nxt + [cfg.exit.id]:
        for fs in res.facts_at(end):
            n_end += 1
            ctx.tick()
            if not oracle.entails(fs, reasons):
                bad = (end, fs)
    inst = 'every refusal of a vote request has a Raft reason'
    if bad is not None:
        end, fs = bad
        ctx.violation('%s:vote-refused-without-reason' % R.handler.qualname, R.handler.loc(cfg.nodes[end].ast) if cfg.nodes[end].ast is not None else R.handler.loc(),
                      'a vote request is turned down on a path where none of {stale term, candidate log behind, already voted, leader} holds: a candidate with an up-to-date log '
                      'can be refused by everybody and no leader is elected: %s' % res.path_str(end, fs), witness={'facts': U.facts_str(fs, 30)}, instance=inst)
    else:
        ctx.require(n_end >= 3, 'refusal paths not found')
        ctx.ok(inst, R.handler.loc(cfg.nodes[entry].ast), '%d refusing path classes, each entails a refusal reason' % n_end)
    ctx.expect_min(1)


def _must_reset(ctx, func, attr, value, depth=0):
    """CFG node ids of `func` that certainly set self.<attr> to the constant `value`: a direct assignment, or a call of a
    method of the class every normal path of which does so (one level of helpers, bounded depth)"""
    P = ctx.P
    cfg = U.explorer(ctx, func).cfg
    out = []
    for n in cfg.nodes:
        if n.kind != 'stmt' or n.ast is None:
            continue
        a = n.ast
        if isinstance(a, ast.Assign) and any(P.self_attr(t, func.self_name) == attr for t in a.targets) and isinstance(a.value, ast.Constant) and a.value.value == value:
            out.append(n.id)
            continue
        if depth < 2:
            for c in [x for x in ast.walk(a) if isinstance(x, ast.Call)]:
                r = P.resolve_call(func, c)
                if r.kind == 'method' and r.targets and all(t is not func and _always_resets(ctx, t, attr, value, depth + 1) for t in r.targets):
                    out.append(n.id)
    return out


def _always_resets(ctx, func, attr, value, depth):
    cfg = U.explorer(ctx, func).cfg
    resets = _must_reset(ctx, func, attr, value, depth)
    return bool(resets) and cfg.exit.id not in cfg.reachable_from(cfg.entry.id, avoid=resets, follow_exc=False)


@rule('R-tally-reset', 'every candidacy starts with a fresh vote tally: after the term is incremented the vote counter is set '
                       'to 1 (the own vote) on every path, so votes of an earlier term are never added to those of the new one')
def r_tally_reset(ctx):
    P, R = ctx.P, ctx.R
    # the tally: the attribute counter of a majority test over the voters
    tallies = []
    for f, cmpn, a, counter, th, lc in majority_sites(ctx):
        ca = P.self_attr(counter, f.self_name)
        if ca and a == R.voters and ca not in tallies:
            tallies.append(ca)
    ctx.require(tallies, 'no attribute vote counter in a majority test')
    tally = tallies[0]
    n_starts = 0
    for f in P.methods_of(R.S):
        incs = U.increments_of(P, f, R.currentTerm)
        if not incs:
            continue
        cfg = U.explorer(ctx, f).cfg
        resets = _must_reset(ctx, f, tally, 1)
        for st in incs:
            n = U.node_containing(cfg, st)
            n_starts += 1
            inst = '%s: candidacy `%s` resets the vote tally self.%s to 1' % (f.qualname, unparse(st), tally)
            ctx.tick()
            # the reset may precede the increment in the same straight-line block, or follow it on every path
            blk = U.straight_line_block(cfg, n.id)
            before = any(r in blk for r in resets)
            starts = [d for d, l in n.succ if not (isinstance(l, tuple) and l[0] == 'exc')]
            reach = set()
            for d in starts:
                if d in resets:
                    continue
                reach |= cfg.reachable_from(d, avoid=resets, follow_exc=False)
            if before or cfg.exit.id not in reach:
                ctx.ok(inst, f.loc(st), 'reset in the same block / on every path after the increment')
            else:
                ctx.violation('%s:candidacy-keeps-old-tally' % f.qualname, f.loc(st),
                              'a new candidacy (term increment) can proceed without setting self.%s back to 1: votes collected in an earlier, lost election are added to the votes of '
                              'the new term and a candidate can become leader without a majority of its term (two leaders in one term)' % tally, instance=inst)
    ctx.require(n_starts >= 1, 'no candidacy start (term increment) found')
    ctx.expect_min(1)


@rule('R-state-before-notify', 'the state setter stores the new state before it runs any user callback: a callback that raises (or '
                               'asks the node for its state) cannot leave / see the old role')
def r_state_before_notify(ctx):
    """`__setState(FOLLOWER)` is how a cut-off leader steps down.  If the user's onStateChanged callback runs first and
    raises, the step-down never happens and is re-attempted (and aborted) on every tick: the node keeps reporting itself
    leader."""
    P, R = ctx.P, ctx.R
    f = R.setState
    if f is None:
        ctx.ok('no state setter method: the state is assigned directly', '', '')
        ctx.expect_min(1)
        return
    cfg = U.explorer(ctx, f).cfg
    stores = [U.node_containing(cfg, st).id for st, k in U.assigns_to_attr(P, f, R.raftState)]
    ctx.require(stores, 'the state setter does not write the state')
    # calls through a value (local / parameter / attribute of conf): the user callback
    n_calls = 0
    for c in P.calls_in(f):
        fn = c.func
        user = (isinstance(fn, ast.Name) and (P._is_local(f, fn.id) or fn.id in f.params)) or \
               (isinstance(fn, ast.Attribute) and not P.self_attr(fn, f.self_name) is None and P.lookup_method(f.owner_cls, fn.attr) is None) or \
               (isinstance(fn, ast.Attribute) and isinstance(fn.value, ast.Attribute) and P.self_attr(fn.value, f.self_name))
        if not user:
            continue
        n_calls += 1
        cn = U.node_containing(cfg, c)
        inst = '%s: `%s` runs after the state is stored' % (f.qualname, unparse(c)[:40])
        ctx.tick()
        if cn.id in cfg.reachable_from(cfg.entry.id, avoid=stores):
            ctx.violation('%s:notify-before-store' % f.qualname, f.loc(c),
                          'the callback `%s` can run before self.%s is written: if it raises, the transition (e.g. the step-down of a cut-off leader) is lost and repeated in vain on '
                          'every tick' % (unparse(c)[:40], R.raftState), instance=inst)
        else:
            ctx.ok(inst, f.loc(c), 'dominated by the state store')
    if not n_calls:
        ctx.ok('%s runs no callback' % f.qualname, f.loc(), '')
    ctx.expect_min(1)
