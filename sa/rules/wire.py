"""Wire-level rules: command/chunk shapes and message schema (C11), TCP framing (C13)."""
import ast
import struct
from . import rule
from ..inline import InlineBlock
from .. import util as U
from ..pyir import AnalysisError, unparse
from .. import oracle
from .raftmisc import sender_func
from .raftlog import ae_region


# ----------------------------------------------------------------------------- C11
def chunk_loops(ctx, f):
    """For loops `for pos in range(0, len(X), B)` -> (loop, X expr, B expr, pos name)"""
    out = []
    for n in U.walk_no_nested(f.node):
        if isinstance(n, ast.For) and isinstance(n.iter, ast.Call) and isinstance(n.iter.func, ast.Name) and n.iter.func.id in ('range', 'xrange') \
                and len(n.iter.args) == 3 and isinstance(n.target, ast.Name):
            bound = U.deref1(ctx.P, f, n.iter.args[1])      # a length hoisted into a local is looked through
            if isinstance(bound, ast.Call) and isinstance(bound.func, ast.Name) and bound.func.id == 'len' and bound.args:
                out.append((n, bound.args[0], n.iter.args[2], n.target.id))
    return out


def _deref_lengths(P, f, cond):
    """classifier condition with locals that hold a length (`total = len(X)`) replaced by that length"""
    import copy
    defs = U.single_defs(P, f)

    class T(ast.NodeTransformer):
        def visit_Name(self, n):
            d = defs.get(n.id)
            if isinstance(n.ctx, ast.Load) and isinstance(d, ast.Call) and isinstance(d.func, ast.Name) and d.func.id == 'len':
                return ast.copy_location(copy.deepcopy(d), n)
            return n
    return T().visit(copy.deepcopy(cond))


def _classifier(loop, var_candidates):
    """the if/elif chain in the loop assigning constant strings to one variable -> [(cond or None, kind)]"""
    for st in loop.body:
        if isinstance(st, ast.If):
            chain = []
            cur = st
            var = None
            ok = True
            while True:
                if len(cur.body) == 1 and isinstance(cur.body[0], ast.Assign) and isinstance(cur.body[0].value, ast.Constant) and isinstance(cur.body[0].value.value, str) \
                        and isinstance(cur.body[0].targets[0], ast.Name):
                    v = cur.body[0].targets[0].id
                    if var is None:
                        var = v
                    if v != var:
                        ok = False
                        break
                    chain.append((cur.test, cur.body[0].value.value))
                else:
                    ok = False
                    break
                if len(cur.orelse) == 1 and isinstance(cur.orelse[0], ast.If):
                    cur = cur.orelse[0]
                    continue
                if len(cur.orelse) == 1 and isinstance(cur.orelse[0], ast.Assign) and isinstance(cur.orelse[0].value, ast.Constant) \
                        and isinstance(cur.orelse[0].targets[0], ast.Name) and cur.orelse[0].targets[0].id == var:
                    chain.append((None, cur.orelse[0].value.value))
                elif cur.orelse:
                    ok = False
                break
            if ok and chain:
                return var, chain
        elif isinstance(st, InlineBlock):
            # a classifier helper written with early returns, inlined: `if c1: v = 'a'; <ret>` ... `v = 'z'` is the same chain
            chain = []
            var = None
            ok = True
            from ..inline import InlineReturn as _IR
            for x in st.body:
                if isinstance(x, ast.If) and not x.orelse and len(x.body) == 2 and isinstance(x.body[1], _IR) and isinstance(x.body[0], ast.Assign) \
                        and isinstance(x.body[0].value, ast.Constant) and isinstance(x.body[0].value.value, str) and isinstance(x.body[0].targets[0], ast.Name):
                    v = x.body[0].targets[0].id
                    var = var or v
                    if v != var:
                        ok = False
                    chain.append((x.test, x.body[0].value.value))
                elif isinstance(x, ast.Assign) and isinstance(x.value, ast.Constant) and isinstance(x.value.value, str) and isinstance(x.targets[0], ast.Name) \
                        and (var is None or x.targets[0].id == var):
                    var = var or x.targets[0].id
                    chain.append((None, x.value.value))
                elif isinstance(x, _IR) or isinstance(x, ast.Pass):
                    continue
                else:
                    ok = False
            if ok and len(chain) >= 2:
                return var, chain
    return None, None


@rule('R-chunk-length', 'the sender that cuts a big entry into chunks classifies every chunk by the length of the sequence '
                        'it slices: for every length and batch size the kinds are start, process*, finish')
def r_chunk_length(ctx):
    P, R = ctx.P, ctx.R
    f = sender_func(ctx)
    loops = chunk_loops(ctx, f)
    ctx.require(loops, 'no chunking loop `for pos in range(0, len(X), B)` in the sender')
    for loop, X, B, pos in loops:
        xk, bk = unparse(X), unparse(B)
        # the slice that is sent
        slices = [s for s in ast.walk(loop) if isinstance(s, ast.Subscript) and isinstance(s.slice, ast.Slice) and unparse(s.value) == xk]
        inst = 'chunk payload is `%s[pos:pos + %s]`' % (xk, bk)
        ctx.tick()
        oks = [s for s in slices if s.slice.lower is not None and unparse(s.slice.lower) == pos and s.slice.upper is not None
               and unparse(s.slice.upper) in ('%s + %s' % (pos, bk), '%s + %s' % (bk, pos))]
        if oks:
            ctx.ok(inst, f.loc(oks[0]), '')
        else:
            ctx.violation('%s:chunk-slice' % f.qualname, f.loc(loop), 'the chunk loop steps by `%s` over `%s` but does not send `%s[%s:%s + %s]`' % (bk, xk, xk, pos, pos, bk), instance=inst)
        # the bytes being cut are produced, in this pass, by pickling the single entry fetched for this follower
        inst = 'chunked bytes are pickled from the entry being sent'
        ctx.tick()
        if isinstance(X, ast.Name):
            cfg_ = U.explorer(ctx, f).cfg
            ln = [m for m in cfg_.nodes if m.ast is loop and m.kind == 'iter']
            defs = [d for d in U.walk_no_nested(f.node) if isinstance(d, ast.Assign) and any(isinstance(t, ast.Name) and t.id == X.id for t in d.targets)]
            fresh = [d for d in defs if isinstance(d.value, ast.Call) and unparse(d.value.func).endswith('dumps') and d.value.args]
            stale = [d for d in defs if d not in fresh]
            if fresh and not stale:
                src = fresh[0].value.args[0]
                # the pickled object is the one entry whose size triggered the chunking
                ctx.ok(inst, f.loc(fresh[0]), '%s = %s' % (X.id, unparse(fresh[0].value)))
            else:
                bad_d = (stale or defs or [loop])[0]
                ctx.violation('%s:chunk-bytes-not-fresh' % f.qualname, f.loc(bad_d),
                              'the bytes that are cut into chunks (`%s`) are not pickled from the entry fetched in this pass (`%s`): a cached / stale serialisation can be sent for a log '
                              'position whose entry has since been replaced' % (X.id, unparse(bad_d.value) if hasattr(bad_d, 'value') else '?'), instance=inst)
        else:
            ctx.unproven(inst, f.loc(loop), 'sliced sequence is not a local')
        # every length used in the classifier is len(X)
        var, chain = _classifier(loop, None)
        inst = 'classifier lengths refer to the sliced sequence'
        if chain is None:
            ctx.unproven(inst, f.loc(loop), 'chunk classifier is not an if/elif chain of constant kinds')
            continue
        foreign = []
        chain = [(_deref_lengths(P, f, cond) if cond is not None else None, kind) for cond, kind in chain]
        for cond, kind in chain:
            if cond is None:
                continue
            for c in ast.walk(cond):
                if isinstance(c, ast.Call) and isinstance(c.func, ast.Name) and c.func.id == 'len' and c.args and unparse(c.args[0]) != xk:
                    foreign.append((c, kind))
        ctx.tick()
        if foreign:
            c, kind = foreign[0]
            ctx.violation('%s:chunk-classifier-foreign-length' % f.qualname, f.loc(c),
                          'the chunk kind `%s` is decided with `%s` while the loop slices `%s`: for some sizes a non-final chunk is labelled final '
                          '(the receiver then unpickles a truncated buffer)' % (kind, unparse(c), xk), instance=inst)
            continue
        ctx.ok(inst, f.loc(loop), 'all lengths in the classifier are len(%s)' % xk)
        # small-domain evaluation of the classifier
        inst = 'kinds are start, process*, finish for every length > batch size'
        bad = None
        n_eval = 0
        try:
            for b in range(1, 7):
                for L in range(b + 1, 4 * b + 4):
                    kinds = []
                    for p in range(0, L, b):
                        env = {pos: p, bk: b, 'len(%s)' % xk: L}
                        k = None
                        for cond, kind in chain:
                            n_eval += 1
                            if cond is None or U.eval_arith(cond, env):
                                k = kind
                                break
                        kinds.append(k)
                    want_mid = [kinds[1]] * (len(kinds) - 2) if len(kinds) > 2 else []
                    if len(kinds) < 2 or len(set([kinds[0], kinds[-1]] + kinds[1:-1][:1])) < (3 if len(kinds) > 2 else 2) \
                            or kinds.count(kinds[0]) != 1 or kinds.count(kinds[-1]) != 1 or kinds[1:-1] != want_mid:
                        if bad is None:
                            bad = (b, L, kinds)
        except AnalysisError as e:
            ctx.unproven(inst, f.loc(loop), str(e))
            continue
        ctx.tick(n_eval)
        if bad is None:
            ctx.ok(inst, f.loc(loop), '%d classifier evaluations over batch sizes 1..6 and lengths up to 4x' % n_eval)
        else:
            b, L, kinds = bad
            ctx.violation('%s:chunk-classifier-sequence' % f.qualname, f.loc(loop),
                          'with batch size %d and %d bytes to send the chunk kinds are %s (expected one first kind, then middles, then exactly one final kind)' % (b, L, kinds), instance=inst)
    ctx.expect_min(3)


@rule('R-chunk-kinds', 'the chunk kinds the sender emits are exactly those the receiver handles: the first resets the buffer, '
                       'the middle appends, the last appends, decodes and clears; anything else raises')
def r_chunk_kinds(ctx):
    P, R = ctx.P, ctx.R
    f = sender_func(ctx)
    emitted = set()
    for loop, X, B, pos in chunk_loops(ctx, f):
        var, chain = _classifier(loop, None)
        if chain:
            emitted |= set(k for c, k in chain)
    ctx.require(emitted, 'sender emits no chunk kinds')
    info = ae_region(ctx)
    ex, res = info['ex'], info['res']
    h = R.handler
    cfg = ex.cfg
    msg = info['msg']
    # buffer attribute: the one assigned / extended from message['data']
    buf = None
    for n in cfg.nodes:
        if n.kind == 'stmt' and isinstance(n.ast, (ast.Assign, ast.AugAssign)) and res.reached(n.id):
            v = U.deref1(P, h, n.ast.value)        # message['data'] itself or a local holding it
            if isinstance(v, ast.Subscript) and isinstance(v.value, ast.Name) and v.value.id == msg and isinstance(v.slice, ast.Constant) and v.slice.value == 'data':
                t = n.ast.targets[0] if isinstance(n.ast, ast.Assign) else n.ast.target
                buf = P.self_attr(t, h.self_name) or buf
    ctx.require(buf, 'receive buffer attribute not found')
    # order kinds: first = the one chosen at pos == 0; last = chosen by the length test
    first = last = None
    for loop, X, B, pos in chunk_loops(ctx, f):
        var, chain = _classifier(loop, None)
        for cond, kind in chain or []:
            if cond is not None and isinstance(cond, ast.Compare) and isinstance(cond.comparators[0], ast.Constant) and cond.comparators[0].value == 0:
                first = kind
            elif cond is not None:
                last = kind

    from .raftlog import ack_calls
    ack_nodes = [c for c, *_ in ack_calls(ctx)]

    def ev(m):
        out = []
        if m.kind != 'stmt' or m.ast is None:
            return out
        if isinstance(m.ast, ast.Assign) and P.self_attr(m.ast.targets[0], h.self_name) == buf:
            out.append('clear' if isinstance(m.ast.value, ast.Constant) else 'reset')
        if isinstance(m.ast, ast.AugAssign) and P.self_attr(m.ast.target, h.self_name) == buf and isinstance(m.ast.op, ast.Add):
            out.append('append')
        if any(isinstance(c, ast.Call) and unparse(c.func).endswith('loads') and any(P.self_attr(x, h.self_name) == buf for x in ast.walk(c)) for c in ast.walk(m.ast)):
            out.append('decode')
        if any(x is c for c in ack_nodes for x in ast.walk(m.ast)):
            out.append('reply')
        return out
    lookup_id = info['lookup'][0].id if info.get('lookup') else None
    ctx.require(lookup_id is not None, 'log lookup after the chunk handling not found')
    rets = U.handler_returns(cfg, cfg.nodes[lookup_id])
    getter = ex.tb.term(U.parse_expr("%s.get('transmission', None)" % msg))
    from ..facts import const_term
    handled = set()
    for kind in sorted(emitted):
        init = frozenset([('eq', getter, const_term(kind)), ex.tb.literal(U.parse_expr("'prevLogIdx' in %s" % msg), True)])
        r2 = ex.run(start=info['entry'], init=init, track=ev, stop=rets + [lookup_id, cfg.exit.id], follow_exc=False)
        outcomes = set()
        for end in rets + [lookup_id]:
            for fs, cnt in r2.cstates.get(end, ()):
                outcomes.add((tuple(sorted(cnt)), 'continue' if end == lookup_id else 'return'))
        inst = 'receiver effects for a %r chunk' % kind
        ctx.tick(len(outcomes))
        # an intermediate chunk is answered before the handler returns: these replies are the only traffic towards the
        # leader while a long entry is in flight, without them its silence timeout cuts the transfer over and over
        if kind == first:
            want = {((('reply', 1), ('reset', 1)), 'return')}
        elif kind == last:
            want = {((('append', 1), ('clear', 1), ('decode', 1)), 'continue')}
        else:
            want = {((('append', 1), ('reply', 1)), 'return')}
        if outcomes:
            handled.add(kind)
        if outcomes == want:
            ctx.ok(inst, h.loc(cfg.nodes[info['entry']].ast), 'on every path: %s' % sorted(want))
        elif not outcomes:
            ctx.violation('%s:chunk-kind-%s-unhandled' % (h.qualname, kind), h.loc(cfg.nodes[info['entry']].ast), 'a %r chunk reaches neither a return nor the log lookup (it raises)' % kind, instance=inst)
        else:
            ctx.violation('%s:chunk-branch-%s' % (h.qualname, kind), h.loc(cfg.nodes[info['entry']].ast),
                          'for a %r chunk the receiver does %s; expected %s (the first chunk must replace the buffer, later ones extend it, the last one decodes and clears it)'
                          % (kind, sorted(outcomes), sorted(want)), instance=inst)
    # unknown kind raises
    inst = 'unknown chunk kind raises'
    ctx.tick()
    init = frozenset([('eq', getter, const_term('\0no-such-kind')), ex.tb.literal(U.parse_expr("'prevLogIdx' in %s" % msg), True)])
    r3 = ex.run(start=info['entry'], init=init, stop=rets + [lookup_id, cfg.exit.id], follow_exc=False)
    if any(r3.reached(e) for e in rets + [lookup_id]):
        ctx.violation('%s:unknown-chunk-kind-ignored' % h.qualname, h.loc(), 'a chunk of an unknown kind is silently accepted', instance=inst)
    else:
        ctx.ok(inst, h.loc(), 'no return / continuation reachable with an unknown kind')
    ctx.expect_min(3)


def decorator_inner(ctx, name):
    P = ctx.P
    f = P.functions.get('syncobj:%s' % name)
    if f is None:
        raise AnalysisError('decorator %s gone' % name)
    inner = [g for q, g in P.functions.items() if q.startswith(f.qualname + '.') and g.name == 'newFunc']
    if not inner:
        raise AnalysisError('decorator %s has no inner wrapper newFunc' % name)
    return f, inner[0]


@rule('R-cmd-shapes', 'the decorator packs a call as id | (id, args) | (id, args, kwargs) and the dispatcher unpacks exactly '
                      'these shapes; reserved keywords are removed before the command is pickled')
def r_cmd_shapes(ctx):
    P, R = ctx.P, ctx.R
    dec, wrap = decorator_inner(ctx, 'replicated')
    ex = U.explorer(ctx, wrap)
    cfg = ex.cfg
    # packed shapes
    shapes = []
    cmdvar = None
    dumps = None
    for c in P.calls_in(wrap):
        if unparse(c.func).endswith('dumps') and c.args and isinstance(c.args[0], ast.Name):
            cmdvar = c.args[0].id
            dumps = c
    ctx.require(cmdvar, 'the decorator does not pickle a command variable')
    for n in U.walk_no_nested(wrap.node):
        if isinstance(n, ast.Assign) and isinstance(n.targets[0], ast.Name) and n.targets[0].id == cmdvar:
            if isinstance(n.value, ast.Tuple):
                shapes.append(tuple(unparse(e) for e in n.value.elts))
            else:
                shapes.append((unparse(n.value),))
    shapes_set = set(len(s) for s in shapes)
    d = R.dispatcher
    # dispatcher unpack sizes
    unpack = set()
    order_ok = True
    bare = False
    for n in U.walk_no_nested(d.node):
        if isinstance(n, ast.Assign) and isinstance(n.targets[0], ast.Tuple) and isinstance(n.value, ast.Name):
            unpack.add(len(n.targets[0].elts))
        if isinstance(n, ast.Call) and isinstance(n.func, ast.Name) and n.func.id == 'isinstance' and len(n.args) == 2 and unparse(n.args[1]) == 'tuple':
            bare = True
    inst = 'packed shapes = unpacked shapes'
    ctx.tick()
    want_unpack = set(s for s in shapes_set if s > 1)
    if shapes_set == {1, 2, 3} and unpack == want_unpack and bare:
        ctx.ok(inst, wrap.loc(dumps), 'packs %s; dispatcher handles bare id, 2-tuple, 3-tuple' % sorted(shapes))
    else:
        ctx.violation('%s:command-shapes-differ' % d.qualname, d.loc(), 'the decorator packs tuple sizes %s, the dispatcher unpacks %s (bare id handled: %s)' % (sorted(shapes_set), sorted(unpack), bare),
                      instance=inst)
    # which shape is chosen: evaluated for all four combinations of empty / non-empty args and kwargs
    inst = 'no user argument is dropped when the command is packed'
    chain = None
    for n in U.walk_no_nested(wrap.node):
        if isinstance(n, ast.If) and any(isinstance(x, ast.Assign) and isinstance(x.targets[0], ast.Name) and x.targets[0].id == cmdvar for x in n.body):
            chain = n
            break
    if chain is None:
        ctx.unproven(inst, wrap.loc(dumps), 'shape selection is not an if/elif chain')
    else:
        arms = []
        cur = chain
        while True:
            asg = [x for x in cur.body if isinstance(x, ast.Assign) and isinstance(x.targets[0], ast.Name) and x.targets[0].id == cmdvar]
            arms.append((cur.test, asg[0].value if asg else None))
            if len(cur.orelse) == 1 and isinstance(cur.orelse[0], ast.If):
                cur = cur.orelse[0]
                continue
            asg = [x for x in cur.orelse if isinstance(x, ast.Assign) and isinstance(x.targets[0], ast.Name) and x.targets[0].id == cmdvar]
            if asg:
                arms.append((None, asg[0].value))
            break
        bad = None
        n_eval = 0
        try:
            for a_ne in (False, True):
                for k_ne in (False, True):
                    env = {'args': (1,) if a_ne else (), 'kwargs': {'k': 1} if k_ne else {}}
                    chosen = None
                    for test, val in arms:
                        n_eval += 1
                        if test is None or U.eval_arith(test, env):
                            chosen = val
                            break
                    names = set(x.id for x in ast.walk(chosen) if isinstance(x, ast.Name)) if chosen is not None else set()
                    if (a_ne and 'args' not in names) or (k_ne and 'kwargs' not in names):
                        bad = (a_ne, k_ne, unparse(chosen) if chosen is not None else None)
        except AnalysisError as e:
            ctx.unproven(inst, wrap.loc(chain), str(e))
            bad = 0
        ctx.tick(n_eval)
        if bad is None:
            ctx.ok(inst, wrap.loc(chain), 'for empty/non-empty args x kwargs the packed command contains every non-empty part')
        elif bad != 0:
            ctx.violation('%s:command-drops-arguments' % wrap.qualname, wrap.loc(chain),
                          'with %s positional and %s keyword arguments the call is packed as `%s`: the %s are silently dropped and every replica runs the method with defaults'
                          % ('some' if bad[0] else 'no', 'some' if bad[1] else 'no', bad[2], 'keyword arguments' if bad[1] and 'kwargs' not in (bad[2] or '') else 'positional arguments'), instance=inst)
    # which unpacking the dispatcher chooses for each packed size: evaluated for the sizes the decorator emits
    inst = 'the dispatcher unpacks a command of n components into n names'
    cvar = None
    for n in U.walk_no_nested(d.node):
        if isinstance(n, ast.Assign) and isinstance(n.targets[0], ast.Tuple) and isinstance(n.value, ast.Name):
            cvar = n.value.id
    dchain = None
    for n in U.walk_no_nested(d.node):
        if isinstance(n, ast.If) and cvar and any(isinstance(x, ast.Call) and isinstance(x.func, ast.Name) and x.func.id == 'isinstance' and x.args and unparse(x.args[0]) == cvar
                                                  for x in ast.walk(n.test)):
            dchain = n
            break
    if dchain is None or cvar is None:
        ctx.unproven(inst, d.loc(), 'the dispatcher does not branch on isinstance(<command>, tuple)')
    else:
        # the statement list that holds the chain, from the chain on (an if/elif/else chain or a sequence of early returns)
        from ..inline import InlineReturn as _IR

        def find_list(stmts):
            for i, st_ in enumerate(stmts):
                if st_ is dchain:
                    return stmts[i:]
                for fld in ('body', 'orelse', 'finalbody'):
                    sub = getattr(st_, fld, None)
                    if isinstance(sub, list) and sub and isinstance(sub[0], ast.stmt):
                        r_ = find_list(sub)
                        if r_ is not None:
                            return r_
            return None
        tail = find_list(d.node.body) or [dchain]
        bad = None
        n_eval = [0]

        def simulate(stmts, env, found):
            # -> True when the list was left by a return; `found` collects the arity of the unpacking that is executed
            for st_ in stmts:
                if isinstance(st_, (ast.Return, _IR, ast.Raise)):
                    return True
                if isinstance(st_, ast.If):
                    n_eval[0] += 1
                    if bool(U.eval_arith(st_.test, env)):
                        if simulate(st_.body, env, found):
                            return True
                    elif simulate(st_.orelse, env, found):
                        return True
                    continue
                if isinstance(st_, InlineBlock):
                    simulate(st_.body, env, found)
                    continue
                if isinstance(st_, ast.Assign) and isinstance(st_.value, ast.Name) and st_.value.id == cvar:
                    found.append(len(st_.targets[0].elts) if isinstance(st_.targets[0], ast.Tuple) else 1)
                elif isinstance(st_, ast.Assign) and isinstance(st_.value, ast.Tuple) and st_.value.elts and isinstance(st_.value.elts[0], ast.Name) \
                        and st_.value.elts[0].id == cvar and isinstance(st_.targets[0], ast.Tuple):
                    found.append(1)      # `id, args, kwargs = command, [], {}`: the command itself is the id
            return False
        try:
            for size in sorted(shapes_set):
                env = {'isinstance(%s, tuple)' % cvar: size > 1, 'len(%s)' % cvar: size}
                found = []
                simulate(tail, env, found)
                arity = found[0] if found else None
                if arity != size and bad is None:
                    bad = (size, arity)
        except AnalysisError as e:
            ctx.unproven(inst, d.loc(dchain), str(e))
            bad = 0
        ctx.tick(n_eval[0])
        if bad is None:
            ctx.ok(inst, d.loc(dchain), 'sizes %s each reach the unpacking of the same arity' % sorted(shapes_set))
        elif bad != 0:
            ctx.violation('%s:command-unpacked-with-wrong-arity' % d.qualname, d.loc(dchain),
                          'a command packed with %d component(s) reaches an unpacking into %s name(s): applying it raises on every node' % (bad[0], bad[1]), instance=inst)
    # component order: id first, args second, kwargs third on both sides
    inst = 'component order (id, args, kwargs) agrees'
    ctx.tick()
    packed3 = [s for s in shapes if len(s) == 3]
    unp3 = [n for n in U.walk_no_nested(d.node) if isinstance(n, ast.Assign) and isinstance(n.targets[0], ast.Tuple) and len(n.targets[0].elts) == 3]
    okc = bool(packed3) and bool(unp3) and packed3[0][1] == 'args' and 'kw' in packed3[0][2].lower()
    if okc:
        names = [unparse(e) for e in unp3[0].targets[0].elts]
        call = R.dispatch_call
        star = [unparse(a.value) for a in call.args if isinstance(a, ast.Starred)]
        dstar = [unparse(k.value) for k in call.keywords if k.arg is None]
        idx = unparse(call.func.slice)
        okc = idx == names[0] and star == [names[1]] and bool(dstar)
        # the keyword component reaches the call: it is the ** dict itself or merged into it (`kwargs.update(newKwArgs)`)
        if okc:
            merged = dstar[0] == names[2] or any(
                isinstance(c_, ast.Call) and isinstance(c_.func, ast.Attribute) and c_.func.attr == 'update' and unparse(c_.func.value) == dstar[0]
                and c_.args and unparse(c_.args[0]) == names[2] for c_ in ast.walk(d.node))
            if not merged:
                okc = False
                ctx.violation('%s:keyword-component-dropped' % d.qualname, d.loc(R.dispatch_call),
                              'the keyword-argument component `%s` of a command never reaches `**%s` of the dispatch call: keyword arguments are pickled, replicated and then ignored on '
                              'every node' % (names[2], dstar[0]), instance=inst)
                okc = None
    if okc:
        ctx.ok(inst, d.loc(R.dispatch_call), 'table[id](*args, **kwargs)')
    elif okc is None:
        pass
    else:
        ctx.violation('%s:command-component-order' % d.qualname, d.loc(R.dispatch_call), 'the dispatcher does not use the components in the packed order (id, args, kwargs)', instance=inst)
    # reserved keywords popped before dumps
    dn = U.node_containing(cfg, dumps)
    for kw in ('callback', 'sync', 'timeout'):
        pops = [U.node_containing(cfg, c).id for c in P.calls_in(wrap) if isinstance(c.func, ast.Attribute) and c.func.attr == 'pop' and c.args
                and isinstance(c.args[0], ast.Constant) and c.args[0].value == kw]
        inst = 'reserved keyword %r removed before pickling' % kw
        ctx.tick()
        if pops and dn.id not in cfg.reachable_from(cfg.entry.id, avoid=pops):
            ctx.ok(inst, wrap.loc(dumps), 'pickle.dumps unreachable without the pop')
        else:
            ctx.violation('%s:reserved-keyword-%s-pickled' % (wrap.qualname, kw), wrap.loc(dumps),
                          'the command can be pickled while `%s` is still in kwargs: it is then passed to the user method on every replica' % kw, instance=inst)
    # _doApply removed before calling the user function
    inst = "reserved keyword '_doApply' removed before the user function runs"
    ctx.tick()
    p = [c for c in P.calls_in(wrap) if isinstance(c.func, ast.Attribute) and c.func.attr == 'pop' and c.args and isinstance(c.args[0], ast.Constant) and c.args[0].value == '_doApply']
    if p:
        ctx.ok(inst, wrap.loc(p[0]), '')
    else:
        ctx.violation('%s:doApply-not-removed' % wrap.qualname, wrap.loc(), '_doApply stays in kwargs and reaches the user method', instance=inst)
    # the dispatcher injects _doApply
    inst = 'dispatcher marks the call as an apply'
    ctx.tick()
    if any(isinstance(n, ast.Constant) and n.value == '_doApply' for n in ast.walk(d.node)):
        ctx.ok(inst, d.loc(), '')
    else:
        ctx.violation('%s:doApply-not-set' % d.qualname, d.loc(), 'the dispatcher does not pass _doApply=True: applying a command would enqueue it again', instance=inst)
    ctx.expect_min(6)


def _literals_by_type(ctx):
    """wire type -> [(func, dict ast, extra keys assigned later to the same local, call)]"""
    P, R = ctx.P, ctx.R
    out = {}
    for f, c, d, t, tgt in U.all_send_sites(ctx):
        if d is None or t is None:
            continue
        extra = set()
        m = c.args[1]
        if isinstance(m, ast.Name):
            for n in U.walk_no_nested(f.node):
                if isinstance(n, ast.Assign) and isinstance(n.targets[0], ast.Subscript) and isinstance(n.targets[0].value, ast.Name) and n.targets[0].value.id == m.id \
                        and isinstance(n.targets[0].slice, ast.Constant):
                    extra.add(n.targets[0].slice.value)
        out.setdefault(t, []).append((f, d, extra, c))
    return out


@rule('R-wire-schema', 'every key the handler reads from a message of some type is written by every sender of that type '
                       'that is consistent with the guards in force at the read')
def r_wire_schema(ctx):
    P, R = ctx.P, ctx.R
    lits = _literals_by_type(ctx)
    regs = U.regions(ctx)
    h = R.handler
    msg = R.handler_msg_param
    inst_types = 0
    for t in sorted(regs):
        if t not in lits:
            ctx.violation('%s:type-%s-never-sent' % (h.qualname, t), h.loc(), 'the handler has a region for %r but nobody sends it' % t, instance='type %s sent' % t)
            continue
        ex, res, entry = U.region_run(ctx, t)
        cfg = ex.cfg
        reads = []
        for n in cfg.nodes:
            if n.ast is None or not res.reached(n.id) or n.kind not in ('stmt', 'cond'):
                continue
            for s in ast.walk(n.ast):
                if isinstance(s, ast.Subscript) and isinstance(s.value, ast.Name) and s.value.id == msg and isinstance(s.slice, ast.Constant) \
                        and isinstance(s.ctx, ast.Load) and s.slice.value != 'type':
                    reads.append((n, s.slice.value))
        inst_types += 1
        bad = []
        n_checked = 0
        for n, key in reads:
            for f, d, extra, c in lits[t]:
                have = set(U.dict_keys(d))
                if key in have:
                    continue
                # literal lacks the key: it must be excluded by the facts at the read
                for fs in res.facts_at(n.id):
                    n_checked += 1
                    if any(l[0] == 'opaque' and l[2] and l[1] == "'%s' in %s" % (key, msg) for l in fs):
                        continue        # the read is guarded by `key in message`
                    if not _excluded(fs, d, have | extra, extra, msg, ctx, f):
                        bad.append((n, key, f, d, fs))
                        break
        ctx.tick(n_checked + len(reads))
        inst = 'keys read from %r messages are provided by every consistent sender' % t
        if bad:
            n, key, f, d, fs = bad[0]
            ctx.violation('%s:reads-%s-of-%s-not-always-sent' % (h.qualname, key, t), h.loc(n.ast),
                          'message[%r] is read for type %r, but the sender at %s builds this type without it and nothing at the read excludes that sender (KeyError in the event loop)'
                          % (key, t, f.loc(d)), witness={'facts': U.facts_str(fs, 20)}, instance=inst)
        else:
            ctx.ok(inst, h.loc(cfg.nodes[entry].ast), '%d subscript reads checked against %d sender literal(s)' % (len(reads), len(lits[t])))
    # every sent type has a region (utility / handshake messages are not dict typed)
    for t in sorted(lits):
        ctx.tick()
        if t not in regs:
            f, d, extra, c = lits[t][0]
            ctx.violation('%s:type-%s-not-handled' % (h.qualname, t), f.loc(d), 'messages of type %r are sent but the handler has no region for them' % t, instance='type %s handled' % t)
    ctx.require(inst_types >= 5, 'handler regions vanished')
    ctx.expect_min(5)


def _param_never_none(ctx, f, name):
    """parameter `name` of f receives a non-None constant at every call site"""
    P = ctx.P
    if name not in f.params:
        return False
    pos = f.params.index(name) - 1
    callers = P.callers_of(f)
    if not callers:
        return False
    for g, c in callers:
        a = None
        for k in c.keywords:
            if k.arg == name:
                a = k.value
        if a is None and 0 <= pos < len(c.args):
            a = c.args[pos]
        if a is None:
            return False
        if P.const_class_value(a) is not None:
            continue
        if isinstance(a, ast.Constant) and a.value is not None:
            continue
        return False
    return True


def _excluded(fs, d, have_or_extra, extra, msg, ctx=None, f=None):
    """is the sender literal `d` inconsistent with the facts `fs` that hold at the read?"""
    have = set(U.dict_keys(d))
    for l in fs:
        if l[0] == 'opaque':
            key = l[1]
            # "'K' in message"
            if key.endswith(' in %s' % msg) and key.startswith("'"):
                k2 = key.split("'")[1]
                if l[2] and k2 not in have and k2 not in extra:
                    return True
                if not l[2] and k2 in have:
                    return True
        if l[0] == 'none':
            t = l[1]
            k2 = _get_key(fs, t, msg)
            if k2 is not None:
                if not l[2] and k2 not in have and k2 not in extra:
                    return True
                if l[2] and k2 in have:
                    v = U.dict_get(d, k2)
                    if isinstance(v, ast.Name):
                        if ctx is not None and f is not None and _param_never_none(ctx, f, v.id):
                            return True
                    elif not (isinstance(v, ast.Constant) and v.value is None):
                        return True
        if l[0] == 'truthy':
            k2 = _get_key(fs, l[1], msg)
            if k2 is not None and l[2] and k2 not in have and k2 not in extra:
                return True
    return False


def _get_key(fs, t, msg):
    """t aliases message.get('K', ...) or message['K'] -> K"""
    seen = set()
    todo = [t]
    while todo:
        x = todo.pop()
        if x.key in seen:
            continue
        seen.add(x.key)
        for pre in ("%s.get('" % msg, "%s['" % msg):
            if x.key.startswith(pre):
                return x.key[len(pre):].split("'")[0]
        for l in fs:
            if l[0] == 'eq':
                if l[1] == x:
                    todo.append(l[2])
                elif l[2] == x:
                    todo.append(l[1])
    return None


# ----------------------------------------------------------------------------- C13
def conn_parts(ctx):
    P = ctx.P
    C = P.cls('TcpConnection')
    send = C.methods.get('send')
    if send is None:
        raise AnalysisError('TcpConnection.send gone')
    parse = None
    for m in P.methods_of(C):
        if any(isinstance(c.func, ast.Attribute) and c.func.attr == 'unpack' for c in P.calls_in(m)):
            parse = m
    if parse is None:
        raise AnalysisError('frame parser (struct.unpack of the length) not found in TcpConnection')
    rbuf = wbuf = None
    for n in ast.walk(parse.node):
        if isinstance(n, ast.Call) and isinstance(n.func, ast.Attribute) and n.func.attr == 'unpack' and len(n.args) == 2:
            for x in ast.walk(n.args[1]):
                a = P.self_attr(x, parse.self_name)
                if a:
                    rbuf = a
    # the write buffer: the attribute handed to <socket attribute>.send(..) somewhere in the class and extended in send()
    handed = set()
    for m in P.methods_of(C):
        for c in P.calls_in(m):
            if isinstance(c.func, ast.Attribute) and c.func.attr == 'send' and P.self_attr(c.func.value, m.self_name) and c.args:
                for x in ast.walk(c.args[0]):
                    a = P.self_attr(x, m.self_name)
                    if a:
                        handed.add(a)
    for n in ast.walk(send.node):
        if isinstance(n, (ast.AugAssign, ast.Assign)):
            a = P.self_attr(n.target if isinstance(n, ast.AugAssign) else n.targets[0], send.self_name)
            if a and (a in handed or (not handed and isinstance(n, ast.AugAssign) and not isinstance(n.value, ast.Constant))):
                wbuf = a
    if not rbuf or not wbuf:
        raise AnalysisError('read/write buffer attributes not found')
    return C, send, parse, rbuf, wbuf


def conn_attrs(ctx):
    """(socket attribute, state attribute) of TcpConnection: the attribute .send()/.recv() is called on with the
    write buffer / a size, and the attribute compared with CONNECTION_STATE members"""
    P = ctx.P
    C, send, parse, rbuf, wbuf = conn_parts(ctx)
    sock = state = None
    for m in P.methods_of(C):
        sn = m.self_name
        for n in ast.walk(m.node):
            if isinstance(n, ast.Call) and isinstance(n.func, ast.Attribute) and n.func.attr in ('send', 'recv') and P.self_attr(n.func.value, sn) \
                    and n.args and (P.self_attr(n.args[0], sn) == wbuf or n.func.attr == 'recv'):
                sock = P.self_attr(n.func.value, sn)
            if isinstance(n, ast.Compare) and len(n.ops) == 1 and P.self_attr(n.left, sn) and P.const_class_value(n.comparators[0]) \
                    and P.const_class_value(n.comparators[0])[0] == 'CONNECTION_STATE':
                state = P.self_attr(n.left, sn)
    if not sock or not state:
        raise AnalysisError('socket / state attribute of TcpConnection not found')
    return sock, state


@rule('R-header-agree', 'the length header is packed and unpacked with the same struct format and every literal header size '
                        'in the parser equals its calcsize')
def r_header_agree(ctx):
    P = ctx.P
    C, send, parse, rbuf, wbuf = conn_parts(ctx)
    pf = [c.args[0].value for c in P.calls_in(send) if isinstance(c.func, ast.Attribute) and c.func.attr == 'pack' and c.args and isinstance(c.args[0], ast.Constant)]
    uf = [c.args[0].value for c in P.calls_in(parse) if isinstance(c.func, ast.Attribute) and c.func.attr == 'unpack' and c.args and isinstance(c.args[0], ast.Constant)]
    ctx.require(pf and uf, 'header formats not found')
    inst = 'pack format = unpack format'
    ctx.tick()
    if pf[0] == uf[0]:
        ctx.ok(inst, parse.loc(), repr(pf[0]))
    else:
        ctx.violation('TcpConnection:header-format-mismatch', parse.loc(), 'send packs %r, the parser unpacks %r' % (pf[0], uf[0]), instance=inst)
    H = struct.calcsize(uf[0])
    # literals that take part in the buffer arithmetic: the ones in an expression that mentions the read buffer (or a
    # local alias of it); counters and statistics next to the parsing are not header sizes
    sn = parse.self_name
    aliases = set()

    def mentions_buffer(e):
        return any((P.self_attr(x, sn) == rbuf) or (isinstance(x, ast.Name) and x.id in aliases) for x in ast.walk(e))
    # locals computed from the buffer (an alias, its length, the unpacked frame length, a slice bound built from it)
    changed = True
    while changed:
        changed = False
        for st in ast.walk(parse.node):
            if isinstance(st, ast.Assign) and len(st.targets) == 1 and isinstance(st.targets[0], ast.Name) and st.targets[0].id not in aliases and mentions_buffer(st.value):
                aliases.add(st.targets[0].id)
                changed = True
            elif isinstance(st, ast.Subscript) and mentions_buffer(st.value):
                for x in ast.walk(st.slice):
                    if isinstance(x, ast.Name) and x.id not in aliases:
                        aliases.add(x.id)
                        changed = True
    tops = []
    for st in ast.walk(parse.node):
        if isinstance(st, (ast.Assign, ast.AugAssign, ast.AnnAssign, ast.Return, ast.Expr)):
            tops.append(st)
        elif isinstance(st, (ast.If, ast.While)):
            tops.append(st.test)
    consts = []
    for t in tops:
        if t is not None and mentions_buffer(t):
            consts += [n for n in ast.walk(t) if isinstance(n, ast.Constant) and isinstance(n.value, int) and not isinstance(n.value, bool) and n.value > 0]
    inst = 'literal header sizes in the parser'
    ctx.tick(len(consts))
    badc = [n for n in consts if n.value != H]
    ctx.require(len(consts) >= 4, 'parser lost its header-size literals')
    if badc:
        ctx.violation('%s:header-size-literal-%d' % (parse.qualname, badc[0].value), parse.loc(badc[0]),
                      'the parser uses the literal %d where the header has struct.calcsize(%r) = %d bytes' % (badc[0].value, uf[0], H), instance=inst)
    else:
        ctx.ok(inst, parse.loc(), '%d literals, all equal calcsize(%r) = %d' % (len(consts), uf[0], H))
    # the packed value is the length of exactly the bytes appended after the header
    inst = 'header carries the length of the payload that follows'
    ctx.tick()
    okp = False
    for n in ast.walk(send.node):
        if isinstance(n, ast.Assign) and isinstance(n.value, ast.BinOp) and isinstance(n.value.op, ast.Add) and isinstance(n.value.left, ast.Call) \
                and isinstance(n.value.left.func, ast.Attribute) and n.value.left.func.attr == 'pack':
            pk = n.value.left
            if len(pk.args) == 2 and isinstance(pk.args[1], ast.Call) and unparse(pk.args[1].func) == 'len' and unparse(pk.args[1].args[0]) == unparse(n.value.right):
                okp = True
    if okp:
        ctx.ok(inst, send.loc(), 'pack(fmt, len(data)) + data')
    else:
        ctx.violation('TcpConnection.send:header-length-source', send.loc(), 'the header does not carry len() of the bytes that follow it', instance=inst)
    ctx.expect_min(3)


INVERSE = {'dumps': 'loads', 'compress': 'decompress', 'encrypt_at_time': 'decrypt', 'encrypt': 'decrypt'}


def _transform_seq(P, func, names):
    """ordered (name, guarded-by attr or None) of calls named in `names` in evaluation order"""
    out = []

    def visit_expr(e, guard):
        for c in ast.iter_child_nodes(e):
            visit_expr(c, guard)
        if isinstance(e, ast.Call):
            nm = e.func.attr if isinstance(e.func, ast.Attribute) else (e.func.id if isinstance(e.func, ast.Name) else None)
            if nm in names:
                out.append((nm, guard))

    def visit_stmts(stmts, guard):
        for s in stmts:
            if isinstance(s, ast.If):
                g = None
                for x in ast.walk(s.test):
                    a = P.self_attr(x, func.self_name)
                    if a:
                        g = a
                visit_expr(s.test, guard)
                visit_stmts(s.body, g or guard)
                visit_stmts(s.orelse, guard)
            elif isinstance(s, ast.Try):
                visit_stmts(s.body, guard)
                for hd in s.handlers:
                    visit_stmts(hd.body, guard)
            elif isinstance(s, (ast.For, ast.While, ast.With, InlineBlock)):
                visit_stmts(s.body, guard)
            else:
                visit_expr(s, guard)
    visit_stmts(func.node.body, None)
    return out


@rule('R-codec-inverse', 'the transformations applied on receive are the inverses of those applied on send, in reverse order, '
                         'and the optional encryption layer is guarded by the same attribute on both sides')
def r_codec_inverse(ctx):
    P = ctx.P
    C, send, parse, rbuf, wbuf = conn_parts(ctx)
    s = _transform_seq(P, send, set(INVERSE))
    r = _transform_seq(P, parse, set(INVERSE.values()))
    want = [(INVERSE[nm], g) for nm, g in reversed(s)]
    inst = 'receive pipeline is the reversed inverse of the send pipeline'
    ctx.tick()
    if r == want and len(s) >= 2:
        ctx.ok(inst, parse.loc(), 'send %s / receive %s' % (s, r))
    else:
        ctx.violation('TcpConnection:codec-pipelines-differ', parse.loc(), 'send applies %s, receive applies %s, expected %s' % (s, r, want), instance=inst)
    # the optional session-key envelope: send wraps the message in a pair exactly when the receiver takes a pair apart
    def wraps(func):
        out = []
        for n in ast.walk(func.node):
            if isinstance(n, ast.Assign) and len(n.targets) == 1 and isinstance(n.targets[0], ast.Name) and isinstance(n.value, ast.Tuple) and len(n.value.elts) == 2 \
                    and isinstance(n.value.elts[1], ast.Name) and n.value.elts[1].id == n.targets[0].id and P.self_attr(n.value.elts[0], func.self_name):
                out.append(n)
        return out

    def unwraps(func):
        out = []
        for n in ast.walk(func.node):
            if isinstance(n, ast.Assign) and len(n.targets) == 1 and isinstance(n.targets[0], ast.Tuple) and len(n.targets[0].elts) == 2 and isinstance(n.value, ast.Name) \
                    and isinstance(n.targets[0].elts[1], ast.Name) and n.targets[0].elts[1].id == n.value.id:
                out.append(n)
        return out
    w_, u_ = wraps(send), unwraps(parse)
    if w_ or u_:
        inst = 'session-key envelope: wrapped by send iff taken apart by the parser'
        ctx.tick()
        if len(w_) == len(u_):
            ctx.ok(inst, send.loc(w_[0]), '`%s` / `%s`' % (unparse(w_[0]), unparse(u_[0])))
        else:
            ctx.violation('TcpConnection:envelope-%s' % ('not-wrapped' if not w_ else 'not-unwrapped'), (send.loc(w_[0]) if w_ else parse.loc(u_[0])),
                          'send() wraps the message in (key, message) %d time(s), the parser takes such a pair apart %d time(s): with the key exchange of the encrypted mode '
                          'switched on every frame fails to parse (or is delivered still wrapped) and the connection is dropped' % (len(w_), len(u_)), instance=inst)
    ctx.expect_min(1)


@rule('R-length-range', 'the length unpacked from received bytes is bounded below (>= 0) and by the buffered bytes before '
                        'it is used as a slice bound or buffer advance')
def r_length_range(ctx):
    P = ctx.P
    C, send, parse, rbuf, wbuf = conn_parts(ctx)
    ex = U.explorer(ctx, parse)
    res = U.full_run(ctx, parse)
    cfg = ex.cfg
    # every slice of the read buffer with a computed bound: 0 <= lower <= upper <= len(buffer) on every path
    uses = []
    for n in cfg.nodes:
        if n.kind == 'stmt' and n.ast is not None:
            for s_ in ast.walk(n.ast):
                if isinstance(s_, ast.Subscript) and isinstance(s_.slice, ast.Slice) and P.self_attr(s_.value, parse.self_name) == rbuf \
                        and any(x is not None and not isinstance(x, ast.Constant) for x in (s_.slice.lower, s_.slice.upper)):
                    uses.append((n, s_))
    ctx.require(uses, 'the length is not used as a slice bound of the read buffer')
    zero = ex.tb.term(ast.Constant(value=0))
    blen = ex.tb.term(U.parse_expr('len(self.%s)' % rbuf))
    for n, s_ in uses:
        inst = '`%s`: length bounded' % unparse(s_)
        lo = ex.tb.term(s_.slice.lower) if s_.slice.lower is not None else zero
        up = ex.tb.term(s_.slice.upper) if s_.slice.upper is not None else None
        ok1, c1 = U.must(ctx, res, n.id, ('le', zero, lo))
        if ok1 and up is not None:
            ok1, c1 = U.must(ctx, res, n.id, ('le', lo, up))
        ok2, c2 = U.must(ctx, res, n.id, ('le', up if up is not None else lo, blen))
        if ok1 and ok2:
            ctx.ok(inst, parse.loc(s_), '0 <= lower <= upper <= len(buffer) entailed')
        elif not ok1:
            ctx.violation('%s:length-no-lower-bound' % parse.qualname, parse.loc(s_),
                          '`%s` is evaluated on a path where the received length may be negative: a frame with a negative length field selects a sender-chosen slice '
                          'and moves the buffer backwards instead of disconnecting: %s' % (unparse(s_), res.path_str(n.id, c1)), instance=inst)
        else:
            ctx.violation('%s:length-no-upper-bound' % parse.qualname, parse.loc(s_),
                          '`%s` is evaluated before enough bytes are known to be buffered: a partial frame is decoded' % unparse(s_), instance=inst)
    ctx.expect_min(2)


@rule('R-decode-contained', 'every decode step of a received frame runs inside a catch-all handler that disconnects and '
                            'returns no message without consuming the buffer')
def r_decode_contained(ctx):
    P = ctx.P
    C, send, parse, rbuf, wbuf = conn_parts(ctx)
    cfg = U.explorer(ctx, parse).cfg
    dec_nodes = []
    for n in cfg.nodes:
        if n.kind in ('stmt', 'cond') and n.ast is not None:
            names = [c.func.attr if isinstance(c.func, ast.Attribute) else getattr(c.func, 'id', '') for c in ast.walk(n.ast) if isinstance(c, ast.Call)]
            if any(nm in ('loads', 'decompress', 'decrypt', 'extract_timestamp') for nm in names) or isinstance(getattr(n, 'extra', None), ast.Assert):
                dec_nodes.append(n)
    ctx.require(dec_nodes, 'decode calls not found')
    # everything that works on the received payload or on what was decoded from it, up to the buffer advance, is a decode
    # step too (e.g. unpacking the (key, message) pair): names derived from the payload slice
    tainted = set()
    changed = True
    while changed:
        changed = False
        for n in cfg.nodes:
            if n.kind != 'stmt' or not isinstance(n.ast, ast.Assign):
                continue
            v = n.ast.value
            src = any(isinstance(x, ast.Subscript) and isinstance(x.slice, ast.Slice) and P.self_attr(x.value, parse.self_name) == rbuf and x.slice.lower is not None and x.slice.upper is not None
                      for x in ast.walk(v)) or any(isinstance(x, ast.Name) and x.id in tainted for x in ast.walk(v))
            if src:
                for t in n.ast.targets:
                    for x in (t.elts if isinstance(t, (ast.Tuple, ast.List)) else [t]):
                        if isinstance(x, ast.Name) and x.id not in tainted:
                            tainted.add(x.id)
                            changed = True
    for n in cfg.nodes:
        if n.kind in ('stmt', 'cond') and n.ast is not None and n not in dec_nodes and cfg.may_raise(n.ast):
            if isinstance(n.ast, ast.Return):
                continue
            uses = any(isinstance(x, ast.Name) and x.id in tainted and isinstance(x.ctx, ast.Load) for x in ast.walk(n.ast))
            is_slice_only = isinstance(n.ast, ast.Assign) and isinstance(n.ast.value, ast.Subscript) and P.self_attr(n.ast.value.value, parse.self_name) == rbuf
            # taking apart a pair the parser built itself (`frame = (length, payload)` ... `length, payload = frame`) cannot raise:
            # on every path the local equals a tuple display of as many elements as there are targets
            own_pair = False
            if isinstance(n.ast, ast.Assign) and len(n.ast.targets) == 1 and isinstance(n.ast.targets[0], (ast.Tuple, ast.List)) and isinstance(n.ast.value, ast.Name):
                fr_ = U.full_run(ctx, parse)
                want = len(n.ast.targets[0].elts)
                vt = U.explorer(ctx, parse).tb.term(n.ast.value)
                fss = fr_.facts_at(n.id)
                own_pair = bool(fss) and all(any(l[0] == 'eq' and ((l[1] == vt and isinstance(l[2].node, ast.Tuple) and len(l[2].node.elts) == want)
                                                                 or (l[2] == vt and isinstance(l[1].node, ast.Tuple) and len(l[1].node.elts) == want)) for l in fs) for fs in fss)
            if uses and not is_slice_only and not own_pair:
                dec_nodes.append(n)
    for n in dec_nodes:
        inst = 'decode step `%s` contained' % unparse(n.ast)[:50]
        ctx.tick()
        esc = [d for d, l in n.succ if isinstance(l, tuple) and l[0] == 'exc' and d == cfg.raise_exit.id]
        if esc:
            ctx.violation('%s:decode-error-escapes' % parse.qualname, parse.loc(n.ast),
                          'an exception from `%s` can leave the parser and the event loop (a corrupt frame kills the tick instead of closing the connection)' % unparse(n.ast)[:60],
                          instance=inst)
        else:
            ctx.ok(inst, parse.loc(n.ast), 'all exception edges lead to a handler')
    # the handler: disconnects, returns None, does not advance the buffer
    for hn in [n for n in cfg.nodes if n.kind == 'handler']:
        reach = cfg.reachable_from(hn.id, follow_exc=False)
        disc = [i for i in reach if cfg.nodes[i].kind == 'stmt' and any(isinstance(c, ast.Call) and isinstance(c.func, ast.Attribute) and c.func.attr == 'disconnect' for c in ast.walk(cfg.nodes[i].ast))]
        rets = [cfg.nodes[i] for i in reach if cfg.nodes[i].kind == 'stmt' and isinstance(cfg.nodes[i].ast, ast.Return)]
        adv = [i for i in reach if cfg.nodes[i].kind == 'stmt' and isinstance(cfg.nodes[i].ast, ast.Assign) and P.self_attr(cfg.nodes[i].ast.targets[0], parse.self_name) == rbuf]
        inst = 'decode failure: disconnect, no message, buffer not advanced'
        ctx.tick()
        no_disc_path = cfg.exit.id in cfg.reachable_from(hn.id, avoid=disc, follow_exc=False)
        ret_none = rets and all(r.ast.value is None or (isinstance(r.ast.value, ast.Constant) and r.ast.value.value is None) for r in rets)
        falls = any(not isinstance(cfg.nodes[i].ast, ast.Return) and cfg.exit.id in [d for d, l in cfg.nodes[i].succ] for i in reach if cfg.nodes[i].kind == 'stmt')
        if not no_disc_path and ret_none and not adv:
            ctx.ok(inst, parse.loc(hn.ast), '')
        else:
            ctx.violation('%s:decode-failure-handling' % parse.qualname, parse.loc(hn.ast),
                          'after a decode error the parser %s' % ('does not disconnect on every path' if no_disc_path else ('advances the buffer' if adv else 'does not return "no message"')),
                          instance=inst)
    ctx.expect_min(3)


@rule('R-consume-once', 'every delivered frame advances the read buffer by header + length exactly once, after the decode; the '
                        'delivery loop stops when the connection was closed by a callback')
def r_consume_once(ctx):
    P = ctx.P
    C, send, parse, rbuf, wbuf = conn_parts(ctx)
    ex = U.explorer(ctx, parse)
    cfg = ex.cfg
    fmt = [c.args[0].value for c in P.calls_in(parse) if isinstance(c.func, ast.Attribute) and c.func.attr == 'unpack'][0]
    H = struct.calcsize(fmt)

    def ev(n):
        if n.kind == 'stmt' and isinstance(n.ast, ast.Assign) and P.self_attr(n.ast.targets[0], parse.self_name) == rbuf:
            return ['advance']
        if n.kind == 'stmt' and n.ast is not None and any(isinstance(c, ast.Call) and isinstance(c.func, ast.Attribute) and c.func.attr == 'loads' for c in ast.walk(n.ast)):
            return ['decode']
        if n.kind == 'stmt' and isinstance(n.ast, ast.Return) and n.ast.value is not None and not (isinstance(n.ast.value, ast.Constant) and n.ast.value.value is None):
            return ['deliver']
        return []
    res = ex.run(track=ev, follow_exc=True)
    n_del = 0
    bad = None
    for fs, cnt in res.cstates.get(cfg.exit.id, ()):
        d = dict(cnt)
        ctx.tick()
        if d.get('deliver'):
            n_del += 1
            if d.get('advance', 0) != 1 or d.get('decode', 0) < 1:
                bad = d
        else:
            if d.get('advance', 0) != 0:
                bad = d
    inst = 'delivered frame consumed exactly once'
    if bad is not None:
        ctx.violation('%s:buffer-advance-count' % parse.qualname, parse.loc(),
                      'a path of the parser %s' % ('delivers a message with %d buffer advances' % bad.get('advance', 0) if bad.get('deliver') else 'advances the buffer without delivering a message'),
                      instance=inst)
    else:
        ctx.require(n_del >= 1, 'parser never delivers')
        ctx.ok(inst, parse.loc(), '%d delivering path classes, each with one decode and one advance; non-delivering paths leave the buffer alone' % n_del)
    # the advance is by header + length
    inst = 'advance is header + length'
    ctx.tick()
    adv = [n for n in ast.walk(parse.node) if isinstance(n, ast.Assign) and P.self_attr(n.targets[0], parse.self_name) == rbuf]
    lvar = None
    for n in ast.walk(parse.node):
        if isinstance(n, ast.Assign) and isinstance(n.targets[0], ast.Name) and any(isinstance(c, ast.Call) and isinstance(c.func, ast.Attribute) and c.func.attr == 'unpack' for c in ast.walk(n.value)):
            lvar = n.targets[0].id
    okv = False
    fres = U.full_run(ctx, parse)
    want_end = ex.tb.term(U.parse_expr('%s + %d' % (lvar, H))) if lvar else None
    if lvar and adv and isinstance(adv[0].value, ast.Subscript) and isinstance(adv[0].value.slice, ast.Slice) and adv[0].value.slice.upper is None and adv[0].value.slice.lower is not None \
            and P.self_attr(adv[0].value.value, parse.self_name) == rbuf:
        # decided on facts, so that `end = H + l ... buffer[end:]` is the same advance
        okv, _ = U.must(ctx, fres, U.node_containing(cfg, adv[0]).id, ('eq', ex.tb.term(adv[0].value.slice.lower), want_end))
    if okv:
        ctx.ok(inst, parse.loc(adv[0]), 'buffer = buffer[%d + %s:]' % (H, lvar))
    else:
        ctx.violation('%s:buffer-advance-amount' % parse.qualname, parse.loc(adv[0]) if adv else parse.loc(), 'the buffer is not advanced by exactly header + length', instance=inst)
    # the payload slice starts after the header and has exactly `length` bytes
    inst = 'payload slice is buffer[header:header + length]'
    ctx.tick()
    pl = [s for s in ast.walk(parse.node) if isinstance(s, ast.Subscript) and isinstance(s.slice, ast.Slice) and P.self_attr(s.value, parse.self_name) == rbuf
          and s.slice.lower is not None and s.slice.upper is not None]
    okp = False
    if pl and lvar:
        pn_ = U.node_containing(cfg, pl[0])
        ok_lo, _ = U.must(ctx, fres, pn_.id, ('eq', ex.tb.term(pl[0].slice.lower), ex.tb.term(ast.Constant(value=H))))
        ok_up, _ = U.must(ctx, fres, pn_.id, ('eq', ex.tb.term(pl[0].slice.upper), want_end))
        okp = ok_lo and ok_up
    if okp:
        ctx.ok(inst, parse.loc(pl[0]), unparse(pl[0]))
    else:
        ctx.violation('%s:payload-slice' % parse.qualname, parse.loc(pl[0]) if pl else parse.loc(), 'the payload is not taken as buffer[%d:%d + length]' % (H, H), instance=inst)
    # delivery loop: after each callback the connection state is re-checked
    for m in P.methods_of(C):
        calls = [c for c in P.calls_in(m) if parse in P.resolve_call(m, c).targets]
        if not calls:
            continue
        mcfg = U.explorer(ctx, m).cfg
        # the parse call that is repeated (a primed loop has one more call in front of the loop)
        in_loop = [c for c in calls if any(isinstance(p, ast.While) for p in U.node_containing(mcfg, c).parents)]
        pn = U.node_containing(mcfg, (in_loop or calls)[0])
        loops = [p for p in pn.parents if isinstance(p, ast.While)]
        inst = 'delivery loop re-checks the connection state after each message'
        ctx.tick()
        if not loops:
            ctx.violation('%s:no-delivery-loop' % m.qualname, m.loc(calls[0]), 'buffered frames are not delivered in a loop (merged reads deliver only one message)', instance=inst)
            continue
        lp = loops[-1]
        # the loop ends when the parser reports "no complete frame" (None) -- decided by identity: a decoded message may be falsy
        mvars = set()
        for c_ in calls:
            cn_ = U.node_containing(mcfg, c_)
            if cn_ is not None and isinstance(cn_.ast, ast.Assign) and isinstance(cn_.ast.targets[0], ast.Name):
                mvars.add(cn_.ast.targets[0].id)
        inst_e = 'end of buffered frames decided by `is None`, not by truthiness'
        ctx.tick()
        truthy = [n for n in mcfg.nodes if n.kind == 'cond' and (any(p is lp for p in n.parents) or n.extra is lp)
                  and (isinstance(n.ast, ast.Name) and n.ast.id in mvars)]
        if truthy:
            ctx.violation('%s:end-of-buffer-by-truthiness' % m.qualname, m.loc(truthy[0].ast),
                          'the delivery loop treats a falsy decoded message (0, \'\', [], {}, False) like "no complete frame": the frame is consumed but never delivered, and the '
                          'frames buffered behind it wait for the next read', instance=inst_e)
        elif mvars:
            ctx.ok(inst_e, m.loc(lp), 'no truthiness test of %s in the loop' % sorted(mvars))
        cbs = [n for n in mcfg.nodes if n.kind == 'stmt' and any(p is lp for p in n.parents) and any(isinstance(c, ast.Call) and P.self_attr(c.func, m.self_name) == _msg_callback_attr(P, C) for c in ast.walk(n.ast))]
        checks = [n.id for n in mcfg.nodes if n.kind == 'cond' and any(p is lp for p in n.parents) and 'DISCONNECTED' in unparse(n.ast)]
        head = [n for n in mcfg.nodes if n.ast is lp and n.kind == 'loop'][0]
        if cbs and checks and head.id not in mcfg.reachable_from(cbs[0].id, avoid=checks + [], follow_exc=False) - {cbs[0].id} or (cbs and checks and not _reaches_without(mcfg, cbs[0].id, head.id, checks)):
            ctx.ok(inst, m.loc(cbs[0].ast), '')
        else:
            ctx.violation('%s:delivery-after-disconnect' % m.qualname, m.loc(lp), 'after a message callback closed the connection the loop keeps parsing the (cleared) buffer', instance=inst)
    ctx.expect_min(4)


def _msg_callback_attr(P, C):
    """the attribute holding the message callback: the one the public setter setOnMessageReceivedCallback assigns"""
    st = C.methods.get('setOnMessageReceivedCallback')
    if st is None:
        raise AnalysisError('TcpConnection.setOnMessageReceivedCallback gone')
    for n in ast.walk(st.node):
        if isinstance(n, ast.Assign):
            a = P.self_attr(n.targets[0], st.self_name)
            if a:
                return a
    raise AnalysisError('setOnMessageReceivedCallback assigns no attribute')


def _reaches_without(cfg, start, target, avoid):
    succ = [d for d, l in cfg.nodes[start].succ if not (isinstance(l, tuple) and l[0] == 'exc')]
    r = set()
    for s in succ:
        r |= cfg.reachable_from(s, avoid=avoid, follow_exc=False)
    return target in r


@rule('R-parser-state', 'the frame parser keeps no state besides the read buffer (and the timestamp of the encrypted mode); '
                        'reading only appends to the buffer')
def r_parser_state(ctx):
    P = ctx.P
    C, send, parse, rbuf, wbuf = conn_parts(ctx)
    disc = C.methods.get('disconnect')
    own = set()
    for a in P.accesses(parse, include_nested=False):
        if a.kind in ('write', 'aug', 'elem_write', 'del', 'mutcall'):
            own.add(a.attr)
    allowed = {rbuf, 'recvLastTimestamp'} | P.inert_attrs(C)       # counters nothing reads do not influence what is delivered
    inst = 'parser footprint'
    ctx.tick()
    if own <= allowed:
        ctx.ok(inst, parse.loc(), 'direct writes %s (+ disconnect() on the failure path)' % sorted(own))
    else:
        ctx.violation('%s:parser-keeps-extra-state-%s' % (parse.qualname, '+'.join(sorted(own - allowed))), parse.loc(),
                      'the parser writes %s: what it delivers then depends on how the byte stream was fragmented' % sorted(own - allowed), instance=inst)
    # writers of the read buffer
    for m in P.methods_of(C):
        for a in P.accesses(m, include_nested=False):
            if a.attr != rbuf or a.kind not in ('write', 'aug'):
                continue
            st = a.node
            inst = '%s: `%s`' % (m.qualname, unparse(st)[:60])
            ctx.tick()
            if m is parse:
                continue
            if a.kind == 'aug' and isinstance(st.op, ast.Add):
                ctx.ok(inst, m.loc(st), 'append of received bytes')
            elif a.kind == 'write' and isinstance(st.value, ast.Call) and unparse(st.value.func) == 'bytes' and not st.value.args:
                ctx.ok(inst, m.loc(st), 'reset to empty (init / connect / disconnect)', nontrivial=False)
            else:
                ctx.violation('%s:read-buffer-rewritten' % m.qualname, m.loc(st), 'the read buffer is rewritten outside the parser: `%s`' % unparse(st), instance=inst)
    ctx.expect_min(2)


@rule('R-write-fifo', 'send appends a whole frame to the write buffer; the sender removes exactly the prefix the socket '
                      'reported as sent; EAGAIN keeps the buffer')
def r_write_fifo(ctx):
    P = ctx.P
    C, send, parse, rbuf, wbuf = conn_parts(ctx)
    n_w = 0
    for m in P.methods_of(C):
        for a in P.accesses(m, include_nested=False):
            if a.attr != wbuf or a.kind not in ('write', 'aug'):
                continue
            st = a.node
            inst = '%s: `%s`' % (m.qualname, unparse(st)[:70])
            n_w += 1
            ctx.tick()
            if a.kind == 'aug' and isinstance(st.op, ast.Add):
                if m is send:
                    ctx.ok(inst, m.loc(st), 'frame appended at the end')
                else:
                    ctx.violation('%s:write-buffer-appended-elsewhere' % m.qualname, m.loc(st), 'bytes are appended to the write buffer outside send()', instance=inst)
            elif a.kind == 'write' and isinstance(st.value, ast.Call) and unparse(st.value.func) == 'bytes' and not st.value.args:
                ctx.ok(inst, m.loc(st), 'reset to empty (init / connect / disconnect)', nontrivial=False)
            elif a.kind == 'write' and isinstance(st.value, ast.Subscript) and isinstance(st.value.slice, ast.Slice) and st.value.slice.upper is None \
                    and isinstance(st.value.slice.lower, ast.Name) and P.self_attr(st.value.value, m.self_name) == wbuf:
                # res must be the return value of socket.send(<write buffer>)
                rv = st.value.slice.lower.id
                defs = [d for d in U.walk_no_nested(m.node) if isinstance(d, ast.Assign) and isinstance(d.targets[0], ast.Name) and d.targets[0].id == rv]
                okd = len(defs) == 1 and isinstance(defs[0].value, ast.Call) and isinstance(defs[0].value.func, ast.Attribute) and defs[0].value.func.attr == 'send' \
                    and defs[0].value.args and P.self_attr(defs[0].value.args[0], m.self_name) == wbuf
                if okd:
                    ctx.ok(inst, m.loc(st), 'prefix reported sent by socket.send(write buffer) removed')
                    # ... and removed whenever the socket took something: leaving the function with a positive count and
                    # the buffer untouched sends those bytes a second time
                    inst2 = '%s: a positive send count always trims the buffer' % m.qualname
                    ex = U.explorer(ctx, m)
                    cfg = ex.cfg
                    sn_ = U.node_containing(cfg, defs[0])
                    tn_ = U.node_containing(cfg, st)
                    starts = [d for d, l in sn_.succ if not (isinstance(l, tuple) and l[0] == 'exc')]
                    bad = None
                    nonpos = U.goal(ex, '%s <= 0' % rv)
                    for s0 in starts:
                        r_ = ex.run(start=s0, avoid=[tn_.id], follow_exc=False)
                        for fs in r_.facts_at(cfg.exit.id):
                            ctx.tick()
                            if not oracle.entails(fs, nonpos):
                                bad = (r_, fs)
                    if bad is not None:
                        ctx.violation('%s:sent-prefix-kept' % m.qualname, m.loc(defs[0]),
                                      'after `%s` the function can return with %s > 0 and the write buffer unchanged: the bytes the socket already took are sent again '
                                      '(a frame is corrupted or delivered twice): %s' % (unparse(defs[0]), rv, bad[0].path_str(cfg.exit.id, bad[1])), instance=inst2)
                    else:
                        ctx.ok(inst2, m.loc(defs[0]), 'every exit that skips the trim entails %s <= 0' % rv)
                else:
                    ctx.violation('%s:write-buffer-prefix' % m.qualname, m.loc(st), 'the removed prefix `%s` is not the byte count returned by socket.send(write buffer)' % rv, instance=inst)
            else:
                ctx.violation('%s:write-buffer-rewritten' % m.qualname, m.loc(st), 'unexpected rewrite of the write buffer: `%s`' % unparse(st), instance=inst)
    # socket errors: EAGAIN / EWOULDBLOCK keep the connection, anything else disconnects
    for m in P.methods_of(C):
        for n in ast.walk(m.node):
            if not isinstance(n, ast.Try):
                continue
            io = [c for c in ast.walk(ast.Module(body=n.body, type_ignores=[])) if isinstance(c, ast.Call) and isinstance(c.func, ast.Attribute) and c.func.attr in ('send', 'recv')
                  and P.self_attr(c.func.value, m.self_name) == conn_attrs(ctx)[0]]
            if not io:
                continue
            for hd in n.handlers:
                inst = '%s: socket error handling around %s()' % (m.qualname, io[0].func.attr)
                ctx.tick()
                tests = [x for x in ast.walk(hd) if isinstance(x, ast.If) and isinstance(x.test, ast.Compare) and 'errno' in unparse(x.test.left)]
                okh = False
                if tests:
                    t = tests[0]
                    names = set(x.attr for x in ast.walk(t.test.comparators[0]) if isinstance(x, ast.Attribute))
                    disc = any(isinstance(c, ast.Call) and isinstance(c.func, ast.Attribute) and c.func.attr == 'disconnect' for s_ in t.body for c in ast.walk(s_))
                    okh = isinstance(t.test.ops[0], ast.NotIn) and {'EAGAIN', 'EWOULDBLOCK'} <= names and disc
                if okh:
                    ctx.ok(inst, m.loc(hd), 'disconnect only when errno not in (EAGAIN, EWOULDBLOCK)')
                else:
                    ctx.violation('%s:socket-error-handling' % m.qualname, m.loc(hd),
                                  'a socket error is not handled as "EAGAIN/EWOULDBLOCK: keep the buffer and retry; anything else: disconnect"', instance=inst)
    # EAGAIN keeps the buffer: in the handler of socket.error the buffer is not written unless disconnecting
    ctx.require(n_w >= 3, 'write buffer writers not found')
    ctx.expect_min(3)


@rule('R-length-symmetry', 'the receiver rejects a frame length only for reasons the sender rules out: besides "negative", every bound '
                           'the parser puts on the received length is enforced by send() on the length it writes')
def r_length_symmetry(ctx):
    P = ctx.P
    C, send, parse, rbuf, wbuf = conn_parts(ctx)
    ex = U.explorer(ctx, parse)
    cfg = ex.cfg
    lvar = None
    for n in ast.walk(parse.node):
        if isinstance(n, ast.Assign) and isinstance(n.targets[0], ast.Name) and any(isinstance(c, ast.Call) and isinstance(c.func, ast.Attribute) and c.func.attr == 'unpack' for c in ast.walk(n.value)):
            lvar = n.targets[0].id
    ctx.require(lvar, 'length variable not found')
    disc = [n.id for n in cfg.nodes if n.kind == 'stmt' and n.ast is not None and any(isinstance(c, ast.Call) and isinstance(c.func, ast.Attribute) and c.func.attr == 'disconnect' for c in ast.walk(n.ast))]
    n_b = 0
    for n in cfg.nodes:
        if n.kind != 'cond' or not isinstance(n.ast, ast.Compare) or len(n.ast.ops) != 1:
            continue
        l, r = n.ast.left, n.ast.comparators[0]
        if not ((isinstance(l, ast.Name) and l.id == lvar) or (isinstance(r, ast.Name) and r.id == lvar)):
            continue
        other = r if isinstance(l, ast.Name) and l.id == lvar else l
        # does an edge of this test lead straight to a disconnect?
        rejects = False
        for d, lab in n.succ:
            if isinstance(lab, tuple) and lab[0] == 'cond':
                nxt = cfg.nodes[d]
                if d in disc or (nxt.kind == 'stmt' and d in cfg.reachable_from(d) and any(x in disc for x in [d])):
                    rejects = True
        if not rejects:
            continue
        n_b += 1
        inst = 'receiver bound `%s`' % unparse(n.ast)
        ctx.tick()
        if isinstance(other, ast.Constant) and other.value == 0:
            ctx.ok(inst, parse.loc(n.ast), 'negative lengths cannot be produced by send()')
            continue
        if any(P.self_attr(x, parse.self_name) == rbuf for x in ast.walk(other)):
            continue        # availability test against the buffer, not a bound on valid frames
        okb = any(isinstance(c, ast.Compare) and unparse(other) in unparse(c) and 'len(' in unparse(c) for c in ast.walk(send.node))
        if okb:
            ctx.ok(inst, parse.loc(n.ast), 'send() enforces the same bound')
        else:
            ctx.violation('%s:receiver-rejects-frames-the-sender-emits' % parse.qualname, parse.loc(n.ast),
                          'the parser disconnects when `%s`, but send() writes any length: a well-formed large message is sent and can never be received, the connection '
                          'is dropped and everything behind it is lost' % unparse(n.ast), instance=inst)
    ctx.require(n_b >= 1, 'no rejection test on the received length')
    ctx.expect_min(1)


@rule('R-disconnect-idempotent', 'disconnect() clears every handle it releases (socket, poller registration), so a second call on a dead '
                                 'connection cannot release a descriptor number the OS has meanwhile given to another connection')
def r_disconnect_idempotent(ctx):
    P = ctx.P
    C, send, parse, rbuf, wbuf = conn_parts(ctx)
    d = C.methods.get('disconnect')
    ctx.require(d is not None, 'TcpConnection.disconnect gone')
    n_rel = 0
    for n in ast.walk(d.node):
        if isinstance(n, ast.If) and isinstance(n.test, ast.Compare) and isinstance(n.test.ops[0], ast.IsNot) and isinstance(n.test.comparators[0], ast.Constant) \
                and n.test.comparators[0].value is None:
            a = P.self_attr(n.test.left, d.self_name)
            if a is None:
                continue
            releases = [c for s_ in n.body for c in ast.walk(s_) if isinstance(c, ast.Call) and any(P.self_attr(x, d.self_name) == a for x in ast.walk(c))]
            if not releases:
                continue
            n_rel += 1
            inst = 'handle self.%s cleared after release' % a
            ctx.tick()
            cleared = any(isinstance(s_, ast.Assign) and P.self_attr(s_.targets[0], d.self_name) == a and isinstance(s_.value, ast.Constant) and s_.value.value is None for s_ in n.body)
            if cleared:
                ctx.ok(inst, d.loc(n), '`%s`; self.%s = None' % (unparse(releases[0])[:50], a))
            else:
                ctx.violation('TcpConnection.disconnect:handle-%s-not-cleared' % a, d.loc(n),
                              'disconnect() releases self.%s (`%s`) but keeps the stale value: a second disconnect() on this dead object releases the same descriptor number again, '
                              'which may by then belong to a healthy connection' % (a, unparse(releases[0])[:60]), instance=inst)
    ctx.require(n_rel >= 2, 'release blocks not found in disconnect()')
    # state and buffers are reset
    inst = 'disconnect resets state and buffers'
    ctx.tick()
    w = set(a.attr for a in P.accesses(d) if a.kind == 'write')
    if {rbuf, wbuf} <= w and conn_attrs(ctx)[1] in w:
        ctx.ok(inst, d.loc(), '')
    else:
        ctx.violation('TcpConnection.disconnect:state-not-reset', d.loc(), 'disconnect() does not reset buffers and state', instance=inst)
    ctx.expect_min(3)


@rule('R-read-ungated', 'reading from the socket never depends on how much is already buffered: a frame may be larger than any '
                        'fixed buffer size, and the buffer only shrinks when a whole frame has arrived')
def r_read_ungated(ctx):
    P = ctx.P
    C, send, parse, rbuf, wbuf = conn_parts(ctx)
    sock, state = conn_attrs(ctx)
    readers = [m for m in P.methods_of(C) if any(isinstance(c.func, ast.Attribute) and c.func.attr == 'recv' and P.self_attr(c.func.value, m.self_name) == sock for c in P.calls_in(m))]
    ctx.require(readers, 'no socket read (recv) in TcpConnection')
    # the read function and the methods of the class that call it (the drain loop)
    sites = []
    for m in P.methods_of(C):
        for c in P.calls_in(m):
            if (isinstance(c.func, ast.Attribute) and c.func.attr == 'recv' and P.self_attr(c.func.value, m.self_name) == sock) or any(t in readers for t in P.resolve_call(m, c).targets):
                sites.append((m, c))
    n_sites = 0
    for m, c in sites:
        cfg = U.explorer(ctx, m).cfg
        cn = U.node_containing(cfg, c)
        if cn is None:
            continue
        n_sites += 1
        inst = '%s: `%s` is not guarded by a test on the buffered amount' % (m.qualname, unparse(c)[:50])
        ctx.tick()
        gate = None
        for n in cfg.nodes:
            if n.kind != 'cond' or n is cn:
                continue
            if not any(isinstance(x, ast.Call) and isinstance(x.func, ast.Name) and x.func.id == 'len' and x.args and P.self_attr(x.args[0], m.self_name) == rbuf for x in ast.walk(n.ast)):
                continue
            tt = [d for d, l in n.succ if l == ('cond', True)]
            ff = [d for d, l in n.succ if l == ('cond', False)]
            rt = cn.id in cfg.reachable_from(tt[0], avoid=[n.id], follow_exc=False) if tt else False
            rf = cn.id in cfg.reachable_from(ff[0], avoid=[n.id], follow_exc=False) if ff else False
            if rt != rf:
                gate = n
        if gate is None:
            ctx.ok(inst, m.loc(c), 'no branch on len(self.%s) decides whether the read happens' % rbuf)
        else:
            ctx.violation('%s:read-gated-on-buffered-amount' % m.qualname, m.loc(gate.ast),
                          'the socket is read only while `%s`: once that much of an incomplete frame is buffered nothing more is read, the frame never completes and the '
                          'connection is stuck for good (any frame larger than the bound)' % unparse(gate.ast), instance=inst)
    ctx.require(n_sites >= 2, 'socket read sites not found')
    ctx.expect_min(2)
