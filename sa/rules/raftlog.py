"""Log replication / commit rules (C01, C04; shared with C02, C06, C10, C12, C17)."""
import ast
from . import rule
from .. import util as U
from ..pyir import AnalysisError, unparse
from .. import oracle
from .election import journal_positions, majority_sites

JOURNAL_OPS = ('add', 'clear', 'deleteEntriesFrom', 'deleteEntriesTo')


def journal_iface(ctx):
    j = ctx.P.cls('Journal')
    for m in JOURNAL_OPS:
        if m not in j.methods:
            raise AnalysisError('Journal interface lost method %s' % m)
    return j


def log_op_sites(ctx, op):
    """[(func, call, via)] call sites in SyncObj that invoke journal operation `op` on the log role,
    directly or through a one-statement wrapper method"""
    P, R = ctx.P, ctx.R
    journal_iface(ctx)
    direct = []
    for f in P.methods_of(R.S):
        for c in P.calls_in(f, include_nested=True):
            if isinstance(c.func, ast.Attribute) and c.func.attr == op and P.self_attr(c.func.value, f.self_name) == R.log:
                direct.append((f, c))
    out = []
    wrappers = {}
    for f, c in direct:
        callers = P.callers_of(f)
        # wrapper = small private helper whose only log operation is this one and which is called from elsewhere
        other_ops = [x for x in P.calls_in(f) if isinstance(x.func, ast.Attribute) and x.func.attr in JOURNAL_OPS
                     and P.self_attr(x.func.value, f.self_name) == R.log and x is not c]
        if callers and not other_ops and len(f.node.body) <= 6 and f.name.startswith('__') and f is not R.handler:
            wrappers[f.qualname] = f
            for g, call in callers:
                out.append((g, call, f.qualname))
        else:
            out.append((f, c, None))
    return out


# ----------------------------------------------------------------------------- apply step
@rule('R-apply-step', 'in the apply loop every path that goes on to the next entry passes exactly one `lastApplied += 1` '
                      'located after the dispatch; the batch is fetched from lastApplied+1 and bounded by the commit index')
def r_apply_step(ctx):
    P, R = ctx.P, ctx.R
    f = R.apply_step
    ex = U.explorer(ctx, f)
    cfg = ex.cfg
    loop = R.apply_loop
    heads = [n for n in cfg.nodes if n.ast is loop and n.kind in ('iter', 'loop')]
    ctx.require(heads, 'apply loop head not found in the CFG')
    head = heads[0]
    body_starts = [d for d, l in head.succ if l == 'iter'] if head.kind == 'iter' else \
        [d for d, l in head.succ]
    incs = []
    for st, kind in U.assigns_to_attr(P, f, R.lastApplied):
        if any(x is st for x in ast.walk(loop)):
            n = U.node_containing(cfg, st)
            ok_inc = U.increment_amount(P, f, st, R.lastApplied) == 1
            if not ok_inc:
                ctx.violation('%s:applied-index-step' % f.qualname, f.loc(st), 'the applied index is changed by `%s`, not advanced by one' % unparse(st),
                              instance='step is +1')
            incs.append(n)
    ctx.require(incs, 'no write of the applied index inside the apply loop')
    dispatch_nodes = U.nodes_containing(cfg, R.apply_call)
    ctx.require(dispatch_nodes, 'dispatch call not in CFG')
    dn = dispatch_nodes[0]
    inc_ids = [n.id for n in incs]
    # (a) next entry without advancing
    inst = 'next entry only after advancing the applied index'
    found = False
    for bs in body_starts:
        reach = cfg.reachable_from(bs, avoid=inc_ids + [head.id])
        # head reachable? look at predecessors of head inside reach
        feasible = None
        for p, l in head.pred:
            if p in reach:
                if feasible is None:
                    # confirm with the path-sensitive exploration: a helper that reports "stop" through its return value
                    # leaves the loop on exactly the paths that did not advance
                    try:
                        feasible = ex.run(start=bs, avoid=inc_ids, stop=[head.id]).reached(head.id)
                    except AnalysisError:
                        feasible = True
                if not feasible:
                    continue
                found = True
                pn = cfg.nodes[p]
                via_handler = None
                for q in reach:
                    if cfg.nodes[q].kind == 'handler':
                        h = cfg.nodes[q].ast
                        if p in cfg.reachable_from(q, avoid=inc_ids + [head.id]):
                            via_handler = unparse(h.type) if h.type is not None else 'bare except'
                ctx.violation('%s:next-entry-without-advance%s' % (f.qualname, ('-via-handler-' + via_handler) if via_handler else ''),
                              f.loc(pn.ast) if pn.ast is not None else f.loc(),
                              'the loop goes on with the next entry without advancing the applied index%s'
                              % (' (through the `except %s` handler)' % via_handler if via_handler else ''), instance=inst)
                break
        ctx.tick()
    if not found:
        ctx.ok(inst, f.loc(loop), 'loop head unreachable from the body start once the increments are removed (exception edges included)')
    # (b) at most one increment per iteration
    inst = 'at most one advance per entry'
    dbl = False
    for n in incs:
        succs = [d for d, l in n.succ]
        r = set()
        for s_ in succs:
            r |= cfg.reachable_from(s_, avoid=[head.id])
        if any(i in r for i in inc_ids):
            dbl = True
            ctx.violation('%s:double-advance' % f.qualname, f.loc(n.ast), 'two advances of the applied index on one iteration path', instance=inst)
    ctx.tick()
    if not dbl:
        ctx.ok(inst, f.loc(loop), '%d increment site(s), none reaches another within one iteration' % len(incs))
    # (c) advance only after the dispatch
    inst = 'advance only after the entry was dispatched'
    bad = False
    for bs in body_starts:
        reach = cfg.reachable_from(bs, avoid=[dn.id, head.id])
        if any(i in reach for i in inc_ids):
            bad = True
            ctx.violation('%s:advance-without-dispatch' % f.qualname, f.loc(incs[0].ast),
                          'the applied index advances on a path that did not execute the entry', instance=inst)
    ctx.tick()
    if not bad:
        ctx.ok(inst, f.loc(R.apply_call), 'increment unreachable within an iteration when the dispatch node is removed')
    # (d) the batch: fetched from lastApplied + 1, count bounded by commit - lastApplied, guarded by commit > lastApplied
    res = U.full_run(ctx, f)
    inst = 'batch starts at lastApplied+1 and ends at the commit index'
    it = loop.iter if isinstance(loop, ast.For) else None
    fetch = None
    if isinstance(it, ast.Name):
        for n in U.walk_no_nested(f.node):
            if isinstance(n, ast.Assign) and any(isinstance(t, ast.Name) and t.id == it.id for t in n.targets) and isinstance(n.value, ast.Call):
                fetch = n
    elif isinstance(it, ast.Call):
        fetch = ast.Assign(targets=[], value=it)
    if fetch is None or len(fetch.value.args) < 2:
        ctx.unproven(inst, f.loc(loop), 'the iterated batch is not produced by a two-argument fetch call')
    else:
        a0 = ex.tb.term(fetch.value.args[0])
        la = ex.tb.term(U.parse_expr('self.%s' % R.lastApplied))
        fn = U.node_containing(cfg, fetch.value)
        problems = []
        if not (a0.base is not None and a0.base.key == la.key and a0.off == 1):
            problems.append('first fetched index is `%s`, not lastApplied + 1' % a0.key)
        cnt = ex.tb.term(fetch.value.args[1])
        g = ('eq', cnt, ex.tb.term(U.parse_expr('self.%s - self.%s' % (R.commitIndex, R.lastApplied))))
        ok, cex = U.must(ctx, res, fn.id, g)
        if not ok:
            problems.append('the number of fetched entries `%s` is not commitIndex - lastApplied on every path' % cnt.key)
        ok2, cex2 = U.must(ctx, res, fn.id, U.goal(ex, 'self.%s > self.%s' % (R.commitIndex, R.lastApplied)))
        if not ok2:
            problems.append('the fetch is not guarded by commitIndex > lastApplied')
        if problems:
            ctx.violation('%s:batch-bounds' % f.qualname, f.loc(fetch.value), '; '.join(problems), instance=inst)
        else:
            ctx.ok(inst, f.loc(fetch.value), 'fetch(lastApplied + 1, commitIndex - lastApplied) under commitIndex > lastApplied')
    ctx.expect_min(4)


# ----------------------------------------------------------------------------- follower region helpers
def ae_region(ctx):
    cache = ctx.P.__dict__.setdefault('_ae_region', None)
    if cache is not None:
        return cache
    P, R = ctx.P, ctx.R
    ex, res, entry = U.region_run(ctx, 'append_entries')
    msg = R.handler_msg_param
    idx_pos, term_pos = journal_positions(P)
    # the lookup of the entry at prevLogIdx: a side-effect free call reading the log whose argument aliases message['prevLogIdx']
    h = R.handler
    lookup = None
    prev_idx_t = ex.tb.term(U.parse_expr("%s['prevLogIdx']" % msg))
    for n in ex.cfg.nodes:
        if n.kind != 'stmt' or not res.reached(n.id):
            continue
        for c in [x for x in ast.walk(n.ast) if isinstance(x, ast.Call)]:
            t = ex.tb.term(c)
            if t.volatile or ('A:' + R.log) not in t.deps or not c.args:
                continue
            a0 = ex.tb.term(c.args[0])
            if all(oracle.entails(fs, ('eq', a0, prev_idx_t)) for fs in res.facts_at(n.id)):
                lookup = (n, c, t)
    info = {'ex': ex, 'res': res, 'entry': entry, 'lookup': lookup, 'idx_pos': idx_pos, 'term_pos': term_pos, 'msg': msg}
    if lookup is not None:
        n, c, t = lookup
        gate = ('and', ('truthy', t, True),
                ('eq', _sub(ex, t, 0, term_pos), ex.tb.term(U.parse_expr("%s['prevLogTerm']" % msg))))
        info['gate'] = gate
        gate_nodes = []
        for nid in res.states:
            if all(oracle.entails(fs, gate) for fs in res.facts_at(nid)):
                gate_nodes.append(nid)
        info['gate_nodes'] = gate_nodes
    ctx.P.__dict__['_ae_region'] = info
    return info


def _sub(ex, t, i, j):
    from ..facts import Term, const_term
    a = Term('%s[%d]' % (t.key, i), t.deps, t.volatile, shape='%s[%s]', sub=(t, const_term(i)))
    return Term('%s[%d]' % (a.key, j), a.deps, a.volatile, shape='%s[%s]', sub=(a, const_term(j)))


def install_nodes(ctx, ex):
    """CFG nodes of the handler that call the dump loader with clearJournal=True (completed snapshot install)"""
    P, R = ctx.P, ctx.R
    out = []
    for n in ex.cfg.nodes:
        if n.kind != 'stmt':
            continue
        for c in [x for x in ast.walk(n.ast) if isinstance(x, ast.Call)]:
            r = P.resolve_call(R.handler, c)
            if r.kind == 'method' and any(_is_loader(ctx, t) for t in r.targets):
                kw = dict((k.arg, k.value) for k in c.keywords)
                pname = [t for t in r.targets if _is_loader(ctx, t)][0].params[1:2]
                v = kw.get(pname[0] if pname else None, c.args[0] if c.args else None)
                if isinstance(v, ast.Constant) and v.value is True:
                    out.append(n)
    return out


def _is_loader(ctx, func):
    """the dump loader: calls serializer.deserialize()"""
    P, R = ctx.P, ctx.R
    for c in P.calls_in(func):
        if isinstance(c.func, ast.Attribute) and c.func.attr == 'deserialize' and P.self_attr(c.func.value, func.self_name) == R.serializer:
            return True
    return False


def loader_func(ctx):
    for f in ctx.P.methods_of(ctx.R.S):
        if _is_loader(ctx, f):
            return f
    raise AnalysisError('dump loader (caller of serializer.deserialize) not found')


@rule('R-append-gate', 'entries of an append_entries message are stored only after the log-matching test succeeded '
                       '(an entry exists at prevLogIdx and its term equals prevLogTerm)')
def r_append_gate(ctx):
    P, R = ctx.P, ctx.R
    info = ae_region(ctx)
    ex, res = info['ex'], info['res']
    h = R.handler
    adds = [(f, c, via) for f, c, via in log_op_sites(ctx, 'add') if f is h]
    adds = [(f, c, via) for f, c, via in adds if any(res.reached(n.id) for n in U.nodes_containing(ex.cfg, c))]
    ctx.require(adds, 'the append_entries region stores nothing in the log')
    if info['lookup'] is None:
        for f, c, via in adds:
            ctx.violation('%s:append-without-lookup' % h.qualname, h.loc(c),
                          'entries are stored but the region never looks up the entry at message[prevLogIdx]', instance='append gate')
        return
    res_avoid = ex.run(start=info['entry'], init=frozenset(), avoid=info['gate_nodes'])
    for f, c, via in adds:
        inst = 'log.add of received entries behind the log-matching gate'
        bad = False
        for n in U.nodes_containing(ex.cfg, c):
            if res_avoid.reached(n.id):
                bad = True
                fs = res_avoid.facts_at(n.id)[0]
                ctx.violation('%s:append-without-gate' % h.qualname, h.loc(c),
                              'received entries are stored on a path that did not establish `entry exists at prevLogIdx and its term == prevLogTerm`: %s'
                              % res_avoid.path_str(n.id, fs), instance=inst)
        ctx.tick()
        if not bad:
            ctx.ok(inst, h.loc(c), 'unreachable from the region entry when the %d nodes on which the gate facts hold are removed' % len(info['gate_nodes']))
    # nothing of an append_entries message from a stale term takes effect: every store / truncation / commit write /
    # leader-pointer write of the region is under message.term >= currentTerm
    msg = info['msg']
    gterm = U.goal(ex, "%s['term'] >= self.%s" % (msg, R.currentTerm))
    effects = []
    for f, c, via in adds:
        effects.append((c, 'store of received entries'))
    for f, c, via in log_op_sites(ctx, 'deleteEntriesFrom'):
        if f is h:
            effects.append((c, 'log truncation'))
    for st, k in U.assigns_to_attr(P, h, R.commitIndex):
        effects.append((st, 'commit index write'))
    for st, k in U.assigns_to_attr(P, h, R.leaderPtr):
        if not (isinstance(st.value, ast.Constant) and st.value.value is None):
            effects.append((st, 'leader pointer write'))
    bad = None
    n_eff = 0
    for node_ast, what in effects:
        for n in U.nodes_containing(ex.cfg, node_ast):
            if not res.reached(n.id):
                continue
            n_eff += 1
            ok, cex = U.must(ctx, res, n.id, gterm)
            if not ok and bad is None:
                bad = (node_ast, what, n, cex)
    inst = 'append_entries of a stale term has no effect'
    if bad is not None:
        node_ast, what, n, cex = bad
        ctx.violation('%s:stale-term-append-entries-accepted' % h.qualname, h.loc(node_ast),
                      'the %s happens on a path where the message term is not known to be >= the current term: a deposed leader can still overwrite the log / move the commit index: %s'
                      % (what, res.path_str(n.id, cex)), instance=inst)
    else:
        ctx.ok(inst, h.loc(adds[0][1]), '%d effect sites of the region are all under message.term >= currentTerm' % n_eff)
    ctx.expect_min(2)


@rule('R-commit-gate', 'the follower raises its commit index only on paths that passed the log-matching gate or a '
                       'completed snapshot install, never above the index this message verified, and never lowers it')
def r_commit_gate(ctx):
    P, R = ctx.P, ctx.R
    info = ae_region(ctx)
    ex, res = info['ex'], info['res']
    h = R.handler
    cfg = ex.cfg
    writes = [(st, k) for st, k in U.assigns_to_attr(P, h, R.commitIndex)]
    writes = [(st, k) for st, k in writes if res.reached(U.node_containing(cfg, st).id)]
    ctx.require(writes, 'the append_entries region never writes the commit index')
    oblig = list(info.get('gate_nodes', [])) + [n.id for n in install_nodes(ctx, ex)]
    res_avoid = ex.run(start=info['entry'], init=frozenset(), avoid=oblig)
    for st, k in writes:
        n = U.node_containing(cfg, st)
        inst = 'commit index write `%s` behind gate/install' % unparse(st)
        ctx.tick()
        if res_avoid.reached(n.id):
            fs = res_avoid.facts_at(n.id)[0]
            ctx.violation('%s:commit-without-verified-log' % h.qualname, h.loc(st),
                          'the commit index is raised on a path that neither passed the log-matching test nor completed a snapshot install: %s'
                          % res_avoid.path_str(n.id, fs),
                          witness={'path': res_avoid.path_str(n.id, fs), 'facts': U.facts_str(fs, 30)}, instance=inst)
        else:
            ctx.ok(inst, h.loc(st), 'write unreachable once the gate-established nodes and the install call are removed (infeasible flag paths pruned)')
        # monotone: new value > old on all paths
        if k == 'assign':
            g = ('lt', ex.tb.term(U.parse_expr('self.%s' % R.commitIndex)), ex.tb.term(st.value))
            ok, cex = U.must(ctx, res, n.id, g)
            inst2 = 'commit index write `%s` only raises the index' % unparse(st)
            if ok:
                ctx.ok(inst2, h.loc(st), 'new value > old value entailed by the guard')
            else:
                ctx.unproven(inst2, h.loc(st), 'monotonicity not entailed syntactically (depends on a run-time invariant); informational')
            # bounded by leader commit
            g2 = ('le', ex.tb.term(st.value), ex.tb.term(U.parse_expr("%s['commit_index']" % info['msg'])))
            ok2, cex2 = U.must(ctx, res, n.id, g2)
            inst3 = 'commit index write `%s` bounded by the leader commit index' % unparse(st)
            if ok2 or _is_min_with(st.value, ex, res, n, "%s['commit_index']" % info['msg']):
                ctx.ok(inst3, h.loc(st), 'value is min(leader commit, ...) or entailed <= leader commit')
            else:
                ctx.violation('%s:commit-above-leader-commit' % h.qualname, h.loc(st),
                              'the follower commit index is set to `%s`, not bounded by the leader\'s commit index' % unparse(st.value), instance=inst3)
            # ... and never past the index this message verified: a local that is non-None only behind the gate / install
            all_fs = res.facts_at(n.id)
            cands = set()
            for l in (all_fs[0] if all_fs else ()):
                if l[0] == 'none' and not l[2] and l[1].key.isidentifier() and all(l in f2 for f2 in all_fs):
                    cands.add(l[1].key)
            for fs in all_fs[:1]:
                for L in sorted(cands):
                    if True:
                        defs = [d for d in U.walk_no_nested(h.node) if isinstance(d, ast.Assign) and any(isinstance(t, ast.Name) and t.id == L for t in d.targets)
                                and not (isinstance(d.value, ast.Constant) and d.value.value is None)]
                        if not defs or any(res_avoid.reached(U.node_containing(cfg, d).id) for d in defs):
                            continue
                        # the bound itself: outside the snapshot-install path it comes from the message, never from the follower's own log end
                        inst_src = 'verified index `%s` is derived from the message' % L
                        inst_nodes = [x.id for x in install_nodes(ctx, ex)]
                        bad_src = None
                        for d in defs:
                            dn = U.node_containing(cfg, d)
                            if dn is None or not res.reached(dn.id):
                                continue
                            if inst_nodes and dn.id not in cfg.reachable_from(info['entry'], avoid=inst_nodes):
                                continue        # only reachable through a completed snapshot install: the log was just replaced by the snapshot
                            dt = ex.tb.term(d.value)
                            ctx.tick()
                            if any(_alias_dep(f2, dt, 'A:' + R.log) for f2 in res.facts_at(dn.id)):
                                bad_src = d
                        if bad_src is not None:
                            ctx.violation('%s:verified-index-from-own-log' % h.qualname, h.loc(bad_src),
                                          '`%s`: the index up to which this append_entries is taken to have verified the log is computed from the follower\'s own log, which may '
                                          'extend beyond what the message carried: a stale suffix is then committed and executed' % unparse(bad_src), instance=inst_src)
                        else:
                            ctx.ok(inst_src, h.loc(defs[0]), '%d definition(s) outside the install path, none depends on self.%s' % (len(defs), R.log))
                        inst4 = 'commit index write `%s` bounded by the verified index `%s`' % (unparse(st), L)
                        lt_ = ex.tb.term(ast.Name(id=L, ctx=ast.Load()))
                        okb = _is_min_with(st.value, ex, res, n, L) or all(oracle.entails(f2, ('le', ex.tb.term(st.value), lt_)) for f2 in res.facts_at(n.id))
                        ctx.tick()
                        if okb:
                            ctx.ok(inst4, h.loc(st), 'value is min(.., %s) / entailed <= %s' % (L, L))
                        else:
                            ctx.violation('%s:commit-past-verified-index' % h.qualname, h.loc(st),
                                          'the follower commit index is set to `%s`, which is not bounded by `%s` (the last index this message proved to match the leader): '
                                          'entries of a stale suffix beyond it can be committed and executed' % (unparse(st.value), L), instance=inst4)
    ctx.expect_min(2)


def _is_min_with(value, ex, res, n, src):
    """value is min(a, b, ..) with one argument aliasing `src` on all paths"""
    if isinstance(value, ast.Call) and isinstance(value.func, ast.Name) and value.func.id == 'min':
        t = ex.tb.term(U.parse_expr(src))
        for a in value.args:
            at = ex.tb.term(a)
            if all(oracle.entails(fs, ('eq', at, t)) for fs in res.facts_at(n.id)):
                return True
    return False


@rule('R-log-owners', 'who may shorten the log: suffix truncation only in the append_entries region behind the gate; '
                      'clear only in the dump loader; head drop only after the serializer reported SUCCESS or in the '
                      'loader when the journal provably contains the dump position')
def r_log_owners(ctx):
    P, R = ctx.P, ctx.R
    info = ae_region(ctx)
    ex, res = info['ex'], info['res']
    h = R.handler
    loader = loader_func(ctx)
    # suffix truncation
    sites = log_op_sites(ctx, 'deleteEntriesFrom')
    ctx.require(sites, 'no suffix truncation site (role vanished)')
    res_avoid = ex.run(start=info['entry'], init=frozenset(), avoid=info.get('gate_nodes', []))
    for f, c, via in sites:
        inst = 'suffix truncation in %s' % f.qualname
        if f is not h:
            ctx.violation('%s:truncates-log' % f.qualname, f.loc(c), 'the log suffix is deleted outside the append_entries handler', instance=inst)
            continue
        ns = U.nodes_containing(ex.cfg, c)
        if not any(res.reached(n.id) for n in ns):
            ctx.violation('%s:truncates-log-outside-append-entries' % f.qualname, f.loc(c),
                          'the log suffix is deleted outside the append_entries region', instance=inst)
            continue
        if any(res_avoid.reached(n.id) for n in ns):
            ctx.violation('%s:truncates-log-without-gate' % f.qualname, f.loc(c),
                          'the log suffix is deleted on a path that did not pass the log-matching test', instance=inst)
        else:
            ctx.ok(inst, f.loc(c), 'inside the append_entries region, behind the gate')
        ctx.tick()
    # clear
    for f, c, via in log_op_sites(ctx, 'clear'):
        inst = 'log clear in %s' % f.qualname
        ctx.tick()
        if f is loader:
            ctx.ok(inst, f.loc(c), 'inside the dump loader')
        else:
            ctx.violation('%s:clears-log' % f.qualname, f.loc(c), 'the log is cleared outside the dump loader', instance=inst)
    # head drop
    ser_state_cls = 'SERIALIZER_STATE'
    for f, c, via in log_op_sites(ctx, 'deleteEntriesTo'):
        inst = 'log head drop in %s' % f.qualname
        fex = U.explorer(ctx, f)
        fres = U.full_run(ctx, f)
        n = U.node_containing(fex.cfg, c)
        ok = False
        why = ''
        # (a) under fact <state> == SERIALIZER_STATE.SUCCESS where state comes from serializer.checkSerializing()
        for fs in fres.facts_at(n.id):
            pass
        succ = all(any(l[0] == 'eq' and ('SERIALIZER_STATE.SUCCESS' in (l[1].key, l[2].key)) for l in fs) for fs in fres.facts_at(n.id)) \
            and bool(fres.facts_at(n.id))
        if succ:
            ok = True
            why = 'under must-fact serializer state == SUCCESS'
            # ... and only up to the position that dump covers: the id reported together with SUCCESS
            idv = None
            for d in U.walk_no_nested(f.node):
                if isinstance(d, ast.Assign) and isinstance(d.targets[0], (ast.Tuple, ast.List)) and len(d.targets[0].elts) == 2 and isinstance(d.value, ast.Call) \
                        and isinstance(d.value.func, ast.Attribute) and d.value.func.attr == 'checkSerializing' and isinstance(d.targets[0].elts[1], ast.Name):
                    idv = d.targets[0].elts[1].id
            inst_id = 'head drop in %s goes up to the position the finished dump covers' % f.qualname
            ctx.tick()
            if idv is None or not c.args:
                ctx.unproven(inst_id, f.loc(c), 'the id reported by checkSerializing() is not unpacked into a local')
            elif all(oracle.entails(fs, ('eq', fex.tb.term(c.args[0]), fex.tb.term(ast.Name(id=idv, ctx=ast.Load())))) for fs in fres.facts_at(n.id)):
                ctx.ok(inst_id, f.loc(c), 'argument is the id `%s` returned with SUCCESS' % idv)
            else:
                ctx.violation('%s:head-drop-not-at-dump-position' % f.qualname, f.loc(c),
                              'the log head is dropped up to `%s`, not up to the id `%s` the serializer reported with SUCCESS: entries applied while the dump was being written are '
                              'cut from the journal although no dump contains them (lost on restart)' % (unparse(c.args[0]), idv), instance=inst_id)
        elif f is loader:
            # (b) journal proven to contain the dump entries: an equality between a slice of the log and a list of dump entries
            def has_contain_fact(fs):
                for l in fs:
                    if l[0] == 'eq':
                        ks = (l[1], l[2])
                        if any(('A:' + R.log) in t.deps and ':' in t.key for t in ks) and any(t.key.startswith('[') for t in ks):
                            return True
                return False
            if fres.facts_at(n.id) and all(has_contain_fact(fs) for fs in fres.facts_at(n.id)):
                ok = True
                why = 'loader: journal slice equals the dump entries on every path'
        ctx.tick()
        if ok:
            ctx.ok(inst, f.loc(c), why)
        else:
            ctx.violation('%s:drops-log-head' % f.qualname, f.loc(c),
                          'the head of the log is dropped without a SUCCESS report of the serializer (entries not in any dump may be lost)', instance=inst)
    ctx.expect_min(3)


# ----------------------------------------------------------------------------- leader commit rule
@rule('R-commit-rule', 'the leader advances its commit index only to an index stored by a strict majority of voters '
                       '(matchIndex[v] >= idx, +self) whose entry has the current term; the candidate index only grows')
def r_commit_rule(ctx):
    P, R = ctx.P, ctx.R
    f = R.tick
    ex = U.explorer(ctx, f)
    cfg = ex.cfg
    res = U.full_run(ctx, f)
    idx_pos, term_pos = journal_positions(P)
    writes = U.assigns_to_attr(P, f, R.commitIndex)
    ctx.require(writes, 'the tick never writes the commit index (leader commit rule gone)')
    cached_thresholds = set(c_._cached[0] for f_, c_, a_, cnt_, th_, lc_ in majority_sites(ctx) if getattr(c_, '_cached', None) and a_ == R.voters)
    for st, kind in writes:
        n = U.node_containing(cfg, st)
        inst = 'leader commit write `%s`' % unparse(st)
        # under state == LEADER
        ok, cex = U.must(ctx, res, n.id, U.goal(ex, 'self.%s == %s.LEADER' % (R.raftState, R.state_class)))
        if not ok:
            ctx.violation('%s:commit-write-not-leader' % f.qualname, f.loc(st), 'commit index written in the tick outside the LEADER block', instance=inst)
            continue
        v = st.value
        if not isinstance(v, ast.Name):
            ctx.unproven(inst, f.loc(st), 'value is not a local candidate variable')
            continue
        # all assignments of the candidate variable
        def _stepped(name):
            # a local that is advanced in place (`idx += 1`, a loop variable) is a running index, not a holder of a result
            for x in U.walk_no_nested(f.node):
                if isinstance(x, ast.AugAssign) and isinstance(x.target, ast.Name) and x.target.id == name:
                    return True
                if isinstance(x, ast.Assign) and len(x.targets) == 1 and isinstance(x.targets[0], ast.Name) and x.targets[0].id == name and isinstance(x.value, ast.BinOp) \
                        and any(isinstance(y, ast.Name) and y.id == name for y in (x.value.left, x.value.right)):
                    return True         # x = x + 1
                if isinstance(x, ast.For) and any(isinstance(t, ast.Name) and t.id == name for t in ast.walk(x.target)):
                    return True
            return False

        def cand_defs(name, seen=()):
            # a pure copy of another local (`result = found`, e.g. the value a helper hands back) is looked through
            out = []
            for d in U.walk_no_nested(f.node):
                if isinstance(d, ast.Assign) and any(isinstance(t, ast.Name) and t.id == name for t in d.targets):
                    if isinstance(d.value, ast.Name) and d.value.id not in seen and d.value.id != name and not P.self_attr(d.value, f.self_name) \
                            and (P._is_local(f, d.value.id) or d.value.id in f.params) and not _stepped(d.value.id):
                        sub = cand_defs(d.value.id, seen + (name,))
                        if sub:
                            out += sub
                            continue
                    out.append(d)
            return out
        defs = cand_defs(v.id)
        allok = True
        n_checked = 0
        for d in defs:
            dn = U.node_containing(cfg, d)
            dv = ex.tb.term(d.value)
            if dv.key == 'self.' + R.commitIndex:
                continue          # initial value = old commit index
            n_checked += 1
            # must-facts: majority literal over len(voters), and entry term == currentTerm
            for fs in res.facts_at(dn.id):
                ctx.tick()
                if oracle.entails(fs, ('eq', dv, ex.tb.term(U.parse_expr('self.%s' % R.commitIndex)))):
                    continue          # on this path the value is the old commit index (initialisation through a local copy)
                lenkey = 'len(self.%s)' % R.voters

                def mentions_len(t, fs=fs, depth=0):
                    # directly, or through a local the threshold was hoisted into (`half = (len(voters) + 1) / 2`), or through
                    # an attribute that caches it (R-majority demands that such an attribute follows the voter set)
                    if lenkey in t.key or any(('self.' + a_) in t.key for a_ in cached_thresholds):
                        return True
                    if depth > 2:
                        return False
                    for l2 in fs:
                        if l2[0] == 'eq':
                            for a_, b_ in ((l2[1], l2[2]), (l2[2], l2[1])):
                                if a_ == t and a_.key != b_.key and mentions_len(b_, fs, depth + 1):
                                    return True
                    return False
                maj = [l for l in fs if l[0] in ('lt', 'le') and any(mentions_len(t) for t in (l[1], l[2]))]
                if not maj:
                    allok = False
                    ctx.violation('%s:commit-without-majority' % f.qualname, f.loc(d),
                                  'the commit candidate `%s` is accepted on a path without a passed majority test: %s' % (unparse(d), res.path_str(dn.id, fs)),
                                  instance=inst + ' [majority]')
                    break
                # term test: exists eq literal between currentTerm and a term equal to <log read>[0][term_pos]
                cur = ex.tb.term(U.parse_expr('self.%s' % R.currentTerm))
                term_ok = False
                for l in fs:
                    if l[0] == 'eq' and cur in (l[1], l[2]):
                        other = l[2] if l[1] == cur else l[1]
                        if _derives_from_log_term(fs, other, R, term_pos, dv):
                            term_ok = True
                if not term_ok:
                    allok = False
                    ctx.violation('%s:commit-without-current-term' % f.qualname, f.loc(d),
                                  'the commit candidate `%s` is accepted without testing that its entry carries the current term '
                                  '(an entry of an older term must not be committed by counting replicas): %s' % (unparse(d), res.path_str(dn.id, fs)),
                                  instance=inst + ' [current term]')
                    break
        if allok and n_checked:
            ctx.ok(inst, f.loc(st), 'candidate accepted only behind majority test and entry-term == currentTerm (%d defining site(s))' % n_checked)
        elif not n_checked:
            ctx.unproven(inst, f.loc(st), 'no accepting assignment of the candidate found')
    # the written value never lies below the old commit index: every definition chain starts at the commit index and only adds
    def only_grows(name, seen=()):
        if name in seen:
            return True
        defs = [d for d in U.walk_no_nested(f.node) if (isinstance(d, ast.Assign) and any(isinstance(t, ast.Name) and t.id == name for t in d.targets))
                or (isinstance(d, ast.AugAssign) and isinstance(d.target, ast.Name) and d.target.id == name)]
        # a loop variable ranging upwards from a growing start: `for c in range(<commit index> + k, ...)`
        loops = [l for l in U.walk_no_nested(f.node) if isinstance(l, ast.For) and isinstance(l.target, ast.Name) and l.target.id == name]
        for l in loops:
            it = l.iter
            if not (isinstance(it, ast.Call) and isinstance(it.func, ast.Name) and it.func.id in ('range', 'xrange') and 2 <= len(it.args) <= 3):
                return False
            if len(it.args) == 3 and not (isinstance(it.args[2], ast.Constant) and isinstance(it.args[2].value, int) and it.args[2].value > 0):
                return False
            start = it.args[0]
            if isinstance(start, ast.BinOp) and isinstance(start.op, ast.Add) and isinstance(start.right, ast.Constant) and isinstance(start.right.value, int) \
                    and start.right.value >= 0:
                start = start.left
            if P.self_attr(start, f.self_name) == R.commitIndex:
                continue
            if isinstance(start, ast.Name) and only_grows(start.id, seen + (name,)):
                continue
            return False
        if not defs and not loops:
            return False
        for d in defs:
            if isinstance(d, ast.AugAssign):
                if not (isinstance(d.op, ast.Add) and isinstance(d.value, ast.Constant) and isinstance(d.value.value, int) and d.value.value >= 0):
                    return False
            elif P.self_attr(d.value, f.self_name) == R.commitIndex:
                continue
            elif isinstance(d.value, ast.Name) and only_grows(d.value.id, seen + (name,)):
                continue
            elif isinstance(d.value, ast.BinOp) and isinstance(d.value.op, ast.Add) and any(
                    isinstance(a_, ast.Name) and a_.id == name and isinstance(b_, ast.Constant) and isinstance(b_.value, int) and b_.value >= 0
                    for a_, b_ in ((d.value.left, d.value.right), (d.value.right, d.value.left))):
                continue          # x = x + 1
            else:
                return False
        return True
    for st, kind in writes:
        if isinstance(st.value, ast.Name):
            inst = 'leader commit write `%s` never lowers the commit index' % unparse(st)
            ctx.tick()
            if only_grows(st.value.id):
                ctx.ok(inst, f.loc(st), 'every definition chain of `%s` starts at the commit index and only adds non-negative constants' % st.value.id)
            else:
                ctx.violation('%s:leader-commit-may-decrease' % f.qualname, f.loc(st), 'the value written to the commit index (`%s`) is not derived from the old commit index by increments only: '
                              'the commit index can move backwards' % st.value.id, instance=inst)
    # counting condition compares matchIndex[v] >= candidate
    from .election import _counter_info
    for mf, cmpn, a, counter, th, lc in majority_sites(ctx):
        if mf is not f or not isinstance(counter, ast.Name):
            continue
        info = _counter_info(ctx, f, counter, cmpn)
        if info is None:
            continue
        cond = info[4].get('cond')
        if cond is None:
            continue
        var = info[4].get('var')
        varnames = set(x.id for x in ast.walk(var) if isinstance(x, ast.Name)) if var is not None else set()
        it = info[4].get('iter')
        iter_is_match = it is not None and any(P.self_attr(x, f.self_name) == R.matchIndex for x in ast.walk(it))

        def is_match_term(e):
            if isinstance(e, ast.Subscript) and P.self_attr(e.value, f.self_name) == R.matchIndex:
                return True
            return iter_is_match and isinstance(e, ast.Name) and e.id in varnames
        if not any(is_match_term(x) for x in ast.walk(cond)):
            continue
        inst = 'replica counted when `%s`' % unparse(cond)
        ctx.tick()
        okc = False
        if isinstance(cond, ast.Compare) and len(cond.ops) == 1:
            l, r, op = cond.left, cond.comparators[0], cond.ops[0]
            l_is_match = is_match_term(l)
            if (l_is_match and isinstance(op, (ast.GtE, ast.Gt))) or (not l_is_match and isinstance(op, (ast.LtE, ast.Lt))):
                okc = True
        if okc:
            ctx.ok(inst, f.loc(cond), 'a replica counts only if its matchIndex reaches the candidate')
        else:
            ctx.violation('%s:replica-count-condition' % f.qualname, f.loc(cond),
                          'a voter is counted towards the commit quorum under `%s`, which does not require matchIndex >= candidate' % unparse(cond), instance=inst)
    ctx.expect_min(2)


def _derives_from_log_term(fs, t, R, term_pos, cand):
    """t is (an alias of) <log lookup>[0][term_pos]"""
    seen = set()
    todo = [t]
    while todo:
        x = todo.pop()
        if x.key in seen:
            continue
        seen.add(x.key)
        if x.key.endswith('[%d]' % term_pos) and (('A:' + R.log) in x.deps or _alias_dep(fs, x, 'A:' + R.log)):
            # ... of the entry AT the candidate index: the lookup depends on the candidate (directly or through a local that
            # holds `lookup(candidate)`), not e.g. on the last entry of the log
            csyms = set(d for d in cand.deps if d.startswith('L:'))
            if not csyms or (csyms & x.deps) or any(_alias_dep(fs, x, cs) for cs in csyms):
                return True
        for l in fs:
            if l[0] == 'eq':
                if l[1] == x:
                    todo.append(l[2])
                elif l[2] == x:
                    todo.append(l[1])
    return False


def _alias_dep(fs, t, sym, depth=0, loops=None):
    """does t depend on sym through local aliases recorded as equality facts -- or, when `loops` = (term builder,
    util.loop_sources(func)) is given, through being an element of a collection that does?"""
    if sym in t.deps:
        return True
    if depth > 4:
        return False
    for d in t.deps:
        if d.startswith('L:'):
            name = d[2:]
            for l in fs:
                if l[0] == 'eq':
                    for a, b in ((l[1], l[2]), (l[2], l[1])):
                        if a.key == name and _alias_dep(fs, b, sym, depth + 1, loops):
                            return True
            if loops is not None:
                tb, srcs = loops
                for e in srcs.get(name, ()):
                    if _alias_dep(fs, tb.term(e), sym, depth + 1, loops):
                        return True
    return False


# ----------------------------------------------------------------------------- matchIndex writes
@rule('R-match-writes', 'matchIndex[n] is reset to 0 or raised to (acknowledged next index - 1) only for a successful '
                        'reply, only upwards, only while leader')
def r_match_writes(ctx):
    P, R = ctx.P, ctx.R
    msg = R.handler_msg_param
    for f in P.methods_of(R.S):
        if f.name == '__init__':
            continue
        for a in P.accesses(f):
            if a.attr != R.matchIndex or a.kind != 'elem_write':
                continue
            st = a.node
            inst = '%s: `%s`' % (f.qualname, unparse(st))
            if isinstance(st, ast.Assign) and isinstance(st.value, ast.Constant) and st.value.value == 0:
                ctx.ok(inst, f.loc(st), 'reset to 0', nontrivial=False)
                continue
            if f is not R.handler:
                ctx.violation('%s:matchIndex-write' % f.qualname, f.loc(st), 'matchIndex raised outside the reply handler', instance=inst)
                continue
            ex = U.explorer(ctx, f)
            res = U.full_run(ctx, f)
            n = U.node_containing(ex.cfg, st)
            tgt = ex.tb.term(st.targets[0])
            val = ex.tb.term(st.value)
            goals = [
                ('success reply', U.goal(ex, "%s['success']" % msg)),
                ('leader', U.goal(ex, 'self.%s == %s.LEADER' % (R.raftState, R.state_class))),
                ('reply type', U.goal(ex, "%s['type'] == 'next_node_idx'" % msg)),
                ('only upwards', ('lt', tgt, val)),
                ('value is acked next index - 1', ('le', val, ex.tb.term(U.parse_expr("%s['next_node_idx'] - 1" % msg)))),
            ]
            allok = True
            for nm, g in goals:
                ok, cex = U.must(ctx, res, n.id, g)
                if not ok:
                    allok = False
                    ctx.violation('%s:matchIndex-raise-without-%s' % (f.qualname, nm.replace(' ', '-')), f.loc(st),
                                  'matchIndex is raised on a path where "%s" is not established: %s' % (nm, res.path_str(n.id, cex)), instance=inst + ' [' + nm + ']')
            if allok:
                ctx.ok(inst, f.loc(st), 'success ∧ leader ∧ next_node_idx reply ∧ old < new ∧ new <= next_node_idx-1 entailed')
    # on becoming leader every per-node index is re-initialised by assignment (no value survives from an earlier leadership)
    from .election import become_leader_func
    bl = become_leader_func(ctx)
    if bl:
        b = bl[0]
        bcfg = U.explorer(ctx, b).cfg
        for attr, what in ((R.matchIndex, 'matchIndex := 0'), (R.nextIndex, 'nextIndex := last index + 1')):
            inst = 'new leader resets %s for every voter and read-only node' % what.split()[0]
            ctx.tick()
            ws = [a_ for a_ in P.accesses(b) if a_.attr == attr and a_.kind == 'elem_write' and isinstance(a_.node, ast.Assign)]
            ok_loop = False
            for a_ in ws:
                n_ = U.node_containing(bcfg, a_.node)
                loops = [p_ for p_ in n_.parents if isinstance(p_, ast.For)]
                over_all = any(set(P.self_attr(x, b.self_name) for x in ast.walk(lp.iter)) >= {R.voters, R.observers} for lp in loops)
                val_ok = (isinstance(a_.node.value, ast.Constant) and a_.node.value.value == 0) if attr == R.matchIndex else True
                if over_all and val_ok:
                    ok_loop = True
            if ok_loop:
                ctx.ok(inst, b.loc(ws[0].node), what + ' assigned in a loop over voters | read-only nodes')
            else:
                ctx.violation('%s:%s-not-reset-on-election' % (b.qualname, attr), b.loc(),
                              'on becoming leader self.%s is not re-assigned for every node (%s): a value from an earlier leadership survives and is counted towards the commit quorum '
                              'for entries the follower never received' % (attr, what), instance=inst)
    ctx.expect_min(3)


# ----------------------------------------------------------------------------- acks
def ack_sender(ctx):
    """the function sending `next_node_idx` messages; returns (func, dict literal)"""
    for f, c, d, t, tgt in U.all_send_sites(ctx):
        if t == 'next_node_idx':
            return f, d
    raise AnalysisError('nobody sends next_node_idx messages')


def ack_calls(ctx):
    """[(call, success value ast, reset value ast, nextNodeIdx ast or None)] of ack sends in the handler"""
    P, R = ctx.P, ctx.R
    sender, d = ack_sender(ctx)
    out = []
    h = R.handler
    if sender is h:
        for c, dd, t, tgt in U.send_sites(ctx, h):
            if t == 'next_node_idx':
                out.append((c, U.dict_get(dd, 'success'), U.dict_get(dd, 'reset'), U.dict_get(dd, 'next_node_idx')))
        return out
    # wrapper: map dict values that are parameter names to call arguments / defaults
    a = sender.node.args
    pnames = [x.arg for x in a.args]
    defaults = dict(zip(pnames[len(pnames) - len(a.defaults):], a.defaults))

    def argval(call, key):
        v = U.dict_get(d, key)
        if isinstance(v, ast.Name) and v.id in pnames:
            for k in call.keywords:
                if k.arg == v.id:
                    return k.value
            pos = pnames.index(v.id) - 1
            if 0 <= pos < len(call.args):
                return call.args[pos]
            return defaults.get(v.id)
        return v
    for f, call in P.callers_of(sender):
        if f is h:
            out.append((call, argval(call, 'success'), argval(call, 'reset'), argval(call, 'next_node_idx')))
    return out


@rule('R-ack-after-store', 'a positive acknowledgement is sent only after the gate and after the received entries were '
                           'stored (or after a completed snapshot install); its index is prevLogIdx+1 / last stored+1 / '
                           'own log end+1; chunk acknowledgements are negative')
def r_ack_after_store(ctx):
    P, R = ctx.P, ctx.R
    info = ae_region(ctx)
    ex, res = info['ex'], info['res']
    h = R.handler
    cfg = ex.cfg
    acks = ack_calls(ctx)
    ctx.require(acks, 'the handler sends no acknowledgements')
    inst_nodes = [n.id for n in install_nodes(ctx, ex)]
    res_avoid = ex.run(start=info['entry'], init=frozenset(), avoid=list(info.get('gate_nodes', [])) + inst_nodes)
    add_sites = [c for f, c, via in log_op_sites(ctx, 'add') if f is h]
    add_nodes = []
    for c in add_sites:
        add_nodes += [n.id for n in U.nodes_containing(cfg, c)]
    idx_pos = info['idx_pos']
    msg = info['msg']
    for call, succ, reset, nxt in acks:
        ns = U.nodes_containing(cfg, call)
        if not any(res.reached(n.id) for n in ns):
            continue
        n = ns[0]
        positive = isinstance(succ, ast.Constant) and succ.value is True
        if not isinstance(succ, ast.Constant):
            ctx.unproven('ack `%s`' % unparse(call), h.loc(call), 'success flag is not a constant')
            continue
        if not positive:
            ctx.ok('negative ack `%s`' % unparse(call)[:60], h.loc(call), 'success=False', nontrivial=False)
            continue
        inst = 'positive ack `%s`' % unparse(call)[:70]
        ctx.tick()
        if res_avoid.reached(n.id):
            fs = res_avoid.facts_at(n.id)[0]
            ctx.violation('%s:positive-ack-without-gate' % h.qualname, h.loc(call),
                          'success=True is sent on a path that neither passed the log-matching test nor completed an install: %s'
                          % res_avoid.path_str(n.id, fs), instance=inst)
            continue
        # which branch? dominated by install -> fine; otherwise the store loop must be passed
        if inst_nodes and n.id not in cfg.reachable_from(info['entry'], avoid=inst_nodes):
            ctx.ok(inst, h.loc(call), 'after the completed snapshot install')
            continue
        # entries branch: the add loop head dominates the ack (the loop may run zero times for a heartbeat)
        loops = []
        for an in add_nodes:
            for p in cfg.nodes[an].parents:
                if isinstance(p, ast.For):
                    loops += [m.id for m in cfg.nodes if m.ast is p and m.kind == 'iter']
        if loops and n.id not in cfg.reachable_from(info['entry'], avoid=loops):
            # value of next index
            okv, why = _ack_value_ok(ctx, ex, res, n, nxt, info)
            if okv is True:
                ctx.ok(inst, h.loc(call), 'behind gate and store loop; ' + why)
            elif okv is None:
                ctx.unproven(inst, h.loc(call), why)
            else:
                ctx.violation('%s:positive-ack-index' % h.qualname, h.loc(call), why, instance=inst)
        else:
            ctx.violation('%s:positive-ack-before-store' % h.qualname, h.loc(call),
                          'success=True can be sent without passing the loop that stores the received entries', instance=inst)
    # chunk acknowledgements
    for call, succ, reset, nxt in acks:
        for n in U.nodes_containing(cfg, call):
            for fs in res.facts_at(n.id):
                chunk = [l for l in fs if l[0] == 'eq' and any(t.const is not None and t.const[0] in ('start', 'process') for t in (l[1], l[2]))]
                if chunk and isinstance(succ, ast.Constant) and succ.value is True:
                    ctx.violation('%s:chunk-ack-positive' % h.qualname, h.loc(call),
                                  'an intermediate chunk is acknowledged with success=True', instance='chunk acks negative')
    ctx.expect_min(3)


def _ack_value_ok(ctx, ex, res, n, nxt, info):
    """recognised forms of the acknowledged next index"""
    R = ctx.R
    msg = info['msg']
    if nxt is None or (isinstance(nxt, ast.Constant) and nxt.value is None):
        return True, 'index = own log end + 1 (default)'
    t = ex.tb.term(nxt)
    prev = ex.tb.term(U.parse_expr("%s['prevLogIdx'] + 1" % msg))
    verdicts = []
    for fs in res.facts_at(n.id):
        ctx.tick()
        if oracle.entails(fs, ('eq', t, prev)):
            verdicts.append('prevLogIdx + 1')
            continue
        # alias of <received entries>[-1][idx_pos] + 1
        found = False
        for l in fs:
            if l[0] == 'eq' and t in (l[1], l[2]):
                other = l[2] if l[1] == t else l[1]
                if other.base is not None and other.off == 1 and other.base.key.endswith('[-1][%d]' % info['idx_pos']):
                    found = True
                if other.base is not None and other.off >= 2:
                    return False, 'acknowledged index `%s` is more than one past the last stored entry' % other.key
                if ('self.' + R.commitIndex) in other.key or 'commit_index' in other.key:
                    return False, 'acknowledged index derives from a commit index (`%s`), not from what was stored' % other.key
        if found:
            verdicts.append('last received index + 1')
        else:
            return None, 'acknowledged index `%s` is not one of the recognised forms on path %s' % (t.key, res.path_str(n.id, fs))
    return True, 'index ∈ {%s}' % ', '.join(sorted(set(verdicts)))


# ----------------------------------------------------------------------------- truncation on conflict
@rule('R-truncate-on-conflict', 'the follower truncates its log only when a stored entry conflicts with a received one '
                                '(a disequality between a value read from the log and the received entries holds at the call)')
def r_truncate_on_conflict(ctx):
    P, R = ctx.P, ctx.R
    info = ae_region(ctx)
    ex, res = info['ex'], info['res']
    h = R.handler
    sites = [(f, c, via) for f, c, via in log_op_sites(ctx, 'deleteEntriesFrom') if f is h]
    ctx.require(sites, 'no suffix truncation in the handler')
    logsym = 'A:' + R.log
    lsrc = (ex.tb, U.loop_sources(h))
    for f, c, via in sites:
        inst = 'truncation `%s` only on conflict' % unparse(c)
        for n in U.nodes_containing(ex.cfg, c):
            states = res.facts_at(n.id)
            bad = None
            for fs in states:
                ctx.tick()
                conflict = False
                for l in fs:
                    if l[0] != 'ne':
                        continue
                    a, b = l[1], l[2]
                    da = _alias_dep(fs, a, logsym, loops=lsrc)
                    db = _alias_dep(fs, b, logsym, loops=lsrc)
                    if da != db and a.const is None and b.const is None:
                        conflict = True
                if not conflict:
                    bad = fs
                    break
            if bad is not None:
                ctx.violation('%s:truncate-without-conflict' % h.qualname, h.loc(c),
                              'the log suffix is deleted on a path where no stored entry was found to differ from a received one '
                              '(a duplicated or late append_entries then removes acknowledged entries): %s' % res.path_str(n.id, bad),
                              witness={'facts': U.facts_str(bad, 30)}, instance=inst)
            elif states:
                ctx.ok(inst, h.loc(c), 'a stored-vs-received disequality holds on all %d path classes' % len(states))
        # the cut starts at the FIRST conflicting position: a position found by an ascending scan is not overwritten by a
        # later hit (entries between the first and the last conflict would be kept although they differ from the leader's)
        names = set(x.id for a_ in c.args for x in ast.walk(a_) if isinstance(x, ast.Name))
        for loop in [l for l in U.walk_no_nested(h.node) if isinstance(l, ast.For)]:
            it = loop.iter
            asc = isinstance(it, ast.Call) and isinstance(it.func, ast.Name) and it.func.id in ('range', 'xrange', 'enumerate') and \
                not (it.func.id != 'enumerate' and len(it.args) == 3)
            if not asc:
                continue
            for d in ast.walk(loop):
                if isinstance(d, ast.Assign) and len(d.targets) == 1 and isinstance(d.targets[0], ast.Name) and d.targets[0].id in names \
                        and any(isinstance(x, ast.Name) and x.id in set(y.id for y in ast.walk(loop.target) if isinstance(y, ast.Name)) for x in ast.walk(d.value)):
                    dn = U.node_containing(ex.cfg, d)
                    if dn is None or not res.reached(dn.id):
                        continue
                    inst2 = 'the cut position `%s` is the first conflict of the scan' % d.targets[0].id
                    ctx.tick()
                    succ = [s_ for s_, l_ in dn.succ if not (isinstance(l_, tuple) and l_[0] == 'exc')]
                    again = any(dn.id in ex.cfg.reachable_from(s_, follow_exc=False) for s_ in succ)
                    if again:
                        try:
                            again = False
                            for fs_ in res.facts_at(dn.id)[:6]:
                                r_ = ex.run(start=dn.id, init=frozenset(fs_), stop=[dn.id], follow_exc=False, track=lambda m, _d=dn.id: ('hit',) if m.id == _d else ())
                                if any(dict(cnt_).get('hit', 0) >= 1 for fs2, cnt_ in r_.cstates.get(dn.id, ())):
                                    again = True
                        except AnalysisError:
                            again = True
                    if again:
                        ctx.violation('%s:cut-at-last-conflict' % h.qualname, h.loc(d),
                                      'the scan goes on after `%s` and overwrites the position with a later conflict: the suffix is cut from the last differing position, stored entries '
                                      'between the first and the last conflict are kept although the leader has other entries there' % unparse(d), instance=inst2)
                    else:
                        ctx.ok(inst2, h.loc(d), 'the scan cannot assign the position twice')
    ctx.expect_min(1)


@rule('R-leader-append-position', 'a leader appends only at (own last index + 1, current term); on becoming leader it appends a '
                                  'no-op of its own term and remembers its index')
def r_leader_append_position(ctx):
    P, R = ctx.P, ctx.R
    idx_pos, term_pos = journal_positions(P)
    sites = [(f, c) for f, c, via in log_op_sites(ctx, 'add') if f is not R.handler and f.name != '__init__' and f.owner_cls is R.S]
    from .storage import loader_func as _lf
    loader = loader_func(ctx)
    sites = [(f, c) for f, c in sites if f is not loader]
    ctx.require(sites, 'no leader-side append site')
    for f, c in sites:
        ex = U.explorer(ctx, f)
        res = U.full_run(ctx, f)
        n = U.node_containing(ex.cfg, c)
        inst = '%s: `%s` appends at the end of the log in the current term' % (f.qualname, unparse(c)[:60])
        if len(c.args) != 3:
            ctx.unproven(inst, f.loc(c), 'append is not add(command, idx, term)')
            continue
        want_i = ex.tb.term(U.parse_expr('self.%s[-1][%d] + 1' % (R.log, idx_pos)))
        want_t = ex.tb.term(U.parse_expr('self.%s' % R.currentTerm))
        g = ('and', ('eq', ex.tb.term(c.args[1]), want_i), ('eq', ex.tb.term(c.args[2]), want_t))
        ok, cex = U.must(ctx, res, n.id, g)
        if ok:
            ctx.ok(inst, f.loc(c), 'idx == last index + 1 and term == currentTerm entailed')
        else:
            ctx.violation('%s:leader-append-position' % f.qualname, f.loc(c),
                          'the leader appends `%s` at a position / term that is not (last index + 1, currentTerm) on every path: %s' % (unparse(c), res.path_str(n.id, cex)), instance=inst)
    # no-op on becoming leader
    from .election import become_leader_func
    bl = become_leader_func(ctx)
    if bl:
        b = bl[0]
        noops = [c for f, c in sites if f is b and c.args and any(isinstance(x, ast.Attribute) and x.attr == 'NO_OP' for x in ast.walk(U.deref(P, b, c.args[0])))]
        inst = 'new leader appends a no-op of its own term'
        ctx.tick()
        if noops:
            # its index is remembered (used by the membership gate)
            rec = [n for n in ast.walk(b.node) if isinstance(n, ast.Assign) and P.self_attr(n.targets[0], b.self_name) and unparse(n.value) == unparse(noops[0].args[1])]
            if rec:
                ctx.ok(inst, b.loc(noops[0]), 'index remembered in self.%s' % P.self_attr(rec[0].targets[0], b.self_name))
            else:
                ctx.violation('%s:noop-index-not-recorded' % b.qualname, b.loc(noops[0]), 'the index of the new leader\'s no-op entry is not recorded (the membership gate compares against it)', instance=inst)
        else:
            ctx.violation('%s:no-noop-on-election' % b.qualname, b.loc(), 'a new leader does not append a no-op entry of its own term: entries of earlier terms are never committed '
                          '(the commit rule only counts current-term entries) and the membership gate never opens', instance=inst)
    ctx.expect_min(2)


@rule('R-sender-prev-adjacent', 'append_entries carries as prevLogIdx / prevLogTerm the index and term of the entry right '
                                'before the first entry it sends (next index - 1)')
def r_sender_prev_adjacent(ctx):
    P, R = ctx.P, ctx.R
    from .raftmisc import sender_func
    idx_pos, term_pos = journal_positions(P)
    f = sender_func(ctx)
    ex = U.explorer(ctx, f)
    res = U.full_run(ctx, f)
    n_sites = 0
    for c, d, t, tgt in U.send_sites(ctx, f):
        if t != 'append_entries' or d is None or U.dict_get(d, 'prevLogIdx') is None:
            continue
        n_sites += 1
        pv = U.dict_get(d, 'prevLogIdx')
        pt = U.dict_get(d, 'prevLogTerm')
        inst = 'prev position of `%s` message at line %d' % ('chunked' if U.dict_get(d, 'transmission') is not None else 'entries', c.lineno)
        # the pair comes from one helper call helper(X) returning (X - 1, term of entry X - 1)
        defs = [s_ for s_ in U.walk_no_nested(f.node) if isinstance(s_, ast.Assign) and isinstance(s_.targets[0], ast.Tuple)
                and [unparse(e) for e in s_.targets[0].elts] == [unparse(pv), unparse(pt)] and isinstance(s_.value, ast.Call)]
        ctx.tick()
        if not defs:
            ctx.unproven(inst, f.loc(c), 'prevLogIdx/prevLogTerm are not produced together by one helper call')
            continue
        call = defs[-1].value
        r = P.resolve_call(f, call)
        if r.kind != 'method' or not r.targets or not call.args:
            ctx.unproven(inst, f.loc(c), 'helper not resolved')
            continue
        hlp = r.targets[0]
        hex_ = U.explorer(ctx, hlp)
        hres = U.full_run(ctx, hlp)
        param = hlp.params[1]
        okh = False
        problems = []
        for n in hex_.cfg.nodes:
            if n.kind == 'stmt' and isinstance(n.ast, ast.Return) and isinstance(n.ast.value, ast.Tuple) and len(n.ast.value.elts) == 2 \
                    and not (isinstance(n.ast.value.elts[0], ast.Constant) and n.ast.value.elts[0].value is None):
                e0, e1 = n.ast.value.elts
                want = hex_.tb.term(U.parse_expr('%s - 1' % param))
                if all(oracle.entails(fs, ('eq', hex_.tb.term(e0), want)) for fs in hres.facts_at(n.id)) and hres.facts_at(n.id):
                    okh = True
                else:
                    problems.append('helper returns `%s` as the previous index, not %s - 1' % (unparse(e0), param))
                if not unparse(e1).endswith('[%d]' % term_pos):
                    problems.append('helper returns `%s`, not the term component of the previous entry' % unparse(e1))
                    okh = False
        # the first sent entry is the one at the helper's argument
        firsts = [s_ for s_ in U.walk_no_nested(f.node) if isinstance(s_, ast.Assign) and isinstance(s_.value, ast.Call) and s_.value.args
                  and unparse(s_.value.args[0]) == unparse(call.args[0]) and s_.value is not call]
        if not firsts:
            problems.append('entries are not fetched from the index the previous position was computed for (`%s`)' % unparse(call.args[0]))
        # ... and computed for the value that index has when the message goes out: the pair still equals helper(<index>) at the
        # send (an index advanced between the computation and a later batch makes the pair stale)
        sn_ = U.node_containing(ex.cfg, c)
        want_pv = ex.tb.term(ast.Subscript(value=call, slice=ast.Constant(value=0), ctx=ast.Load()))
        if not want_pv.volatile and sn_ is not None and res.facts_at(sn_.id):
            stale = [fs for fs in res.facts_at(sn_.id) if not oracle.entails(fs, ('eq', ex.tb.term(pv), want_pv))]
            if stale:
                problems.append('on some path the message carries a previous position computed for an earlier value of `%s`: %s'
                                % (unparse(call.args[0]), res.path_str(sn_.id, stale[0])))
        if okh and not problems:
            ctx.ok(inst, f.loc(c), 'prev = %s(%s) = (%s - 1, its term); entries fetched from %s' % (hlp.name, unparse(call.args[0]), unparse(call.args[0]), unparse(call.args[0])))
        else:
            ctx.violation('%s:prev-position-not-adjacent' % f.qualname, f.loc(c), '; '.join(problems) or 'previous position is not next index - 1', instance=inst)
    ctx.require(n_sites >= 1, 'no append_entries message with prevLogIdx')
    ctx.expect_min(1)


@rule('R-applied-monotone', 'while a node runs its applied index only grows: it is incremented by the apply loop, set from a dump only '
                            'once at start-up, and a snapshot installed from the leader must not rewind it (nor discard log entries '
                            'beyond the snapshot position)')
def r_applied_monotone(ctx):
    P, R = ctx.P, ctx.R
    loader = loader_func(ctx)
    n_w = 0
    for f in P.methods_of(R.S):
        if f.name == '__init__':
            continue
        for st, kind in U.assigns_to_attr(P, f, R.lastApplied):
            n_w += 1
            inst = '%s: `%s`' % (f.qualname, unparse(st))
            if U.increment_amount(P, f, st, R.lastApplied) is not None:
                ctx.ok(inst, f.loc(st), 'increment')
                continue
            if f is not loader:
                ctx.violation('%s:applied-index-overwritten' % f.qualname, f.loc(st), 'the applied index is overwritten outside the apply loop and the dump loader', instance=inst)
                continue
            ex = U.explorer(ctx, f)
            cfg = ex.cfg
            n = U.node_containing(cfg, st)
            old = ex.tb.term(U.parse_expr('self.%s' % R.lastApplied))
            # per call site of the loader
            for g, call in P.callers_of(loader):
                kw = dict((k.arg, k.value) for k in call.keywords)
                cj = loader.params[1] if len(loader.params) > 1 else 'clearJournal'
                v = kw.get(cj, call.args[0] if call.args else None)
                install = isinstance(v, ast.Constant) and v.value is True
                site = '%s (clearJournal=%s)' % (g.qualname, unparse(v) if v is not None else '?')
                inst2 = 'applied index set from a dump, call site %s' % site
                init = [ex.tb.literal(U.parse_expr(cj), install)]
                res = ex.run(init=frozenset(init))
                grows = bool(res.facts_at(n.id)) and all(oracle.entails(fs, ('le', old, ex.tb.term(st.value))) for fs in res.facts_at(n.id))
                ctx.tick()
                if grows:
                    ctx.ok(inst2, f.loc(st), 'new value >= old value entailed')
                elif not install:
                    # start-up: executed once, before anything was applied (one-shot flag in the caller)
                    gex = U.explorer(ctx, g)
                    gres = U.full_run(ctx, g)
                    gn = U.node_containing(gex.cfg, call)
                    flags = [l for fs in gres.facts_at(gn.id) for l in fs if l[0] == 'truthy' and l[2] and l[1].key.startswith('self.')]
                    oneshot = False
                    for l in flags:
                        a = l[1].key[5:]
                        resets = [s2 for s2, k2 in U.assigns_to_attr(P, g, a) if isinstance(s2.value, ast.Constant) and s2.value.value is False]
                        sets = [s2 for h2 in P.methods_of(R.S) if h2.name != '__init__' for s2, k2 in U.assigns_to_attr(P, h2, a) if not (isinstance(s2.value, ast.Constant) and s2.value.value is False)]
                        if resets and not sets:
                            oneshot = True
                    if oneshot:
                        ctx.ok(inst2, g.loc(call), 'start-up load under a one-shot flag (nothing applied yet)')
                    else:
                        ctx.violation('%s:dump-reloaded-while-running' % g.qualname, g.loc(call), 'the dump can be loaded again while the node runs, rewinding the applied index', instance=inst2)
                else:
                    ctx.violation('%s:snapshot-install-rewinds-applied-index' % loader.qualname, f.loc(st),
                                  'a snapshot installed from the leader sets the applied index to the snapshot position and replaces the log by the two entries of the snapshot '
                                  'without comparing with what this node already applied / stored: a late or repeated snapshot of an older position rewinds the applied index and '
                                  'discards acknowledged entries beyond it (call site %s)' % site, instance=inst2)
    ctx.require(n_w >= 2, 'writes of the applied index not found')
    ctx.expect_min(2)


@rule('R-hint-floor', 'a follower that lowers the next-index hint of a failure reply below the received position keeps it '
                      'above its first stored index: a hint at (or below) the compaction base can never be matched and the '
                      'exchange repeats forever')
def r_hint_floor(ctx):
    P, R = ctx.P, ctx.R
    info = ae_region(ctx)
    ex, res = info['ex'], info['res']
    h = R.handler
    cfg = ex.cfg
    idx_pos, term_pos = journal_positions(P)
    first = ex.tb.term(U.parse_expr('self.%s[0][%d]' % (R.log, idx_pos)))
    n_replies = 0
    for call, succ, reset, nxt in ack_calls(ctx):
        if not (isinstance(succ, ast.Constant) and succ.value is False):
            continue
        cn = U.node_containing(cfg, call)
        if cn is None or not res.reached(cn.id):
            continue
        n_replies += 1
        inst = 'failure reply `%s`: hint not lowered to the first stored index' % unparse(call)[:60]
        if not isinstance(nxt, ast.Name):
            ctx.ok(inst, h.loc(call), 'hint is %s' % ('the default (own log end + 1)' if nxt is None or isinstance(nxt, ast.Constant) else '`%s`' % unparse(nxt)), nontrivial=False)
            continue
        # decrements of the hint variable inside the region
        decs = []
        for n in cfg.nodes:
            if n.kind != 'stmt' or n.ast is None or not res.reached(n.id):
                continue
            a = n.ast
            amt = None
            if isinstance(a, ast.AugAssign) and isinstance(a.op, ast.Sub) and isinstance(a.target, ast.Name) and a.target.id == nxt.id:
                amt = a.value
            elif isinstance(a, ast.Assign) and len(a.targets) == 1 and isinstance(a.targets[0], ast.Name) and a.targets[0].id == nxt.id and isinstance(a.value, ast.BinOp) \
                    and isinstance(a.value.op, ast.Sub) and isinstance(a.value.left, ast.Name) and a.value.left.id == nxt.id:
                amt = a.value.right
            if amt is not None and cn.id in cfg.reachable_from(n.id, follow_exc=False):
                decs.append((n, amt))
        if not decs:
            ctx.ok(inst, h.loc(call), 'the hint `%s` is never decreased in the region' % nxt.id)
            continue
        bad = None
        for n, amt in decs:
            ctx.tick()
            after = ex.tb.term(ast.BinOp(left=ast.Name(id=nxt.id, ctx=ast.Load()), op=ast.Sub(), right=amt))
            ok, cex = U.must(ctx, res, n.id, ('lt', first, after))
            if not ok:
                bad = (n, cex)
                break
        if bad is None:
            ctx.ok(inst, h.loc(call), 'every decrement is guarded so that the lowered hint stays above the first stored index')
        else:
            n, cex = bad
            ctx.violation('%s:hint-lowered-to-log-start' % h.qualname, h.loc(n.ast),
                          'the failure hint `%s` is lowered by `%s` on a path where the result is not known to stay above the first stored index: a hint equal to the '
                          'compaction base makes the leader send a previous entry the follower does not hold, the follower answers with a reset, and the pair repeats '
                          'this forever (the follower never catches up): %s' % (nxt.id, unparse(n.ast), res.path_str(n.id, cex)), instance=inst)
    ctx.require(n_replies >= 1, 'no failure reply in the append_entries region')
    ctx.expect_min(1)
