"""Callback contract rules (C02), exception containment of user code (C12)."""
import ast
from . import rule
from .. import util as U
from ..pyir import AnalysisError, unparse
from .. import oracle
from .election import journal_positions
from .raftlog import log_op_sites


def _fail_reason(P, node):
    cv = P.const_class_value(node)
    if cv is not None and cv[0] == 'FAIL_REASON':
        return cv[1]
    return None


def _err_helper(ctx):
    """the helper that reports an error to a callback or a (node, request id) pair: a method with a
    `callback` parameter that both calls it and sends apply_command_response"""
    P, R = ctx.P, ctx.R
    for f in P.methods_of(R.S):
        if f is R.handler or f is R.queue_drain:
            continue
        sites = [(c, d, t) for c, d, t, tgt in U.send_sites(ctx, f)]
        types = [t for c, d, t in sites]
        # ... and the error it reports is one of its own parameters (a function that reports one fixed reason inline is not the helper)
        err_is_param = any(d is not None and t == 'apply_command_response' and isinstance(U.dict_get(d, 'error'), ast.Name) and U.dict_get(d, 'error').id in f.params
                           for c, d, t in sites)
        if 'apply_command_response' in types and err_is_param and any(isinstance(c.func, ast.Name) and c.func.id in f.params for c in P.calls_in(f)):
            return f
    return None


def _consumption_events(ctx, func, cbname, helper):
    """fn(node) -> events for the linear resource held in local `cbname`"""
    P, R = ctx.P, ctx.R
    sn = func.self_name

    def events(node):
        out = []
        a = node.ast
        if a is None or node.kind not in ('stmt', 'cond'):
            return out
        for c in [x for x in U.walk_no_nested(a) if isinstance(x, ast.Call)]:
            f = c.func
            # direct invocation
            if isinstance(f, ast.Name) and f.id == cbname:
                out.append('use')
            # stored in a table: self.T[k].append((.., cb)) / helper(.., cb)
            elif isinstance(f, ast.Attribute) and f.attr == 'append' and isinstance(f.value, ast.Subscript) \
                    and P.self_attr(f.value.value, sn) in (R.waitingCommit, R.waitingReply) \
                    and any(isinstance(x, ast.Name) and x.id == cbname for arg in c.args for x in ast.walk(arg)):
                out.append('use')
            elif helper is not None and U.calls_method(P, func, c, {helper.name}) \
                    and any(isinstance(x, ast.Name) and x.id == cbname for arg in c.args for x in ast.walk(arg)):
                out.append('use')
        if isinstance(a, ast.Assign) and isinstance(a.targets[0], ast.Subscript) \
                and P.self_attr(a.targets[0].value, sn) in (R.waitingCommit, R.waitingReply) \
                and isinstance(a.value, ast.Name) and a.value.id == cbname:
            out.append('use')
        return out
    return events


@rule('R-err-helper-delivers', 'handing a callback to the error helper consumes it: for a real callback the helper invokes it '
                               'once, for a forwarded request (node, id) it sends the error answer once, and only for None it does nothing')
def r_err_helper_delivers(ctx):
    P, R = ctx.P, ctx.R
    helper = _err_helper(ctx)
    if helper is None:
        # errors are reported inline at the sites (covered by R-cb-linear / R-disposition): nothing to check here
        ctx.ok('no separate error helper in this tree', '', 'error answers are given inline', nontrivial=False)
        return
    cb = helper.params[2] if len(helper.params) > 2 else helper.params[-1]
    ex = U.explorer(ctx, helper)
    cfg = ex.cfg
    sends = U.send_sites(ctx, helper)

    def ev(node):
        out = []
        if node.kind not in ('stmt', 'cond') or node.ast is None:
            return out
        for c in [x for x in U.walk_no_nested(node.ast) if isinstance(x, ast.Call)]:
            if isinstance(c.func, ast.Name) and c.func.id == cb:
                out.append('call')
            for sc, d, t, tgt in sends:
                if sc is c and t == 'apply_command_response':
                    out.append('answer')
        return out
    cbt = ex.tb.term(ast.Name(id=cb, ctx=ast.Load()))
    init = frozenset([('none', cbt, False)])
    res = ex.run(init=init, track=ev, follow_exc=False)
    outcomes = set(cnt for fs, cnt in res.cstates.get(cfg.exit.id, ()))
    inst = 'error helper delivers exactly once for a callback that is not None'
    ctx.tick(len(outcomes))
    bad = [dict(c) for c in outcomes if dict(c).get('call', 0) + dict(c).get('answer', 0) != 1]
    if outcomes and not bad:
        ctx.ok(inst, helper.loc(), '%d path classes with callback not None: each invokes it or sends the error answer, once' % len(outcomes))
    else:
        ctx.violation('%s:error-not-delivered' % helper.qualname, helper.loc(),
                      'with a callback that is not None the error helper can return having delivered %s: the submitter of a failed command is never told (or told twice)'
                      % (sorted(bad[0].items()) if bad else 'nothing (no normal exit found)'), instance=inst)
    # None: nothing happens
    res0 = ex.run(init=frozenset([('none', cbt, True)]), track=ev, follow_exc=False)
    out0 = set(cnt for fs, cnt in res0.cstates.get(cfg.exit.id, ()))
    inst = 'error helper ignores a missing callback'
    ctx.tick()
    if all(not dict(c) for c in out0) and out0:
        ctx.ok(inst, helper.loc(), 'no call / answer on the None path')
    else:
        ctx.violation('%s:none-callback-used' % helper.qualname, helper.loc(), 'with callback None the helper still calls / answers', instance=inst)
    ctx.expect_min(2)


@rule('R-cb-linear', 'a callback taken from the queue or from a waiting table is consumed exactly once on every path: '
                     'invoked, stored in one table, handed to the error helper, or answered over the wire')
def r_cb_linear(ctx):
    P, R = ctx.P, ctx.R
    helper = _err_helper(ctx)
    # ---- 1. the queue drain
    f = R.queue_drain
    ex = U.explorer(ctx, f)
    cfg = ex.cfg
    get_node = U.node_containing(cfg, R.queue_get_call)
    ctx.require(get_node is not None and isinstance(get_node.ast, ast.Assign), 'queue get is not an unpacking assignment')
    tgt = get_node.ast.targets[0]
    ctx.require(isinstance(tgt, ast.Tuple) and len(tgt.elts) == 2 and isinstance(tgt.elts[1], ast.Name), 'queue item is not unpacked into (command, callback)')
    cbname = tgt.elts[1].id
    loops = [p for p in get_node.parents if isinstance(p, (ast.While, ast.For))]
    ctx.require(loops, 'queue drain is not a loop')
    head = [n for n in cfg.nodes if n.ast is loops[-1] and n.kind in ('loop', 'iter')][0]
    base_events = _consumption_events(ctx, f, cbname, helper)
    # wire answer: send of apply_command_response carrying the request id unpacked from the callback tuple
    unpacked = set()
    for n in U.walk_no_nested(f.node):
        vals_ = [n.value.body, n.value.orelse] if isinstance(n, ast.Assign) and isinstance(n.value, ast.IfExp) else ([n.value] if isinstance(n, ast.Assign) else [])
        if isinstance(n, ast.Assign) and any(isinstance(v_, ast.Name) and v_.id == cbname for v_ in vals_) and isinstance(n.targets[0], ast.Tuple):
            for e in n.targets[0].elts:
                if isinstance(e, ast.Name):
                    unpacked.add(e.id)
    sends = U.send_sites(ctx, f)

    def events(node):
        out = base_events(node)
        if node.kind == 'stmt':
            for c, d, t, tgt_ in sends:
                if d is not None and t == 'apply_command_response' and any(x is c for x in ast.walk(node.ast)):
                    rid = U.dict_get(d, 'request_id')
                    if isinstance(rid, ast.Name) and rid.id in unpacked:
                        out.append('use')
        return out
    succ = [d for d, l in get_node.succ if not (isinstance(l, tuple) and l[0] == 'exc')]
    res = ex.run(start=succ[0], track=events, stop=[head.id, cfg.exit.id], follow_exc=False)
    cb_none = ('none', ex.tb.term(ast.Name(id=cbname, ctx=ast.Load())), True)
    n_paths = 0
    bad = False
    for end in (head.id, cfg.exit.id):
        for fs, cnt in res.cstates.get(end, ()):
            n_paths += 1
            ctx.tick()
            uses = dict(cnt).get('use', 0)
            if uses == 1:
                continue
            if uses == 0 and oracle.entails(fs, cb_none):
                continue
            bad = True
            kind = 'twice' if uses >= 2 else 'never'
            ctx.violation('%s:queue-callback-consumed-%s' % (f.qualname, kind), f.loc(get_node.ast),
                          'a callback taken from the command queue is consumed %s on the path %s' % (kind, res.path_str(end, fs)),
                          witness={'facts': U.facts_str(fs, 30)}, instance='queue callback linear [%s]' % kind)
            break
    ctx.require(n_paths > 0, 'no path from the queue get to the end of the iteration')
    if not bad:
        ctx.ok('queue callback consumed exactly once per dequeued command', f.loc(get_node.ast), '%d path classes of one drain iteration' % n_paths)

    # ---- 2. apply step: subscribers popped from waitingCommit, each fired exactly once
    f = R.apply_step
    ex = U.explorer(ctx, f)
    cfg = ex.cfg
    pops = [c for c in P.calls_in(f) if isinstance(c.func, ast.Attribute) and c.func.attr == 'pop'
            and P.self_attr(c.func.value, f.self_name) == R.waitingCommit]
    ctx.require(pops, 'the apply step does not take the subscribers of an entry from the waiting-commit table')
    for pc in pops:
        pn = U.node_containing(cfg, pc)
        # the loop that iterates the popped list
        var = pn.ast.targets[0].id if isinstance(pn.ast, ast.Assign) and isinstance(pn.ast.targets[0], ast.Name) else None
        inner = [n for n in cfg.nodes if n.kind == 'iter' and isinstance(n.ast.iter, ast.Name) and n.ast.iter.id == var]
        if not inner:
            ctx.violation('%s:subscribers-not-iterated' % f.qualname, f.loc(pc), 'subscribers are popped but never iterated (callbacks lost)', instance='commit subscribers fired')
            continue
        ih = inner[0]
        t = ih.ast.target
        cbv = t.elts[-1].id if isinstance(t, ast.Tuple) else (t.id if isinstance(t, ast.Name) else None)
        ev = _consumption_events(ctx, f, cbv, helper)
        body = [d for d, l in ih.succ if l == 'iter']
        r2 = ex.run(start=body[0], track=ev, stop=[ih.id], follow_exc=False)
        okall = True
        npth = 0
        for fs, cnt in r2.cstates.get(ih.id, ()):
            npth += 1
            ctx.tick()
            if dict(cnt).get('use', 0) != 1:
                okall = False
                ctx.violation('%s:commit-subscriber-fired-%d-times' % (f.qualname, dict(cnt).get('use', 0)), f.loc(ih.ast),
                              'a subscriber of a committed entry is invoked %d times on path %s' % (dict(cnt).get('use', 0), r2.path_str(ih.id, fs)),
                              instance='commit subscribers fired once')
        if okall and npth:
            ctx.ok('each subscriber of an applied entry is invoked exactly once', f.loc(ih.ast), '%d path classes' % npth)
        # pop precedes/removes: the table entry is removed (pop, not get)
    # ---- 3. reply from the leader: callback popped from waitingReply
    h = R.handler
    ex = U.explorer(ctx, h)
    cfg = ex.cfg
    pops = [c for c in P.calls_in(h) if isinstance(c.func, ast.Attribute) and c.func.attr == 'pop'
            and P.self_attr(c.func.value, h.self_name) == R.waitingReply]
    gets = [c for c in P.calls_in(h) if isinstance(c.func, ast.Attribute) and c.func.attr == 'get'
            and P.self_attr(c.func.value, h.self_name) == R.waitingReply]
    for c in gets:
        ctx.violation('%s:reply-callback-not-removed' % h.qualname, h.loc(c),
                      'the reply callback is read from the table without being removed (a duplicate reply fires it again)', instance='reply callback removed')
    ctx.require(pops or gets, 'the handler never takes a callback from the waiting-reply table')
    for pc in pops:
        pn = U.node_containing(cfg, pc)
        var = pn.ast.targets[0].id if isinstance(pn.ast, ast.Assign) and isinstance(pn.ast.targets[0], ast.Name) else None
        ev = _consumption_events(ctx, h, var, helper)
        succ = [d for d, l in pn.succ if not (isinstance(l, tuple) and l[0] == 'exc')]
        # end of the region: next type test or exit
        regs = U.regions(ctx)
        stops = [cid for k, lst in regs.items() for cid, e in lst] + [cfg.exit.id]
        stops += [n.id for n in cfg.nodes if n.kind == 'cond' and any(P.self_attr(x, h.self_name) == R.raftState for x in ast.walk(n.ast)) and n.lineno > pn.lineno]
        init = [fs for fs in U.full_run(ctx, h).facts_at(pn.id)]
        okall = True
        npth = 0
        cbn = ('none', ex.tb.term(ast.Name(id=var, ctx=ast.Load())), True)
        for fs0 in init[:4]:
            r3 = ex.run(start=succ[0], init=frozenset(l for l in fs0 if ('L:' + var) not in _deps(l)), track=ev, stop=stops, follow_exc=False)
            for s_ in stops:
                for fs, cnt in r3.cstates.get(s_, ()):
                    npth += 1
                    ctx.tick()
                    u = dict(cnt).get('use', 0)
                    if u == 1 or (u == 0 and oracle.entails(fs, cbn)):
                        continue
                    okall = False
                    ctx.violation('%s:reply-callback-consumed-%d-times' % (h.qualname, u), h.loc(pc),
                                  'a callback waiting for the leader\'s reply is consumed %d times on path %s' % (u, r3.path_str(s_, fs)),
                                  instance='reply callback linear')
        if okall and npth:
            ctx.ok('reply callback fired or moved to the commit table exactly once', h.loc(pc), '%d path classes' % npth)
    # ---- 4. leader-changed sweep empties the table it fires
    for f in P.methods_of(R.S):
        if f in (R.handler, R.queue_drain, R.apply_step):
            continue
        fires = []

        def is_table(e, f=f):
            # the table attribute itself, or a local that holds the same dict object at that point (an equality fact)
            if P.self_attr(e, f.self_name) == R.waitingReply:
                return True
            if not isinstance(e, ast.Name) or not any(isinstance(d, ast.Assign) and P.self_attr(d.value, f.self_name) == R.waitingReply
                                                      and any(isinstance(t, ast.Name) and t.id == e.id for t in d.targets) for d in ast.walk(f.node)):
                return False
            fex = U.explorer(ctx, f)
            fres = U.full_run(ctx, f)
            nodes = U.nodes_containing(fex.cfg, e)
            g = ('eq', fex.tb.term(e), fex.tb.term(U.parse_expr('self.%s' % R.waitingReply)))
            return bool(nodes) and all(fres.must(n_.id, g)[0] for n_ in nodes if fres.reached(n_.id))
        for c in P.calls_in(f):
            if isinstance(c.func, ast.Subscript) and is_table(c.func.value):
                fires.append(c)
        if not fires:
            continue
        ex = U.explorer(ctx, f)
        cfg = ex.cfg
        resets = []
        for n in cfg.nodes:
            if n.kind == 'stmt' and isinstance(n.ast, ast.Assign) and P.self_attr(n.ast.targets[0], f.self_name) == R.waitingReply:
                resets.append(n.id)
            if n.kind == 'stmt' and isinstance(n.ast, ast.Expr) and isinstance(n.ast.value, ast.Call) and isinstance(n.ast.value.func, ast.Attribute) \
                    and n.ast.value.func.attr == 'clear' and is_table(n.ast.value.func.value):
                resets.append(n.id)
        fn = U.node_containing(cfg, fires[0])
        reach = cfg.reachable_from(fn.id, avoid=resets, follow_exc=False)
        ctx.tick()
        if cfg.exit.id in reach:
            ctx.violation('%s:sweep-keeps-fired-callbacks' % f.qualname, f.loc(fires[0]),
                          'callbacks are fired from the waiting-reply table but the table is not emptied on every path (they can fire again)',
                          instance='sweep empties the table')
        else:
            ctx.ok('sweep `%s` empties the table it fired' % f.qualname, f.loc(fires[0]), 'exit unreachable without the reset')
    ctx.expect_min(4)


def _deps(l):
    from ..facts import lit_deps
    return lit_deps(l)


@rule('R-success-guard', 'SUCCESS is reported only when the term stored with the callback equals the term of the '
                         'applied entry, with the value returned by dispatching that entry; otherwise DISCARDED')
def r_success_guard(ctx):
    P, R = ctx.P, ctx.R
    idx_pos, term_pos = journal_positions(P)
    n_sites = 0
    for f in P.methods_of(R.S):
        for c in P.calls_in(f, include_nested=True):
            if len(c.args) >= 2 and _fail_reason(P, c.args[1]) == 'SUCCESS' and isinstance(c.func, (ast.Name, ast.Subscript)):
                n_sites += 1
                inst = '%s: `%s`' % (f.qualname, unparse(c))
                if f is not R.apply_step:
                    ctx.violation('%s:success-outside-apply-step' % f.qualname, f.loc(c), 'SUCCESS is reported outside the apply step', instance=inst)
                    continue
                ex = U.explorer(ctx, f)
                res = U.full_run(ctx, f)
                n = U.node_containing(ex.cfg, c)
                problems = []
                # term equality fact: an eq literal between the loop's stored term and (alias of) entry[term_pos]
                entry_var = R.apply_loop.target.id if isinstance(R.apply_loop, ast.For) and isinstance(R.apply_loop.target, ast.Name) else None
                tgt_ = R.apply_loop.target if isinstance(R.apply_loop, ast.For) else None

                def comp(k):
                    """key of the k-th component of the entry the loop is at: entry[k], or the k-th name of an unpacking target"""
                    if isinstance(tgt_, (ast.Tuple, ast.List)) and k < len(tgt_.elts) and isinstance(tgt_.elts[k], ast.Name):
                        return tgt_.elts[k].id
                    return '%s[%d]' % (entry_var, k)
                inner_for = [p for p in n.parents if isinstance(p, ast.For) and p is not R.apply_loop]
                stored = set()
                if inner_for:
                    stored = set(x.id for x in ast.walk(inner_for[-1].target) if isinstance(x, ast.Name))
                for fs in res.facts_at(n.id):
                    ctx.tick()
                    ok = False
                    for l in fs:
                        if l[0] != 'eq':
                            continue
                        for a, b in ((l[1], l[2]), (l[2], l[1])):
                            # a = the term stored with the callback (a target of the subscribers loop), b aliases entry[term]
                            if a.key in stored and _aliases(fs - {l}, b, comp(term_pos)):
                                ok = True
                    if not ok:
                        problems.append('no fact `stored term == term of the applied entry` on path %s' % res.path_str(n.id, fs))
                        break
                # result provenance
                a0 = c.args[0]
                if isinstance(a0, ast.Name):
                    defs = [d for d in U.walk_no_nested(R.apply_loop) if isinstance(d, ast.Assign) and any(isinstance(t, ast.Name) and t.id == a0.id for t in d.targets)]
                    if not (len(defs) == 1 and defs[0].value is R.apply_call):
                        problems.append('the reported result `%s` is not the value of dispatching this entry' % a0.id)
                    # dispatch argument is the command of this entry
                    arg = R.apply_call.args[0] if R.apply_call.args else None
                    okarg = arg is not None and unparse(arg) == comp(0)
                    if arg is not None and not okarg:
                        # ... or a local that equals it on every path (`command, idx, term = entry`)
                        an = U.node_containing(ex.cfg, R.apply_call)
                        fss = res.facts_at(an.id)
                        okarg = bool(fss) and all(_aliases(fs, ex.tb.term(arg), comp(0)) for fs in fss)
                    if not okarg:
                        problems.append('the dispatch does not execute the command component of the loop entry')
                else:
                    problems.append('the reported result is not a local holding the dispatch value')
                # dominated by dispatch
                dn = U.node_containing(ex.cfg, R.apply_call)
                if n.id in ex.cfg.reachable_from(ex.cfg.entry.id, avoid=[dn.id]):
                    problems.append('SUCCESS reachable without executing the entry')
                if problems:
                    ctx.violation('%s:success-unguarded' % f.qualname, f.loc(c), '; '.join(problems), instance=inst)
                else:
                    ctx.ok(inst, f.loc(c), 'stored term == entry term entailed; result is the dispatch value of this entry; dominated by the dispatch')
            elif len(c.args) >= 2 and _fail_reason(P, c.args[1]) == 'DISCARDED' and f is R.apply_step:
                ex = U.explorer(ctx, f)
                res = U.full_run(ctx, f)
                n = U.node_containing(ex.cfg, c)
                inst = '%s: `%s`' % (f.qualname, unparse(c))
                okd = all(any(l[0] == 'ne' for l in fs) for fs in res.facts_at(n.id)) and bool(res.facts_at(n.id))
                ctx.tick()
                if okd and isinstance(c.args[0], ast.Constant) and c.args[0].value is None:
                    ctx.ok(inst, f.loc(c), 'under the negated term equality, no result passed')
                else:
                    ctx.violation('%s:discarded-unguarded' % f.qualname, f.loc(c), 'DISCARDED reported without the term mismatch / with a result', instance=inst)
    ctx.require(n_sites > 0, 'nobody reports FAIL_REASON.SUCCESS to a callback')
    ctx.expect_min(1)


def _aliases(fs, t, key):
    """term t is `key` or equal to it through equality facts"""
    seen = set()
    todo = [t]
    while todo:
        x = todo.pop()
        if x.key in seen:
            continue
        seen.add(x.key)
        if x.key == key:
            return True
        for l in fs:
            if l[0] == 'eq':
                if l[1] == x:
                    todo.append(l[2])
                elif l[2] == x:
                    todo.append(l[1])
    return False


@rule('R-disposition', 'every dequeued command has exactly one disposition: appended to the log, forwarded to the '
                       'leader, or answered with an error; QUEUE_FULL only where the queue refused the item')
def r_disposition(ctx):
    P, R = ctx.P, ctx.R
    f = R.queue_drain
    ex = U.explorer(ctx, f)
    cfg = ex.cfg
    helper = _err_helper(ctx)
    get_node = U.node_containing(cfg, R.queue_get_call)
    loops = [p for p in get_node.parents if isinstance(p, (ast.While, ast.For))]
    head = [n for n in cfg.nodes if n.ast is loops[-1] and n.kind in ('loop', 'iter')][0]
    adds = [c for g, c, via in log_op_sites(ctx, 'add') if g is f]
    sends = U.send_sites(ctx, f)

    def events(node):
        out = []
        if node.kind not in ('stmt', 'cond') or node.ast is None:
            return out
        for c in [x for x in U.walk_no_nested(node.ast) if isinstance(x, ast.Call)]:
            if any(c is a for a in adds):
                out.append('append')
            for sc, d, t, tgt in sends:
                if sc is c and d is not None:
                    if t == 'apply_command':
                        out.append('forward')
                    elif t == 'apply_command_response' and U.dict_get(d, 'error') is not None:
                        out.append('error')
            if isinstance(c.func, ast.Name) and len(c.args) >= 2 and _fail_reason(P, c.args[1]) not in (None, 'SUCCESS'):
                out.append('error')
            if helper is not None and U.calls_method(P, f, c, {helper.name}):
                out.append('error')
        return out
    succ = [d for d, l in get_node.succ if not (isinstance(l, tuple) and l[0] == 'exc')]
    res = ex.run(start=succ[0], track=events, stop=[head.id, cfg.exit.id], follow_exc=False)
    tgt = get_node.ast.targets[0]
    cbname = tgt.elts[1].id
    cb_none = ('none', ex.tb.term(ast.Name(id=cbname, ctx=ast.Load())), True)
    n = 0
    bad = False
    for end in (head.id, cfg.exit.id):
        for fs, cnt in res.cstates.get(end, ()):
            n += 1
            ctx.tick()
            d = dict(cnt)
            total = d.get('append', 0) + d.get('forward', 0) + d.get('error', 0)
            # a refused local command without callback has nobody to tell: error count 0 allowed only when callback is None
            if total == 1:
                continue
            if total == 0 and oracle.entails(fs, cb_none):
                continue
            bad = True
            ctx.violation('%s:disposition-%s' % (f.qualname, '+'.join('%s=%d' % kv for kv in sorted(d.items())) or 'none'), f.loc(get_node.ast),
                          'a dequeued command gets %s on path %s' % (('dispositions ' + ', '.join('%s x%d' % kv for kv in sorted(d.items()))) if d else 'no disposition at all (silently dropped)',
                                                                    res.path_str(end, fs)), instance='exactly one disposition')
            break
    if not bad:
        ctx.ok('exactly one of append / forward / error per dequeued command', f.loc(get_node.ast), '%d path classes' % n)
    # QUEUE_FULL only in the handler of the queue's Full exception
    for g in P.methods_of(R.S):
        for c in P.calls_in(g, include_nested=True):
            for a in c.args:
                if _fail_reason(P, a) == 'QUEUE_FULL':
                    gcfg = U.explorer(ctx, g).cfg
                    n_ = U.node_containing(gcfg, c)
                    in_handler = any(isinstance(p, ast.Try) for p in n_.parents) and \
                        any(isinstance(p, ast.Try) and any(any(x is c for x in ast.walk(hh)) and 'Full' in unparse(hh.type or ast.Constant(value=''))
                                                            for hh in p.handlers) for p in n_.parents)
                    ctx.tick()
                    # the handler catches nothing but the queue's Full: anything broader also catches what is raised after the item was queued
                    broad = None
                    for p in n_.parents:
                        if isinstance(p, ast.Try):
                            for hh in p.handlers:
                                if any(x is c for x in ast.walk(hh)):
                                    elts = hh.type.elts if isinstance(hh.type, ast.Tuple) else [hh.type]
                                    if hh.type is None or any(not unparse(e_).split('.')[-1] == 'Full' for e_ in elts):
                                        broad = hh
                    if in_handler and broad is not None:
                        ctx.violation('%s:queue-full-handler-too-broad' % g.qualname, g.loc(c),
                                      'QUEUE_FULL is reported from `except %s`: an exception raised after the command was queued (e.g. by the wake-up notification) is reported as '
                                      'QUEUE_FULL although the command stays queued and is applied later -- the callback then fires a second time' % (unparse(broad.type) if broad.type is not None else ''),
                                      instance='QUEUE_FULL site')
                    elif in_handler:
                        ctx.ok('QUEUE_FULL reported only where the queue raised Full', g.loc(c), 'inside `except Queue.Full`')
                    else:
                        ctx.violation('%s:queue-full-elsewhere' % g.qualname, g.loc(c), 'QUEUE_FULL reported outside the handler of the queue\'s Full exception',
                                      instance='QUEUE_FULL site')
    # FastQueue.put_nowait: the raise precedes the append
    fq = P.cls('FastQueue')
    put = fq.methods.get('put_nowait')
    ctx.require(put is not None, 'FastQueue.put_nowait gone')
    pcfg = U.explorer(ctx, put).cfg
    raises = [n_.id for n_ in pcfg.nodes if n_.kind == 'stmt' and isinstance(n_.ast, ast.Raise)]
    appends = [n_.id for n_ in pcfg.nodes if n_.kind == 'stmt' and any(isinstance(x, ast.Call) and isinstance(x.func, ast.Attribute) and x.func.attr in ('append', 'appendleft')
                                                                     for x in ast.walk(n_.ast))]
    ctx.tick()
    if raises and appends and not any(r in pcfg.reachable_from(a) for a in appends for r in raises):
        ctx.ok('FastQueue.put_nowait refuses before inserting', put.loc(), 'no raise reachable after the append')
    else:
        ctx.violation('FastQueue.put_nowait:insert-then-refuse', put.loc(), 'the queue can insert the item and still raise Full (command applied although QUEUE_FULL was reported)',
                      instance='put_nowait order')
    ctx.expect_min(3)


@rule('R-user-exc-contained', 'an exception raised by a replicated method (or by unpickling its command) cannot leave '
                              'the apply step: the dispatch is covered by a handler of Exception')
def r_user_exc_contained(ctx):
    P, R = ctx.P, ctx.R
    # inside the dispatcher: is the foreign call covered?
    d = R.dispatcher
    dcfg = U.explorer(ctx, d).cfg
    dn = U.node_containing(dcfg, R.dispatch_call)
    escapes_dispatcher = any(dst == dcfg.raise_exit.id for dst, l in dn.succ if isinstance(l, tuple) and l[0] == 'exc')
    ctx.tick()
    f = R.apply_step
    cfg = U.explorer(ctx, f).cfg
    an = U.node_containing(cfg, R.apply_call)
    escapes_step = any(dst == cfg.raise_exit.id for dst, l in an.succ if isinstance(l, tuple) and l[0] == 'exc')
    ctx.tick()
    inst = 'exception of user code contained in the apply step'
    if escapes_dispatcher and escapes_step:
        handlers = [unparse(cfg.nodes[dst].ast.type) if cfg.nodes[dst].ast.type is not None else 'bare' for dst, l in an.succ
                    if isinstance(l, tuple) and l[0] == 'exc' and cfg.nodes[dst].kind == 'handler']
        ctx.violation('%s:user-exception-escapes-apply-step' % f.qualname, f.loc(R.apply_call),
                      'an exception raised by the replicated method propagates out of the dispatcher and out of the apply loop '
                      '(handlers around the dispatch: %s): the applied index stays, the tick raises and retries the same entry for ever'
                      % (', '.join(handlers) or 'none'), instance=inst)
    else:
        ctx.ok(inst, f.loc(R.apply_call), 'covered by a catch-all handler in %s' % ('the dispatcher' if not escapes_dispatcher else 'the apply step'))
    # informational: shipped commands documented to raise
    if P.has_cls('ReplList'):
        n = 0
        for cn in ('ReplList', 'ReplSet', 'ReplDict', 'ReplCounter', 'ReplQueue', 'ReplPriorityQueue'):
            if not P.has_cls(cn):
                continue
            for m in P.methods_of(P.cls(cn)):
                doc = ast.get_docstring(m.node) or ''
                if 'Raises' in doc or 'raise' in doc:
                    n += 1
                    ctx.info('%s.%s is documented to raise' % (cn, m.name), m.loc(), doc.strip().split('\n')[-1].strip())
    ctx.expect_min(1)


@rule('R-commit-subscription', 'a callback waits for exactly the (index, term) its command was appended with: locally the '
                               'arguments of log.add, remotely the log_idx / log_term the leader reports for that append')
def r_commit_subscription(ctx):
    P, R = ctx.P, ctx.R
    f = R.queue_drain
    ex = U.explorer(ctx, f)
    res = U.full_run(ctx, f)
    adds = [c for g, c, via in log_op_sites(ctx, 'add') if g is f]
    ctx.require(adds and len(adds[0].args) == 3, 'queue drain append not found')
    add = adds[0]
    idx_t, term_t = ex.tb.term(add.args[1]), ex.tb.term(add.args[2])
    # local subscription
    n_sub = 0
    for n in ex.cfg.nodes:
        if n.kind != 'stmt':
            continue
        for c in [x for x in ast.walk(n.ast) if isinstance(x, ast.Call)]:
            fn = c.func
            if isinstance(fn, ast.Attribute) and fn.attr == 'append' and isinstance(fn.value, ast.Subscript) and P.self_attr(fn.value.value, f.self_name) == R.waitingCommit \
                    and c.args and isinstance(c.args[0], ast.Tuple) and len(c.args[0].elts) == 2:
                n_sub += 1
                key = ex.tb.term(fn.value.slice)
                trm = ex.tb.term(c.args[0].elts[0])
                inst = 'leader-local subscription uses the appended (index, term)'
                ok = all(oracle.entails(fs, ('and', ('eq', key, idx_t), ('eq', trm, term_t))) for fs in res.facts_at(n.id)) and bool(res.facts_at(n.id))
                ctx.tick()
                if ok:
                    ctx.ok(inst, f.loc(c), 'waitingCommit[%s] <- (%s, cb) for log.add(.., %s, %s)' % (key.key, trm.key, idx_t.key, term_t.key))
                else:
                    ctx.violation('%s:subscription-not-appended-position' % f.qualname, f.loc(c),
                                  'the callback is subscribed at (%s, %s) but the command was appended at (%s, %s)' % (key.key, trm.key, idx_t.key, term_t.key), instance=inst)
    # response to a forwarding follower carries the appended position
    for c, d, t, tgt in U.send_sites(ctx, f):
        if t == 'apply_command_response' and d is not None and U.dict_get(d, 'error') is None:
            n = U.node_containing(ex.cfg, c)
            li, lt = U.dict_get(d, 'log_idx'), U.dict_get(d, 'log_term')
            inst = 'reply to the forwarder reports the appended (index, term)'
            ctx.tick()
            if li is None or lt is None:
                ctx.violation('%s:reply-without-position' % f.qualname, f.loc(c), 'the success reply to a forwarded command lacks log_idx / log_term', instance=inst)
                continue
            ok = all(oracle.entails(fs, ('and', ('eq', ex.tb.term(li), idx_t), ('eq', ex.tb.term(lt), term_t))) for fs in res.facts_at(n.id)) and bool(res.facts_at(n.id))
            if ok:
                ctx.ok(inst, f.loc(c), 'log_idx=%s, log_term=%s' % (unparse(li), unparse(lt)))
            else:
                ctx.violation('%s:reply-position-mismatch' % f.qualname, f.loc(c), 'the reply reports (%s, %s), the command was appended at (%s, %s)'
                              % (unparse(li), unparse(lt), idx_t.key, term_t.key), instance=inst)
    # follower side: subscription from the reply
    h = R.handler
    hex_, hres, entry = U.region_run(ctx, 'apply_command_response')
    msg = R.handler_msg_param
    want_i = hex_.tb.term(U.parse_expr("%s['log_idx']" % msg))
    want_t = hex_.tb.term(U.parse_expr("%s['log_term']" % msg))
    n_f = 0
    for n in hex_.cfg.nodes:
        if n.kind != 'stmt' or not hres.reached(n.id):
            continue
        for c in [x for x in ast.walk(n.ast) if isinstance(x, ast.Call)]:
            fn = c.func
            if isinstance(fn, ast.Attribute) and fn.attr == 'append' and isinstance(fn.value, ast.Subscript) and P.self_attr(fn.value.value, h.self_name) == R.waitingCommit \
                    and c.args and isinstance(c.args[0], ast.Tuple) and len(c.args[0].elts) == 2:
                n_f += 1
                key = hex_.tb.term(fn.value.slice)
                trm = hex_.tb.term(c.args[0].elts[0])
                inst = 'forwarder subscribes at the (index, term) reported by the leader'
                ok = all(oracle.entails(fs, ('and', ('eq', key, want_i), ('eq', trm, want_t))) for fs in hres.facts_at(n.id))
                ctx.tick()
                if ok:
                    ctx.ok(inst, h.loc(c), "waitingCommit[message['log_idx']] <- (message['log_term'], cb)")
                else:
                    ctx.violation('%s:forwarder-subscription-term' % h.qualname, h.loc(c),
                                  'the callback of a forwarded command is subscribed at (%s, %s), not at the (log_idx, log_term) the leader appended it with: '
                                  'SUCCESS / DISCARDED is then decided against the wrong term' % (key.key, trm.key), instance=inst)
    ctx.require(n_sub >= 1 and n_f >= 1, 'subscription sites not found')
    ctx.expect_min(3)


@rule('R-request-id-unique', 'request ids of forwarded commands are never reused: the counter is only ever incremented')
def r_request_id_unique(ctx):
    P, R = ctx.P, ctx.R
    f = R.queue_drain
    counter = None
    for c, d, t, tgt in U.send_sites(ctx, f):
        pass
    for n in ast.walk(f.node):
        if isinstance(n, ast.Assign) and isinstance(n.targets[0], ast.Subscript) and isinstance(n.targets[0].slice, ast.Constant) \
                and n.targets[0].slice.value == 'request_id':
            counter = P.self_attr(n.value, f.self_name)
    if counter is None:
        for c, d, t, tgt in U.send_sites(ctx, f):
            if t == 'apply_command' and d is not None and U.dict_get(d, 'request_id') is not None:
                counter = P.self_attr(U.dict_get(d, 'request_id'), f.self_name)
    ctx.require(counter, 'request id source of forwarded commands not found')
    n = 0
    for g in P.methods_of(R.S):
        for st, kind in U.assigns_to_attr(P, g, counter):
            n += 1
            inst = '%s: `%s`' % (g.qualname, unparse(st))
            ctx.tick()
            if g.name == '__init__' and kind == 'assign' and isinstance(st.value, ast.Constant):
                ctx.ok(inst, g.loc(st), 'initialisation', nontrivial=False)
            elif kind == 'aug' and isinstance(st.op, ast.Add) and isinstance(st.value, ast.Constant) and st.value.value >= 1:
                ctx.ok(inst, g.loc(st), 'increment')
            else:
                ctx.violation('%s:request-id-counter-rewritten' % g.qualname, g.loc(st),
                              'the request id counter is overwritten (`%s`): a late reply for an old request then captures the callback of a new one' % unparse(st), instance=inst)
    # the table key is the counter value, and replies are matched by pop
    ctx.expect_min(2)


@rule('R-leader-change-notified', 'when a follower adopts the sender of an append_entries as its leader, either the leader pointer '
                                  'already named that node or the requests waiting for the old leader\'s reply have been failed '
                                  '(the waiting-reply table was swept) on the way')
def r_leader_change_notified(ctx):
    """Requests forwarded to a leader wait in the reply table until the reply arrives or the table is swept with
    LEADER_CHANGED.  If the node starts following another leader without the sweep, a request whose reply was lost stays
    there for ever: its callback never fires and a synchronous caller blocks."""
    P, R = ctx.P, ctx.R
    h = R.handler
    ex, res0, entry = U.region_run(ctx, 'append_entries')
    cfg = ex.cfg
    sender = R.handler_node_param
    ctx.require(sender, 'sender parameter of the message handler not identified')
    from .ownership import _role_funcs
    sweeps = _role_funcs(ctx).get('sweep', set())
    adopt = []
    for n in cfg.nodes:
        if n.kind == 'stmt' and isinstance(n.ast, ast.Assign) and res0.reached(n.id) and any(P.self_attr(t, h.self_name) == R.leaderPtr for t in n.ast.targets) \
                and isinstance(n.ast.value, ast.Name) and n.ast.value.id == sender:
            adopt.append(n)
    ctx.require(adopt, 'the append_entries region no longer records the sender as the leader')

    def ev(m):
        if m.kind != 'stmt' or m.ast is None:
            return ()
        st = m.ast
        # the table is emptied here ...
        if isinstance(st, ast.Assign) and any(P.self_attr(t, h.self_name) == R.waitingReply for t in st.targets) and isinstance(st.value, (ast.Dict, ast.Call)) \
                and not (isinstance(st.value, ast.Dict) and st.value.keys):
            return ('swept',)
        for c in [x for x in ast.walk(st) if isinstance(x, ast.Call)]:
            if isinstance(c.func, ast.Attribute) and c.func.attr == 'clear' and P.self_attr(c.func.value, h.self_name) == R.waitingReply:
                return ('swept',)
            # ... or by a sweep method of the class
            r = P.resolve_call(h, c)
            if any(t in sweeps for t in r.targets):
                return ('swept',)
        return ()
    regs = U.regions(ctx)['append_entries']
    lit = ex.edge_literal(cfg.nodes[regs[0][0]], True)
    init = frozenset([lit] if lit is not None else [])
    res = ex.run(start=entry, init=init, track=ev, stop=[n.id for n in adopt], follow_exc=False)
    for n in adopt:
        inst = 'leader adopted at `%s`' % unparse(n.ast)
        same = ('eq', ex.tb.term(U.parse_expr('self.%s' % R.leaderPtr)), ex.tb.term(ast.Name(id=sender, ctx=ast.Load())))
        bad = None
        cnt_states = 0
        for fs, cnt in res.cstates.get(n.id, ()):
            cnt_states += 1
            ctx.tick()
            if dict(cnt).get('swept', 0) >= 1:
                continue
            if oracle.entails(fs, same):
                continue
            bad = fs
            break
        if bad is not None:
            ctx.violation('%s:leader-adopted-without-sweep' % h.qualname, h.loc(n.ast),
                          'the node starts following `%s` on a path where the leader pointer may have named another node (or none) and the requests waiting for the old '
                          'leader\'s reply were not failed: a forwarded request whose reply was lost never gets its callback: %s' % (sender, res.path_str(n.id, bad)),
                          instance=inst)
        elif cnt_states:
            ctx.ok(inst, h.loc(n.ast), '%d path classes: the pointer already named the sender, or the waiting-reply table was swept' % cnt_states)
        else:
            ctx.unproven(inst, h.loc(n.ast), 'assignment not reached in the exploration')
    ctx.expect_min(1)
