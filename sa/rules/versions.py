"""Code-version rules (C17), thread-safety rules (C19), transport attribution rules (C14)."""
import ast
from . import rule
from .. import util as U
from ..pyir import AnalysisError, unparse
from .. import oracle
from . import wire as _wire
from .snapshot import rebuild_func
from .wire import decorator_inner


# ----------------------------------------------------------------------------- C17
@rule('R-id-order', 'method ids are assigned by enumerating a plain sorted() of (version, consumer ordinal, name, ...) tuples, '
                    'consecutively from 0; nothing else writes the id tables')
def r_id_order(ctx):
    P, R = ctx.P, ctx.R
    init = R.init
    sn = init.self_name
    # the loop assigning ids: writes self.<idToMethod>[k] = ...
    loop = None
    for n in ast.walk(init.node):
        if isinstance(n, ast.For) and any(isinstance(x, ast.Assign) and isinstance(x.targets[0], ast.Subscript) and P.self_attr(x.targets[0].value, sn) == R.idToMethod for x in ast.walk(n)):
            loop = n
    ctx.require(loop is not None, 'id assignment loop not found in SyncObj.__init__')
    inst = 'ids assigned in plain sorted() order of the collected tuples'
    ctx.tick()
    it = loop.iter
    enum_idx = None
    if isinstance(it, ast.Call) and isinstance(it.func, ast.Name) and it.func.id == 'enumerate' and len(it.args) == 1 and not it.keywords \
            and isinstance(loop.target, ast.Tuple) and len(loop.target.elts) == 2 and isinstance(loop.target.elts[0], ast.Name):
        # `for id, (..) in enumerate(sorted(X))`: the id is the position in the sorted list
        enum_idx = loop.target.elts[0].id
        it = it.args[0]
    ok_sorted = isinstance(it, ast.Call) and isinstance(it.func, ast.Name) and it.func.id == 'sorted' and len(it.args) == 1 and not it.keywords and isinstance(it.args[0], ast.Name)
    if not ok_sorted and isinstance(it, ast.Name):
        # in-place form: X.sort() (no key / reverse) as a top-level statement before the loop
        sorts = [x for x in init.node.body if isinstance(x, ast.Expr) and isinstance(x.value, ast.Call) and isinstance(x.value.func, ast.Attribute) and x.value.func.attr == 'sort'
                 and isinstance(x.value.func.value, ast.Name) and x.value.func.value.id == it.id and not x.value.args and not x.value.keywords and x.lineno < loop.lineno]
        later_appends = [c for c in ast.walk(init.node) if isinstance(c, ast.Call) and isinstance(c.func, ast.Attribute) and c.func.attr == 'append' and isinstance(c.func.value, ast.Name)
                         and c.func.value.id == it.id and sorts and c.lineno > sorts[-1].lineno]
        if sorts and not later_appends:
            ok_sorted = True
            it = ast.Call(func=ast.Name(id='sorted', ctx=ast.Load()), args=[it], keywords=[])
    if not ok_sorted:
        ctx.violation('SyncObj.__init__:id-order-not-sorted', init.loc(loop), 'method ids are assigned while iterating `%s`, not a plain sorted() of the collected tuples '
                      '(any other order lets a newly added method renumber existing ones)' % unparse(it), instance=inst)
        ctx.expect_min(1)
        return
    ctx.ok(inst, init.loc(loop), unparse(it))
    lst = it.args[0].id
    # every append to the list: tuple (ver, ordinal, name, obj) with ver from getattr(.., 'ver')
    # the list may be a copy of another local (the value a collecting helper handed back)
    lists = {lst}
    grew = True
    while grew:
        grew = False
        for d in ast.walk(init.node):
            if isinstance(d, ast.Assign) and len(d.targets) == 1 and isinstance(d.targets[0], ast.Name) and d.targets[0].id in lists and isinstance(d.value, ast.Name) and d.value.id not in lists:
                lists.add(d.value.id)
                grew = True

    def _tuples_of(e):
        if isinstance(e, ast.Tuple):
            return [e]
        if isinstance(e, (ast.ListComp, ast.GeneratorExp)):
            return _tuples_of(e.elt)
        if isinstance(e, ast.List):
            return [t_ for x in e.elts for t_ in _tuples_of(x)]
        return []

    class _App(object):
        # one place where tuples enter the list: args[0] is the tuple, like the argument of an append call
        def __init__(self, t_, site):
            self.args = [t_]
            self.lineno = getattr(site, 'lineno', 0)
            self.site = site
    apps = []
    for c in ast.walk(init.node):
        if isinstance(c, ast.Call) and isinstance(c.func, ast.Attribute) and isinstance(c.func.value, ast.Name) and c.func.value.id in lists and c.args:
            if c.func.attr == 'append':
                apps.append(_App(c.args[0], c))
            elif c.func.attr == 'extend':
                apps += [_App(t_, c) for t_ in _tuples_of(c.args[0])]
        elif isinstance(c, ast.Assign) and len(c.targets) == 1 and isinstance(c.targets[0], ast.Name) and c.targets[0].id in lists:
            apps += [_App(t_, c) for t_ in _tuples_of(c.value)]
        elif isinstance(c, ast.AugAssign) and isinstance(c.target, ast.Name) and c.target.id in lists:
            apps += [_App(t_, c) for t_ in _tuples_of(c.value)]
    ctx.require(len(apps) >= 2, 'collection of versioned methods (self and consumers) not found')
    ordinals = []
    for c in apps:
        inst = 'collected tuple `%s` is keyed by version first' % unparse(c.args[0])
        ctx.tick()
        t = c.args[0]

        def _is_ver(e):
            return isinstance(e, ast.Call) and unparse(e.func) == 'getattr' and len(e.args) == 2 and isinstance(e.args[1], ast.Constant) and e.args[1].value == 'ver'
        okv = isinstance(t, ast.Tuple) and len(t.elts) >= 3 and (isinstance(t.elts[0], ast.Name) or _is_ver(t.elts[0]))
        if okv and isinstance(t.elts[0], ast.Name):
            vname = t.elts[0].id
            defs = [d for d in ast.walk(init.node) if isinstance(d, ast.Assign) and isinstance(d.targets[0], ast.Name) and d.targets[0].id == vname and U.ordr(init, d) < U.ordr(init, c.site)]
            d = max(defs, key=lambda x: U.ordr(init, x)) if defs else None
            okv = d is not None and _is_ver(d.value)
        if okv:
            ctx.ok(inst, init.loc(c.site), 'first component is the method\'s `ver` attribute')
            ordinals.append(t.elts[1])
        else:
            ctx.violation('SyncObj.__init__:id-tuple-not-version-first', init.loc(c.site), 'the sort key `%s` does not start with the method\'s version: adding a method with a '
                          'higher version can renumber existing methods' % unparse(t), instance=inst)
    # ordinals: constant for self, enumerate-derived and distinct from it for consumers
    inst = 'consumer ordinal separates the object from its consumers deterministically'
    ctx.tick()
    consts = [o for o in ordinals if isinstance(o, ast.Constant)]
    derived = [o for o in ordinals if not isinstance(o, ast.Constant)]
    okc = len(consts) == 1 and len(derived) >= 1
    if okc:
        enum_vars = set()
        for n in ast.walk(init.node):
            if isinstance(n, ast.For) and isinstance(n.iter, ast.Call) and unparse(n.iter.func) == 'enumerate' and isinstance(n.target, ast.Tuple):
                enum_vars.add(n.target.elts[0].id)
        for o in derived:
            names = set(x.id for x in ast.walk(o) if isinstance(x, ast.Name))
            if not (names & enum_vars):
                okc = False
            # distinct from the constant of self: enumerate starts at 0, so the expression must add >= 1 when the constant is 0
            if isinstance(o, ast.BinOp) and isinstance(o.op, ast.Add) and isinstance(o.right, ast.Constant):
                if consts[0].value >= o.right.value:
                    okc = False
            elif consts[0].value >= 0:
                okc = False
    if okc:
        ctx.ok(inst, init.loc(apps[0].site), 'self: %s, consumers: %s' % (unparse(consts[0]), unparse(derived[0])))
    else:
        ctx.violation('SyncObj.__init__:consumer-ordinal', init.loc(apps[0].site), 'consumer ordinals %s do not separate consumers from the object itself deterministically'
                      % [unparse(o) for o in ordinals], instance=inst)
    # ids consecutive from 0
    inst = 'ids are consecutive from 0, one per method'
    ctx.tick()
    idvar = None
    for x in ast.walk(loop):
        if isinstance(x, ast.Assign) and isinstance(x.targets[0], ast.Subscript) and P.self_attr(x.targets[0].value, sn) == R.idToMethod:
            idvar = unparse(x.targets[0].slice)
    incs = [x for x in ast.walk(loop) if isinstance(x, ast.AugAssign) and unparse(x.target) == idvar]
    init0 = [d for d in ast.walk(init.node) if isinstance(d, ast.Assign) and unparse(d.targets[0]) == idvar and U.ordr(init, d) < U.ordr(init, loop)]
    direct = [x for x in loop.body if x in incs]
    if enum_idx is not None and idvar == enum_idx and not incs and not any(isinstance(x, ast.Name) and x.id == enum_idx and isinstance(x.ctx, ast.Store) for st_ in loop.body for x in ast.walk(st_)):
        ctx.ok(inst, init.loc(loop), 'the id is the enumerate() position in the sorted list')
    elif idvar and len(incs) == 1 and direct and isinstance(incs[0].op, ast.Add) and isinstance(incs[0].value, ast.Constant) and incs[0].value.value == 1 \
            and init0 and isinstance(init0[-1].value, ast.Constant) and init0[-1].value.value == 0:
        ctx.ok(inst, init.loc(incs[0]), '%s = 0; ... %s += 1 once per iteration' % (idvar, idvar))
    else:
        ctx.violation('SyncObj.__init__:id-sequence', init.loc(loop), 'the id counter is not initialised to 0 and incremented by exactly 1 per method', instance=inst)
    # method -> id and id -> method use the same id and method
    inst = 'both id tables are filled from the same (id, method)'
    ctx.tick()
    m2i = [x for x in ast.walk(loop) if isinstance(x, ast.Assign) and isinstance(x.targets[0], ast.Subscript) and P.self_attr(x.targets[0].value, sn) and P.self_attr(x.targets[0].value, sn) != R.idToMethod]
    if m2i and all(unparse(x.value) == idvar for x in m2i):
        ctx.ok(inst, init.loc(m2i[0]), '')
    else:
        ctx.violation('SyncObj.__init__:id-tables-disagree', init.loc(loop), 'the name->id table is not filled with the id used for id->method', instance=inst)
    # nothing else writes the id tables
    tables = {R.idToMethod} | set(P.self_attr(x.targets[0].value, sn) for x in m2i)
    for f in P.methods_of(R.S):
        if f is init:
            continue
        for a in P.accesses(f):
            if a.attr in tables and a.kind in ('write', 'elem_write', 'elem_del', 'mutcall', 'del'):
                ctx.violation('%s:writes-id-table-%s' % (f.qualname, a.attr), f.loc(a.node), 'the method id table self.%s is modified after construction' % a.attr, instance='id tables written only by the constructor')
    ctx.tick()
    ctx.ok('id tables written only by the constructor', init.loc(), 'tables %s' % sorted(tables))
    ctx.expect_min(6)


def _name_expr_shape(e):
    """X + '_v' + str(Y) -> ('_v',) if the expression has that shape"""
    if isinstance(e, ast.BinOp) and isinstance(e.op, ast.Add) and isinstance(e.right, ast.Call) and unparse(e.right.func) == 'str' \
            and isinstance(e.left, ast.BinOp) and isinstance(e.left.op, ast.Add) and isinstance(e.left.right, ast.Constant) and isinstance(e.left.right.value, str):
        return e.left.right.value
    return None


@rule('R-name-format', 'the decorators register versioned implementations under the same name format the resolver looks up, '
                       'and both decorators mark their wrappers with the same attribute triple')
def r_name_format(ctx):
    P, R = ctx.P, ctx.R
    rebuild, table = rebuild_func(ctx)
    res_shapes = []
    for n in ast.walk(rebuild.node):
        if isinstance(n, ast.Assign) and isinstance(n.targets[0], ast.Subscript):
            sep = _name_expr_shape(n.value)
            if sep is not None:
                res_shapes.append((sep, n))
    ctx.require(res_shapes, 'resolver no longer builds names as <name> + <sep> + str(<version>)')
    seps = {}
    triples = {}
    for dn in ('replicated', 'replicated_sync'):
        dec, wrap = decorator_inner(ctx, dn)
        outer = wrap.parent
        sep = None
        for n in ast.walk(outer.node):
            if isinstance(n, ast.Assign):
                s_ = _name_expr_shape(n.value)
                if s_ is not None:
                    sep = s_
                    # version component comes from the 'ver' mark
                    if "'ver'" not in unparse(n.value.right) and 'ver' not in unparse(n.value.right):
                        sep = None
        seps[dn] = sep
        keys = set()
        for n in ast.walk(outer.node):
            if isinstance(n, ast.Assign) and isinstance(n.targets[0], ast.Subscript) and isinstance(n.targets[0].slice, ast.Constant) and isinstance(n.targets[0].value, ast.Name):
                keys.add(n.targets[0].slice.value)
        triples[dn] = keys
    inst = 'registration name format = lookup name format'
    ctx.tick()
    if set(seps.values()) == {res_shapes[0][0]}:
        ctx.ok(inst, rebuild.loc(res_shapes[0][1]), '<name> + %r + str(<version>) in both decorators and the resolver' % res_shapes[0][0])
    else:
        ctx.violation('SyncObj:versioned-name-format-differs', rebuild.loc(res_shapes[0][1]), 'the resolver uses separator %r, the decorators %s' % (res_shapes[0][0], seps), instance=inst)
    inst = 'both decorators set replicated / ver / origName'
    ctx.tick()
    need = {'replicated', 'ver', 'origName'}
    if all(need <= t for t in triples.values()):
        ctx.ok(inst, '', '')
    else:
        ctx.violation('syncobj:decorator-marks-differ', '', 'decorators set %s, required %s' % (triples, sorted(need)), instance=inst)
    # the marks read by the constructor / resolver are exactly those
    read = set()
    for f in (R.init, rebuild):
        for n in ast.walk(f.node):
            if isinstance(n, ast.Call) and unparse(n.func) == 'getattr' and len(n.args) >= 2 and isinstance(n.args[1], ast.Constant) and isinstance(n.args[1].value, str):
                read.add(n.args[1].value)
    inst = 'marks read by the constructor and resolver are set by the decorators'
    ctx.tick()
    miss = (read & {'replicated', 'ver', 'origName', 'version', 'orig_name'}) - need
    if miss:
        ctx.violation('SyncObj:reads-unset-mark', '', 'marks %s are read but never set by the decorators' % sorted(miss), instance=inst)
    else:
        ctx.ok(inst, '', 'reads %s' % sorted(read & need))
    ctx.expect_min(3)


@rule('R-setversion-guards', 'setCodeVersion refuses versions above the node\'s own code version and below the enabled one '
                             'before anything is enqueued')
def r_setversion_guards(ctx):
    P, R = ctx.P, ctx.R
    f = P.lookup_method(R.S, 'setCodeVersion')
    ctx.require(f is not None, 'setCodeVersion gone')
    ex = U.explorer(ctx, f)
    res = U.full_run(ctx, f)
    nv = f.params[1]
    calls = [c for c in P.calls_in(f) if isinstance(c.func, ast.Attribute) and c.func.attr == '_applyCommand']
    ctx.require(calls, 'setCodeVersion does not enqueue a command')
    # own code version attribute: the one the public status reports as 'self_code_version'
    own = None
    gs = P.lookup_method(R.S, 'getStatus')
    if gs is not None:
        for n in ast.walk(gs.node):
            if isinstance(n, ast.Assign) and isinstance(n.targets[0], ast.Subscript) and isinstance(n.targets[0].slice, ast.Constant) \
                    and n.targets[0].slice.value == 'self_code_version':
                own = P.self_attr(n.value, gs.self_name)
    ctx.require(own, 'own code version attribute not found (getStatus no longer reports self_code_version)')
    n = U.node_containing(ex.cfg, calls[0])
    nvt = ex.tb.term(ast.Name(id=nv, ctx=ast.Load()))
    for nm, g in (('not above own code version', ('le', nvt, ex.tb.term(U.parse_expr('self.%s' % own)))),
                  ('not below the enabled version', ('le', ex.tb.term(U.parse_expr('self.%s' % R.enabledVersion)), nvt))):
        ok, cex = U.must(ctx, res, n.id, g)
        inst = 'version switch request %s' % nm
        if ok:
            ctx.ok(inst, f.loc(calls[0]), 'entailed at the enqueue')
        else:
            ctx.violation('SyncObj.setCodeVersion:%s' % nm.replace(' ', '-'), f.loc(calls[0]), 'a version switch can be enqueued although the requested version is %s'
                          % ('above what this node implements' if 'own' in nm else 'below the enabled one'), instance=inst)
    # the enqueued payload is the requested version
    inst = 'the enqueued command carries the requested version'
    ctx.tick()
    if any(isinstance(x, ast.Name) and x.id == nv for x in ast.walk(calls[0].args[0])):
        ctx.ok(inst, f.loc(calls[0]), '')
    else:
        ctx.violation('SyncObj.setCodeVersion:payload', f.loc(calls[0]), 'the enqueued VERSION command does not carry the requested version', instance=inst)
    ctx.expect_min(3)


@rule('R-version-select', 'for every method name the resolver picks the newest implementation whose version is not above the '
                          'requested one: assignment inside an ascending loop that is left at the first larger version')
def r_version_select(ctx):
    P, R = ctx.P, ctx.R
    rebuild, table = rebuild_func(ctx)
    ex = U.explorer(ctx, rebuild)
    res = U.full_run(ctx, rebuild)
    req = rebuild.params[1]
    writes = [n for n in ast.walk(rebuild.node) if isinstance(n, ast.Assign) and isinstance(n.targets[0], ast.Subscript) and _name_expr_shape(n.value) is not None]
    ctx.require(writes, 'resolver assignment not found')
    for w in writes:
        n = U.node_containing(ex.cfg, w)
        vexpr = w.value.right.args[0]
        vt = ex.tb.term(vexpr)
        inst = 'selected version <= requested version'
        ok, cex = U.must(ctx, res, n.id, ('le', vt, ex.tb.term(ast.Name(id=req, ctx=ast.Load()))))
        if ok:
            ctx.ok(inst, rebuild.loc(w), '%s <= %s entailed at the assignment' % (vt.key, req))
        else:
            ctx.violation('%s:selects-version-above-requested' % rebuild.qualname, rebuild.loc(w), 'an implementation can be selected although its version exceeds the requested one: %s'
                          % res.path_str(n.id, cex), instance=inst)
        # ascending iteration: loop over sorted(...) of the versions
        loops = [p for p in n.parents if isinstance(p, ast.For) and isinstance(p.target, ast.Name) and p.target.id == unparse(vexpr)]
        inst = 'versions are visited in ascending order'
        ctx.tick()
        okl = False
        if loops:
            it = loops[-1].iter
            if isinstance(it, ast.Name):
                defs = [d for d in ast.walk(rebuild.node) if isinstance(d, ast.Assign) and isinstance(d.targets[0], ast.Name) and d.targets[0].id == it.id and d.lineno <= loops[-1].lineno]
                it = max(defs, key=lambda d: d.lineno).value if defs else it
            okl = isinstance(it, ast.Call) and unparse(it.func) == 'sorted' and not any(k.arg == 'reverse' for k in it.keywords)
        if okl:
            ctx.ok(inst, rebuild.loc(loops[-1]), 'loop over sorted(versions): the last assignment is the newest eligible version')
        else:
            ctx.violation('%s:version-order' % rebuild.qualname, rebuild.loc(w), 'versions are not visited in ascending order: the selected implementation is not the newest eligible one', instance=inst)
        # the exit at the first larger version is a break (not continue/return that skips other names)
    ctx.expect_min(2)


@rule('R-version-apply', 'applying a VERSION command first refuses an unsupported version (raising the stop-applying '
                         'exception), only then switches the enabled version')
def r_version_apply(ctx):
    P, R = ctx.P, ctx.R
    d = R.dispatcher
    ex = U.explorer(ctx, d)
    res = U.full_run(ctx, d)
    cfg = ex.cfg
    writes = U.assigns_to_attr(P, d, R.enabledVersion)
    ctx.require(writes, 'the dispatcher no longer switches the enabled version')
    for st, kind in writes:
        n = U.node_containing(cfg, st)
        inst = 'enabled version switched only to a supported version'
        # own code version: attribute compared in a raise-guard
        vt = ex.tb.term(st.value)
        ok = False
        for fs in res.facts_at(n.id):
            ok = any(l[0] in ('le', 'lt') and l[1].key == vt.key and l[2].key.startswith('self.') and l[2].key != 'self.' + R.enabledVersion for l in fs)
            if not ok:
                break
        ctx.tick()
        if ok:
            ctx.ok(inst, d.loc(st), 'new version <= own code version entailed (the unsupported case raised before)')
        else:
            ctx.violation('%s:switches-to-unsupported-version' % d.qualname, d.loc(st), 'the enabled version can be set to a version this node does not implement', instance=inst)
        # under VERSION command type
        ok2 = all(any(l[0] == 'eq' and any(t.key == '_COMMAND_TYPE.VERSION' for t in (l[1], l[2])) for l in fs) for fs in res.facts_at(n.id)) and bool(res.facts_at(n.id))
        inst = 'enabled version switched only by a VERSION command'
        ctx.tick()
        if ok2:
            ctx.ok(inst, d.loc(st), '')
        else:
            ctx.violation('%s:version-switch-by-other-command' % d.qualname, d.loc(st), 'the enabled version is changed while applying a command that is not of type VERSION', instance=inst)
    # the refusal raises the exception the apply step handles by stopping
    inst = 'unsupported version raises the stop-applying exception'
    ctx.tick()
    raises = [n for n in cfg.nodes if n.kind == 'stmt' and isinstance(n.ast, ast.Raise)]
    step_handlers = [unparse(h.type) for n in ast.walk(R.apply_step.node) if isinstance(n, ast.Try) for h in n.handlers if h.type is not None]
    if raises and any(unparse(r.ast.exc.func if isinstance(r.ast.exc, ast.Call) else r.ast.exc) in step_handlers for r in raises):
        ctx.ok(inst, d.loc(raises[0].ast), 'raised type is handled in the apply step: %s' % step_handlers)
    else:
        ctx.violation('%s:unsupported-version-not-signalled' % d.qualname, d.loc(), 'no exception handled by the apply step is raised for an unsupported version', instance=inst)
    ctx.expect_min(3)


# ----------------------------------------------------------------------------- C19
@rule('R-caller-footprint', 'code run on application threads (the replicated wrappers, _applyCommand, _getFuncName) writes no '
                            'protocol state: only the locked command queue and the wake-up pipe')
def r_caller_footprint(ctx):
    P, R = ctx.P, ctx.R
    ac = P.lookup_method(R.S, '_applyCommand')
    gf = P.lookup_method(R.S, '_getFuncName')
    ctx.require(ac and gf, '_applyCommand / _getFuncName gone')
    allowed = {'A:' + R.commandQueue, 'A:__pipeNotifier', 'A:' + R.transport}
    for f in (ac, gf):
        w = P.writes(f)
        inst = '%s footprint' % f.qualname
        ctx.tick()
        extra = w - allowed
        if extra:
            ctx.violation('%s:caller-thread-writes-%s' % (f.qualname, '+'.join(sorted(x[2:] for x in extra))), f.loc(),
                          'code that runs on application threads writes %s without synchronisation with the tick thread' % sorted(extra), instance=inst)
        else:
            ctx.ok(inst, f.loc(), 'writes %s' % sorted(w))
    # the wrappers themselves write nothing on self
    for dn in ('replicated', 'replicated_sync'):
        dec, wrap = decorator_inner(ctx, dn)
        inst = '%s wrapper footprint' % dn
        ctx.tick()
        bad = [n for n in ast.walk(wrap.node) if isinstance(n, (ast.Assign, ast.AugAssign)) and any(isinstance(t, ast.Attribute) and isinstance(t.value, ast.Name) and t.value.id == 'self'
                                                                                                 for t in (n.targets if isinstance(n, ast.Assign) else [n.target]))]
        if bad:
            ctx.violation('%s:wrapper-writes-self' % wrap.qualname, wrap.loc(bad[0]), 'the wrapper assigns attributes of the replicated object from the caller thread', instance=inst)
        else:
            ctx.ok(inst, wrap.loc(), 'no attribute of self assigned')
    # enqueue happens before the wake-up
    cfg = U.explorer(ctx, ac).cfg
    puts = [U.node_containing(cfg, c).id for c in P.calls_in(ac) if isinstance(c.func, ast.Attribute) and c.func.attr == 'put_nowait']
    notes = [U.node_containing(cfg, c).id for c in P.calls_in(ac) if isinstance(c.func, ast.Attribute) and c.func.attr == 'notify']
    inst = 'command enqueued before the tick thread is woken'
    ctx.tick()
    if puts and notes and all(n not in cfg.reachable_from(cfg.entry.id, avoid=puts) for n in notes):
        ctx.ok(inst, ac.loc(), 'notify unreachable without put_nowait')
    elif not notes:
        ctx.unproven(inst, ac.loc(), 'no wake-up call')
    else:
        ctx.violation('%s:wake-before-enqueue' % ac.qualname, ac.loc(), 'the tick thread can be woken before the command is in the queue (lost wake-up)', instance=inst)
    ctx.expect_min(4)


@rule('R-queue-locked', 'every access to the command queue\'s deque, and to the tick-callback list, happens under its lock')
def r_queue_locked(ctx):
    P, R = ctx.P, ctx.R
    fq = P.cls('FastQueue')
    init = fq.methods['__init__']
    dq = lock = None
    for n in ast.walk(init.node):
        if isinstance(n, ast.Assign):
            a = P.self_attr(n.targets[0], init.self_name)
            if a and 'deque' in unparse(n.value):
                dq = a
            elif a and 'Lock' in unparse(n.value):
                lock = a
    ctx.require(dq, 'FastQueue deque not found')
    if not lock:
        ctx.tick()
        ctx.violation('FastQueue:queue-without-lock', init.loc(), 'the command queue shared by caller threads and the tick thread has no lock: a length check and the following '
                      'append / pop are not atomic (an item can be lost or a refused item applied)', instance='the queue has a lock')
        ctx.expect_min(1)
        return

    def under_lock(m, node_ast, lock_attr):
        cfg = U.explorer(ctx, m).cfg
        for n in U.nodes_containing(cfg, node_ast):
            if any(isinstance(p, ast.With) and any(P.self_attr(i.context_expr, m.self_name) == lock_attr for i in p.items) for p in n.parents):
                return True
        return False
    n_acc = 0
    for m in P.methods_of(fq):
        if m is init:
            continue
        for a in P.accesses(m):
            if a.attr != dq:
                continue
            n_acc += 1
            inst = '%s: `%s` under the lock' % (m.qualname, unparse(a.node)[:50])
            ctx.tick()
            if under_lock(m, a.node, lock):
                ctx.ok(inst, m.loc(a.node), '')
            else:
                ctx.violation('%s:deque-access-unlocked' % m.qualname, m.loc(a.node), 'the queue\'s deque is accessed outside `with self.%s`' % lock, instance=inst)
    ctx.require(n_acc >= 4, 'deque accesses not found')
    # tick callback list
    lst = lk = None
    reg = P.lookup_method(R.S, 'addOnTickCallback')         # public registration API: appends to the list under the lock
    if reg is not None:
        for n in ast.walk(reg.node):
            if isinstance(n, ast.Call) and isinstance(n.func, ast.Attribute) and n.func.attr == 'append' and P.self_attr(n.func.value, reg.self_name):
                lst = P.self_attr(n.func.value, reg.self_name)
            if isinstance(n, ast.With):
                for it in n.items:
                    if P.self_attr(it.context_expr, reg.self_name):
                        lk = P.self_attr(it.context_expr, reg.self_name)
    if lst and lk:
        for m in P.methods_of(R.S):
            if m is R.init:
                continue
            for a in P.accesses(m):
                if a.attr != lst:
                    continue
                inst = '%s: tick-callback list under its lock' % m.qualname
                ctx.tick()
                if under_lock(m, a.node, lk):
                    ctx.ok(inst, m.loc(a.node), '')
                else:
                    ctx.violation('%s:tick-callbacks-unlocked' % m.qualname, m.loc(a.node), 'the tick-callback list is accessed outside its lock', instance=inst)
    ctx.expect_min(5)


@rule('R-result-publish', 'a synchronous call waits on its own result object: created per call, result and error stored before '
                          'the event is set, read only after the wait succeeded; a timed-out wait raises')
def r_result_publish(ctx):
    P, R = ctx.P, ctx.R
    ar = P.cls('AsyncResult')
    on = ar.methods.get('onResult')
    ctx.require(on is not None, 'AsyncResult.onResult gone')
    cfg = U.explorer(ctx, on).cfg
    stores = [n.id for n in cfg.nodes if n.kind == 'stmt' and isinstance(n.ast, ast.Assign) and P.self_attr(n.ast.targets[0], on.self_name) in ('result', 'error')]
    sets = [n for n in cfg.nodes if n.kind == 'stmt' and any(isinstance(c, ast.Call) and isinstance(c.func, ast.Attribute) and c.func.attr == 'set' for c in ast.walk(n.ast))]
    inst = 'result and error stored before the event is set'
    ctx.tick()
    if len(stores) == 2 and sets and all(s.id not in cfg.reachable_from(cfg.entry.id, avoid=[x]) for s in sets for x in stores):
        ctx.ok(inst, on.loc(), '')
    else:
        ctx.violation('AsyncResult.onResult:set-before-store', on.loc(), 'the event can be set before result/error are stored (the waiter reads stale values)', instance=inst)
    # both values come from the callback parameters in order
    inst = 'onResult stores (res, err) from its parameters'
    ctx.tick()
    vals = dict((P.self_attr(n.targets[0], on.self_name), unparse(n.value)) for n in ast.walk(on.node) if isinstance(n, ast.Assign) and P.self_attr(n.targets[0], on.self_name))
    if vals.get('result') == on.params[1] and vals.get('error') == on.params[2]:
        ctx.ok(inst, on.loc(), '')
    else:
        ctx.violation('AsyncResult.onResult:parameter-mapping', on.loc(), 'result/error are stored from %s' % vals, instance=inst)
    dec, wrap = decorator_inner(ctx, 'replicated')
    wcfg = U.explorer(ctx, wrap).cfg
    creates = [n for n in wcfg.nodes if n.kind == 'stmt' and isinstance(n.ast, ast.Assign) and isinstance(n.ast.value, ast.Call) and unparse(n.ast.value.func) == 'AsyncResult']
    inst = 'result object created per call, inside the wrapper'
    ctx.tick()
    if creates and isinstance(creates[0].ast.targets[0], ast.Name):
        ctx.ok(inst, wrap.loc(creates[0].ast), 'local `%s`' % creates[0].ast.targets[0].id)
        rv = creates[0].ast.targets[0].id
    else:
        ctx.violation('%s:shared-result-object' % wrap.qualname, wrap.loc(), 'the result object of a synchronous call is not a fresh local of the call', instance=inst)
        ctx.expect_min(3)
        return
    waits = [n for n in wcfg.nodes if n.kind == 'stmt' and any(isinstance(c, ast.Call) and isinstance(c.func, ast.Attribute) and c.func.attr == 'wait' for c in ast.walk(n.ast))]
    reads = [n for n in wcfg.nodes if n.kind in ('stmt', 'cond') and n.ast is not None and any(isinstance(x, ast.Attribute) and x.attr in ('result', 'error') and isinstance(x.value, ast.Name) and x.value.id == rv for x in ast.walk(n.ast))]
    inst = 'result read only after the wait'
    ctx.tick()
    if waits and reads and all(r.id not in wcfg.reachable_from(wcfg.entry.id, avoid=[w.id for w in waits]) for r in reads):
        ctx.ok(inst, wrap.loc(waits[0].ast), '%d reads dominated by event.wait()' % len(reads))
    else:
        ctx.violation('%s:result-read-before-wait' % wrap.qualname, wrap.loc(), 'result/error of a synchronous call can be read before the wait returned', instance=inst)
    # timed-out wait raises; error != SUCCESS raises; callback registered is this object's onResult
    inst = 'a timed-out wait raises instead of returning'
    ex = U.explorer(ctx, wrap)
    res = U.full_run(ctx, wrap)
    rets = [n for n in wcfg.nodes if n.kind == 'stmt' and isinstance(n.ast, ast.Return) and n.ast.value is not None and rv in unparse(n.ast.value)]
    ctx.tick()
    wv = None
    if waits and isinstance(waits[0].ast, ast.Assign):
        wv = waits[0].ast.targets[0].id
    okr = bool(rets) and wv is not None
    for r in rets:
        for fs in res.facts_at(r.id):
            if not any(l[0] == 'truthy' and l[2] and l[1].key == wv for l in fs):
                okr = False
            if not any(l[0] == 'eq' and any(t.key == '%s.error' % rv for t in (l[1], l[2])) and any(t.const is not None and t.const[0] == 0 for t in (l[1], l[2])) for l in fs):
                okr = False
    if okr:
        ctx.ok(inst, wrap.loc(rets[0].ast), 'the result is returned only when wait() was true and error == SUCCESS (0)')
    else:
        ctx.violation('%s:sync-return-unguarded' % wrap.qualname, wrap.loc(rets[0].ast) if rets else wrap.loc(), 'a synchronous call can return a result although the wait timed out or the command failed', instance=inst)
    inst = 'the registered callback is this call\'s onResult'
    ctx.tick()
    cbs = [n for n in ast.walk(wrap.node) if isinstance(n, ast.Assign) and isinstance(n.value, ast.Attribute) and n.value.attr == 'onResult' and isinstance(n.value.value, ast.Name) and n.value.value.id == rv]
    if cbs:
        ctx.ok(inst, wrap.loc(cbs[0]), unparse(cbs[0]))
    else:
        ctx.violation('%s:callback-not-own-result' % wrap.qualname, wrap.loc(), 'the callback of a synchronous call is not the onResult of its own result object', instance=inst)
    ctx.expect_min(6)


@rule('R-atomic-publish', 'tables read on application threads and rebuilt on the tick thread are published by a single '
                          'assignment of a completely built value')
def r_atomic_publish(ctx):
    P, R = ctx.P, ctx.R
    rebuild, table = rebuild_func(ctx)
    # attributes read in caller-thread code
    gf = P.lookup_method(R.S, '_getFuncName')
    shared = set(a.attr for a in P.accesses(gf) if a.kind == 'read') | {R.idToMethod}
    dec, wrap = decorator_inner(ctx, 'replicated')
    for n in ast.walk(wrap.node):
        if isinstance(n, ast.Attribute) and isinstance(n.value, ast.Name) and n.value.id == 'self' and n.attr.startswith('_') and not n.attr.startswith('__'):
            if n.attr in ('_methodToID',):
                shared.add(n.attr)
    n_chk = 0
    for attr in sorted(shared):
        for f in P.methods_of(R.S):
            if f.name == '__init__':
                continue
            for a in P.accesses(f):
                if a.attr != attr or a.kind == 'read' or a.kind == 'call':
                    continue
                n_chk += 1
                inst = '%s: `%s`' % (f.qualname, unparse(a.node)[:60])
                ctx.tick()
                if a.kind == 'write' and isinstance(a.node, ast.Assign) and isinstance(a.node.value, ast.Name):
                    # published local: fully built before (no element writes to the local after the publish)
                    lv = a.node.value.id
                    later = [x for x in ast.walk(f.node) if isinstance(x, ast.Assign) and isinstance(x.targets[0], ast.Subscript) and isinstance(x.targets[0].value, ast.Name)
                             and x.targets[0].value.id == lv and x.lineno > a.node.lineno]
                    if later:
                        ctx.violation('%s:table-filled-after-publish' % f.qualname, f.loc(later[0]), 'the published table `%s` is still being filled after it was assigned to self.%s' % (lv, attr), instance=inst)
                    else:
                        ctx.ok(inst, f.loc(a.node), 'single assignment of a locally built table')
                else:
                    ctx.violation('%s:table-published-empty-then-filled' % f.qualname if a.kind in ('elem_write', 'write') else '%s:shared-table-mutated' % f.qualname, f.loc(a.node),
                                  'self.%s is read by application threads (%s) but is modified in place / assigned an unfinished value on the tick thread: a concurrent call can see a '
                                  'half-built table' % (attr, gf.qualname), instance=inst)
    ctx.require(n_chk >= 1, 'no tick-thread writer of a caller-read table found')
    ctx.expect_min(1)


# ----------------------------------------------------------------------------- C14
def transport_parts(ctx):
    """TCPTransport and its internal roles, found by what the methods do (their private names are free to change):
    incoming = the handshake handler (compares its message with 'readonly'); on_disc = the method bound with
    setOnDisconnectedCallback; dial = the method that calls <connection>.connect(..); should_connect = the predicate
    comparing the two endpoint addresses"""
    P = ctx.P
    T = P.cls('TCPTransport')
    cached = T.__dict__.get('roles')
    if cached:
        return T
    for nm in ('dropNode', 'addNode', 'send'):          # public Transport interface
        if nm not in T.methods:
            raise AnalysisError('TCPTransport.%s gone' % nm)
    roles = {}
    for m in P.methods_of(T):
        sn = m.self_name
        for n in ast.walk(m.node):
            if isinstance(n, ast.Compare) and len(n.ops) == 1:
                sides = [n.left, n.comparators[0]]
                if len(m.params) >= 3 and any(isinstance(x, ast.Constant) and x.value == 'readonly' for x in sides) \
                        and any(isinstance(x, ast.Name) and x.id == m.params[-1] for x in sides):
                    roles.setdefault('incoming', m)
                if all(isinstance(x, ast.Attribute) and x.attr == 'address' for x in sides):
                    roles.setdefault('should_connect', m)
            if isinstance(n, ast.Call) and isinstance(n.func, ast.Attribute):
                if n.func.attr == 'connect' and len(n.args) == 2 and not P.self_attr(n.func, sn):
                    roles.setdefault('dial', m)
                if n.func.attr == 'setOnDisconnectedCallback' and n.args:
                    a = n.args[0]
                    if isinstance(a, ast.Call) and unparse(a.func).endswith('partial') and a.args:
                        a = a.args[0]
                    nm = P.self_attr(a, sn)
                    if nm and nm in T.methods:
                        roles.setdefault('on_disc', T.methods[nm])
    if 'incoming' not in roles:
        # fall back: a message callback bound with the connection object whose handler looks its message up in a table
        for m in P.methods_of(T):
            for n in ast.walk(m.node):
                if isinstance(n, ast.Call) and isinstance(n.func, ast.Attribute) and n.func.attr == 'setOnMessageReceivedCallback' and n.args \
                        and isinstance(n.args[0], ast.Call) and unparse(n.args[0].func).endswith('partial') and n.args[0].args:
                    nm = P.self_attr(n.args[0].args[0], m.self_name)
                    cand = T.methods.get(nm) if nm else None
                    if cand is not None and len(cand.params) >= 3 and (_keyed_tables(P, cand, cand.params[-1])
                                                                       or any(isinstance(x, ast.Constant) and x.value == 'readonly' for x in ast.walk(cand.node))):
                        roles.setdefault('incoming', cand)
    for k in ('incoming', 'should_connect', 'on_disc'):
        if k not in roles:
            raise AnalysisError('TCPTransport: role `%s` not found' % k)
    T.roles = roles
    return T


@rule('R-attribution', 'an incoming connection is bound to a member only after its first message named a known member (or '
                       '"readonly"); unknown peers are disconnected; the bound node is the looked-up object')
def r_attribution(ctx):
    P = ctx.P
    T = transport_parts(ctx)
    f = T.roles['incoming']
    ex = U.explorer(ctx, f)
    res = U.full_run(ctx, f)
    cfg = ex.cfg
    msg = f.params[2]
    binds = []
    for n in cfg.nodes:
        if n.kind == 'stmt' and n.ast is not None:
            for c in [x for x in ast.walk(n.ast) if isinstance(x, ast.Call)]:
                if isinstance(c.func, ast.Attribute) and c.func.attr == 'setOnMessageReceivedCallback' and c.args and isinstance(c.args[0], ast.Call) \
                        and unparse(c.args[0].func).endswith('partial') and any(unparse(a) == 'self._onMessageReceived' for a in c.args[0].args):
                    binds.append((n, c))
    ctx.require(binds, 'delivery callback binding not found')
    # lookup table: attribute subscripted with the message
    table = (_keyed_tables(P, f, msg) or [None])[-1]
    ctx.require(table, 'member lookup table not found')

    def is_table_get(e):
        return isinstance(e, ast.Call) and isinstance(e.func, ast.Attribute) and e.func.attr == 'get' and P.self_attr(e.func.value, f.self_name) == table \
            and e.args and unparse(e.args[0]) == msg and (len(e.args) == 1 or (isinstance(e.args[1], ast.Constant) and e.args[1].value is None))
    for n, c in binds:
        inst = 'delivery bound only for a known member or a read-only peer'
        bound = c.args[0].args[1] if len(c.args[0].args) > 1 else None
        g = ('or', ('opaque', '%s in self.%s' % (msg, table), True), ('eq', ex.tb.term(ast.Name(id=msg, ctx=ast.Load())), ex.tb.term(ast.Constant(value='readonly'))))
        ok, cex = True, None
        for fs in res.facts_at(n.id):
            ctx.tick()
            if oracle.entails(fs, g):
                continue
            # `node = table[message] if message in table else None` together with `node is not None` implies membership
            implied = False
            for l in fs:
                if l[0] == 'eq':
                    for a, b in ((l[1], l[2]), (l[2], l[1])):
                        e = b.node
                        if isinstance(e, ast.IfExp) and isinstance(e.orelse, ast.Constant) and e.orelse.value is None and isinstance(e.test, ast.Compare) \
                                and isinstance(e.test.ops[0], ast.In) and unparse(e.test.left) == msg and P.self_attr(e.test.comparators[0], f.self_name) == table \
                                and oracle.entails(fs, ('none', a, False)):
                            implied = True
                        # `node = table.get(message)` together with `node is not None`: the same
                        if is_table_get(e) and oracle.entails(fs, ('none', a, False)):
                            implied = True
            if not implied:
                ok, cex = False, fs
                break
        if ok:
            ctx.ok(inst, f.loc(c), 'on every path: message in member table, or message == "readonly"')
        else:
            ctx.violation('TCPTransport._onIncomingMessageReceived:binds-unknown-peer', f.loc(c),
                          'messages of an incoming connection are attributed to a node on a path where the peer named neither a known member nor "readonly": %s'
                          % res.path_str(n.id, cex), instance=inst)
        # the bound node: the looked-up object or the fresh read-only node, never message data
        inst = 'the bound node is the looked-up / freshly created node object'
        ctx.tick()
        if isinstance(bound, ast.Name) and bound.id != msg:
            def src_ok(name, seen=()):
                if name in seen:
                    return True
                vals = [d.value for d in ast.walk(f.node) if isinstance(d, ast.Assign) and isinstance(d.targets[0], ast.Name) and d.targets[0].id == name]
                # element-wise for `node, flag = (found, False)`
                for d in ast.walk(f.node):
                    if isinstance(d, ast.Assign) and isinstance(d.targets[0], (ast.Tuple, ast.List)) and isinstance(d.value, (ast.Tuple, ast.List)) \
                            and len(d.targets[0].elts) == len(d.value.elts):
                        for t_, v_ in zip(d.targets[0].elts, d.value.elts):
                            if isinstance(t_, ast.Name) and t_.id == name:
                                vals.append(v_)
                    elif isinstance(d, ast.Assign) and isinstance(d.targets[0], (ast.Tuple, ast.List)) and any(isinstance(t_, ast.Name) and t_.id == name for t_ in d.targets[0].elts):
                        return False
                if not vals:
                    return False
                for v in vals:
                    if isinstance(v, ast.Constant) and v.value is None:
                        continue
                    if isinstance(v, ast.Name) and v.id != msg and src_ok(v.id, seen + (name,)):
                        continue
                    if (isinstance(v, ast.IfExp) and any(P.self_attr(x, f.self_name) == table for x in ast.walk(v))) or \
                            (isinstance(v, ast.Call) and unparse(v.func) in ('Node', 'TCPNode')) or \
                            (isinstance(v, ast.Subscript) and P.self_attr(v.value, f.self_name) == table) or \
                            (isinstance(v, ast.Call) and isinstance(v.func, ast.Attribute) and v.func.attr == 'get' and P.self_attr(v.func.value, f.self_name) == table):
                        continue
                    return False
                return True
            okd = src_ok(bound.id)
            if okd:
                ctx.ok(inst, f.loc(c), '`%s` is defined only from the member table or Node(<counter>)' % bound.id)
            else:
                ctx.violation('TCPTransport._onIncomingMessageReceived:bound-node-source', f.loc(c), 'the node the connection is attributed to is not taken from the member table', instance=inst)
        else:
            ctx.violation('TCPTransport._onIncomingMessageReceived:bound-node-source', f.loc(c), 'the connection is attributed to `%s`' % (unparse(bound) if bound else '?'), instance=inst)
    # unknown peer: disconnect and return
    inst = 'unknown peer is disconnected'
    ctx.tick()
    disc = [n for n in cfg.nodes if n.kind == 'stmt' and any(isinstance(c, ast.Call) and isinstance(c.func, ast.Attribute) and c.func.attr == 'disconnect' for c in ast.walk(n.ast))]
    if disc:
        ctx.ok(inst, f.loc(disc[0].ast), '')
    else:
        ctx.violation('TCPTransport._onIncomingMessageReceived:unknown-peer-kept', f.loc(), 'an unknown peer is never disconnected', instance=inst)
    # ... and only an unknown peer: a member whose first message was recognised always gets its new connection registered (the old
    # one may be half-open: the acceptor cannot tell, so it must not prefer it)
    keyvars = set()
    for n in cfg.nodes:
        if n.kind == 'stmt' and isinstance(n.ast, ast.Assign) and isinstance(n.ast.targets[0], ast.Subscript) and P.self_attr(n.ast.targets[0].value, f.self_name) \
                and isinstance(n.ast.targets[0].slice, ast.Name) and isinstance(n.ast.value, ast.Name) and n.ast.value.id == f.params[1]:
            keyvars.add(n.ast.targets[0].slice.id)
    for n in disc:
        if not res.reached(n.id) or not keyvars:
            continue
        inst = 'an incoming connection is refused only for an unknown peer'
        ctx.tick()
        bad = None
        for fs in res.facts_at(n.id):
            if not any(oracle.entails(fs, ('none', ex.tb.term(ast.Name(id=k, ctx=ast.Load())), True)) for k in keyvars):
                bad = fs
        if bad is None:
            ctx.ok(inst, f.loc(n.ast), 'the looked-up node is None on every path to the disconnect')
        else:
            ctx.violation('TCPTransport._onIncomingMessageReceived:known-peer-refused', f.loc(n.ast),
                          'the new connection of a recognised member can be closed instead of being registered: if the old connection is half-open (the peer crashed or was cut off '
                          'without a FIN) the pair never gets a working connection again: %s' % res.path_str(n.id, bad), instance=inst)
    # outgoing side: callback bound with the node the connection was created for
    add = T.methods['addNode']
    inst = 'outgoing connection delivers as the node it was created for'
    ctx.tick()
    okb = False
    for c in P.calls_in(add):
        if isinstance(c.func, ast.Attribute) and c.func.attr == 'setOnMessageReceivedCallback' and c.args and isinstance(c.args[0], ast.Call):
            pa = c.args[0].args
            if len(pa) == 2 and unparse(pa[0]) == 'self._onMessageReceived' and unparse(pa[1]) == add.params[1]:
                okb = True
    reg = any(isinstance(n, ast.Assign) and isinstance(n.targets[0], ast.Subscript) and unparse(n.targets[0].slice) == add.params[1] for n in ast.walk(add.node))
    if okb and reg:
        ctx.ok(inst, add.loc(), 'partial(self._onMessageReceived, node); connections[node] = conn')
    else:
        ctx.violation('TCPTransport.addNode:delivery-binding', add.loc(), 'the outgoing connection is not bound/registered for the node it was created for', instance=inst)
    ctx.expect_min(4)


def _norm_key(e, param):
    """key expression with the node parameter renamed to N (so that addNode's and dropNode's keys can be compared)"""
    import copy

    class T_(ast.NodeTransformer):
        def visit_Name(self, x):
            return ast.copy_location(ast.Name(id='N', ctx=ast.Load()), x) if x.id == param else x
    return unparse(T_().visit(copy.deepcopy(e)))


def _keyed_tables(P, func, key):
    """attributes of self looked up with the local `key`: self.A[key], self.A.get(key, ..), key in self.A"""
    out = []
    sn = func.self_name
    for n in ast.walk(func.node):
        a = None
        if isinstance(n, ast.Subscript) and isinstance(n.slice, ast.Name) and n.slice.id == key:
            a = P.self_attr(n.value, sn)
        elif isinstance(n, ast.Call) and isinstance(n.func, ast.Attribute) and n.func.attr == 'get' and n.args and isinstance(n.args[0], ast.Name) and n.args[0].id == key:
            a = P.self_attr(n.func.value, sn)
        if a and a not in out:
            out.append(a)
    return out


@rule('R-drop-teardown', 'dropNode removes the connection from the registry and disconnects it, and removes the node from the '
                         'member set and the address lookup table, so a removed member can neither deliver nor re-handshake')
def r_drop_teardown(ctx):
    P = ctx.P
    T = transport_parts(ctx)
    f = T.methods['dropNode']
    inc = T.roles['incoming']
    msg = inc.params[2]
    table = (_keyed_tables(P, inc, msg) or [None])[-1]
    send = T.methods['send']
    registry = (_keyed_tables(P, send, send.params[1]) or [None])[-1]
    ctx.require(table and registry, 'lookup table / connection registry not found')
    ex = U.explorer(ctx, f)
    cfg = ex.cfg
    node = f.params[1]
    # member sets: the collections addNode() adds its node to
    addn = T.methods['addNode']
    member_sets = set(P.self_attr(c.func.value, addn.self_name) for c in P.calls_in(addn)
                      if isinstance(c.func, ast.Attribute) and c.func.attr == 'add' and c.args and isinstance(c.args[0], ast.Name) and c.args[0].id == addn.params[1]) - {None}
    # ... and the set the handshake handler adds read-only peers to
    member_sets |= set(P.self_attr(c.func.value, inc.self_name) for c in P.calls_in(inc) if isinstance(c.func, ast.Attribute) and c.func.attr == 'add') - {None}
    ctx.require(member_sets, 'addNode adds its node to no member set')
    # the key under which addNode files the node in the address table; dropNode must remove that very key
    add_key = None
    for n_ in ast.walk(addn.node):
        if isinstance(n_, ast.Assign) and isinstance(n_.targets[0], ast.Subscript) and P.self_attr(n_.targets[0].value, addn.self_name) == table:
            add_key = _norm_key(n_.targets[0].slice, addn.params[1])
    ctx.require(add_key, 'addNode does not file the node in the address table')

    def ev(n):
        out = []
        if n.kind != 'stmt' or n.ast is None:
            return out
        for c in [x for x in ast.walk(n.ast) if isinstance(x, ast.Call) and isinstance(x.func, ast.Attribute)]:
            a = P.self_attr(c.func.value, f.self_name)
            if a == registry and c.func.attr == 'pop':
                out.append('unregister')
            if a == table and c.func.attr == 'pop' and c.args and _norm_key(c.args[0], node) == add_key:
                out.append('forget-address')
            if c.func.attr == 'disconnect':
                out.append('disconnect')
            if c.func.attr in ('discard', 'remove') and a and a in member_sets:
                out.append('remove-member')
        if isinstance(n.ast, ast.Delete):
            for t in n.ast.targets:
                if isinstance(t, ast.Subscript) and P.self_attr(t.value, f.self_name) == registry:
                    out.append('unregister')
        return out
    res = ex.run(track=ev, follow_exc=False)
    outcomes = set(cnt for fs, cnt in res.cstates.get(cfg.exit.id, ()))
    ctx.tick(len(outcomes))
    inst = 'dropNode tears everything down on every path'
    bad = []
    for cnt in outcomes:
        d = dict(cnt)
        if not d.get('unregister'):
            bad.append('connection stays registered')
        if not d.get('remove-member'):
            bad.append('node stays in a member set')
    # TCP members additionally lose their address entry
    tcp_paths = [dict(cnt) for fs, cnt in res.cstates.get(cfg.exit.id, ()) if any(l[0] == 'opaque' and l[2] and 'isinstance(%s, TCPNode)' % node in l[1] for l in fs)]
    if tcp_paths and not all(d.get('forget-address') for d in tcp_paths):
        bad.append('address of a removed TCP member stays in the lookup table (it can re-handshake)')
    if not tcp_paths:
        bad.append('no TCPNode path')
    # disconnect when a connection existed
    if not any(dict(c).get('disconnect') for c in outcomes):
        bad.append('existing connection is not disconnected')
    if bad:
        ctx.violation('TCPTransport.dropNode:incomplete-teardown', f.loc(), '; '.join(sorted(set(bad))), instance=inst)
    else:
        ctx.ok(inst, f.loc(), '%d path classes: unregister, remove from member set, forget address (TCP), disconnect when connected' % len(outcomes))
    # no reconnect is triggered by the disconnect inside dropNode
    inst = 'dropNode prevents the automatic reconnect while disconnecting'
    ctx.tick()
    sc = T.roles['should_connect']
    prevent = None
    for n in ast.walk(sc.node):
        if isinstance(n, ast.Compare) and isinstance(n.ops[0], ast.NotIn):
            prevent = P.self_attr(n.comparators[0], sc.self_name)
    if prevent:
        adds = [U.node_containing(cfg, c).id for c in P.calls_in(f) if isinstance(c.func, ast.Attribute) and c.func.attr == 'add' and P.self_attr(c.func.value, f.self_name) == prevent]
        discs = [U.node_containing(cfg, c).id for c in P.calls_in(f) if isinstance(c.func, ast.Attribute) and c.func.attr == 'disconnect']
        if adds and discs and all(d not in cfg.reachable_from(cfg.entry.id, avoid=adds) for d in discs):
            ctx.ok(inst, f.loc(), 'node added to self.%s before conn.disconnect()' % prevent)
        else:
            ctx.violation('TCPTransport.dropNode:reconnect-not-prevented', f.loc(), 'conn.disconnect() can run without the node being in self.%s: the disconnect callback reconnects to the dropped node' % prevent, instance=inst)
    else:
        ctx.unproven(inst, sc.loc(), 'no prevent-connect set consulted by _shouldConnect')
    ctx.expect_min(2)


@rule('R-dial-order', 'exactly one endpoint of a pair dials: the predicate compares the two addresses with a strict order')
def r_dial_order(ctx):
    P = ctx.P
    T = transport_parts(ctx)
    f = T.roles['should_connect']
    cmps = [n for n in ast.walk(f.node) if isinstance(n, ast.Compare) and len(n.ops) == 1 and all(isinstance(x, ast.Attribute) and x.attr == 'address' for x in (n.left, n.comparators[0]))]
    inst = 'dial predicate is a strict order on the two addresses'
    ctx.tick()
    if len(cmps) == 1 and isinstance(cmps[0].ops[0], (ast.Gt, ast.Lt)):
        sides = [unparse(cmps[0].left.value), unparse(cmps[0].comparators[0].value)]
        if 'self' in sides[0] and f.params[1] == sides[1] or 'self' in sides[1] and f.params[1] == sides[0]:
            ctx.ok(inst, f.loc(cmps[0]), unparse(cmps[0]))
        else:
            ctx.violation('TCPTransport._shouldConnect:operands', f.loc(cmps[0]), '`%s` does not compare the own address with the other node\'s address' % unparse(cmps[0]), instance=inst)
    else:
        ctx.violation('TCPTransport._shouldConnect:not-strict-order', f.loc(), 'the dial predicate is not a single strict comparison of the two addresses (both or neither endpoint would dial)', instance=inst)
    # a connection is (re)dialled only when none is live
    cs = T.roles.get('dial')
    if cs is not None:
        ex = U.explorer(ctx, cs)
        cfg = ex.cfg
        conns = [n for n in cfg.nodes if n.kind == 'stmt' and any(isinstance(c, ast.Call) and isinstance(c.func, ast.Attribute) and c.func.attr == 'connect' for c in ast.walk(n.ast))]
        cres = U.full_run(ctx, cs)
        inst = 'dial only when no live connection exists and this endpoint should dial'
        ctx.tick()
        okd = bool(conns)
        for c in conns:
            for fs in cres.facts_at(c.id):
                no_live = any((l[0] == 'opaque' and not l[2] and ' in self.' in l[1]) or
                              (l[0] == 'eq' and any(t.key == 'CONNECTION_STATE.DISCONNECTED' for t in (l[1], l[2]))) for l in fs)
                should = any(l[0] == 'truthy' and l[2] and (T.roles['should_connect'].name + '(') in l[1].key for l in fs)
                if not (no_live and should):
                    okd = False
        if okd:
            ctx.ok(inst, cs.loc(conns[0].ast), 'at connect(): (node unregistered or its connection DISCONNECTED) and _shouldConnect(node)')
        else:
            ctx.violation('TCPTransport._connectIfNecessarySingle:dial-unguarded', cs.loc(), 'connect() can be called although a live connection exists or this endpoint should not dial', instance=inst)
    ctx.expect_min(2)


@rule('R-send-connected', 'send() only hands a message to a connection that is registered for the node and in CONNECTED state')
def r_send_connected(ctx):
    P = ctx.P
    T = transport_parts(ctx)
    f = T.methods['send']
    ex = U.explorer(ctx, f)
    res = U.full_run(ctx, f)
    cfg = ex.cfg
    registry = (_keyed_tables(P, f, f.params[1]) or [None])[-1]
    ctx.require(registry, 'TCPTransport.send does not look the node up in a connection registry')

    def fwd_calls(n):
        # <registry[node]>.send(..) or <local holding the looked-up connection>.send(..)
        return [c for c in ast.walk(n.ast) if isinstance(c, ast.Call) and isinstance(c.func, ast.Attribute) and c.func.attr == 'send'
                and (isinstance(c.func.value, ast.Subscript) or (isinstance(c.func.value, ast.Name) and c.func.value.id != f.self_name))]
    sends = [n for n in cfg.nodes if n.kind == 'stmt' and n.ast is not None and fwd_calls(n)]
    ctx.require(sends, 'TCPTransport.send does not forward to a connection')
    rsym = 'A:' + registry
    for n in sends:
        inst = 'message handed only to a registered, connected connection'
        recv = ex.tb.term(fwd_calls(n)[0].func.value)

        def registered(fs):
            if any(l[0] == 'opaque' and l[2] and (' in self.%s' % registry) in l[1] for l in fs):
                return True
            # conn = registry.get(node); conn is not None
            for l in fs:
                if l[0] == 'none' and not l[2] and l[1] == recv:
                    if any(l2[0] == 'eq' and recv in (l2[1], l2[2]) and rsym in (l2[2] if l2[1] == recv else l2[1]).deps for l2 in fs):
                        return True
            return False

        def connected(fs):
            return any(l[0] == 'eq' and any(t.key == 'CONNECTION_STATE.CONNECTED' for t in (l[1], l[2]))
                       and any(t.key == recv.key + '.state' for t in (l[1], l[2])) for l in fs)
        ok = bool(res.facts_at(n.id)) and all(registered(fs) and connected(fs) for fs in res.facts_at(n.id))
        ctx.tick()
        if ok:
            ctx.ok(inst, f.loc(n.ast), 'node in registry and state == CONNECTED entailed')
        else:
            ctx.violation('TCPTransport.send:unguarded', f.loc(n.ast), 'a message is written to a connection that may be unregistered or not CONNECTED', instance=inst)
    ctx.expect_min(1)


@rule('R-silent-timeout', 'the read timeout of a connection is evaluated on the send path as well as on poll events: a '
                          'connection that went silent (no events) is still detected when the node sends on it')
def r_silent_timeout(ctx):
    P = ctx.P
    C = P.cls('TcpConnection')
    checker = None
    for m in P.methods_of(C):
        for n in ast.walk(m.node):
            if isinstance(n, ast.Compare) and len(n.ops) == 1 and isinstance(n.ops[0], (ast.Gt, ast.GtE)) and isinstance(n.left, ast.BinOp) and isinstance(n.left.op, ast.Sub) \
                    and any(U.is_clock_call(x) for x in ast.walk(n.left)) and P.self_attr(n.comparators[0], m.self_name):
                if any(isinstance(c.func, ast.Attribute) and c.func.attr == 'disconnect' for c in P.calls_in(m)):
                    checker = m
    ctx.require(checker is not None, 'read-timeout check (now - lastReadTime > timeout => disconnect) not found')
    send = C.methods.get('send')
    ctx.require(send is not None, 'TcpConnection.send gone')
    for root, what in ((send, 'send path'),):
        reach = P.reachable_funcs([root], follow_field=False)
        inst = 'read timeout evaluated on the %s' % what
        ctx.tick()
        if checker in reach:
            # and before the bytes are handed to the socket
            ok_order = True
            for g in reach:
                gcfg = U.explorer(ctx, g).cfg
                socks = [n.id for n in gcfg.nodes if n.kind in ('stmt', 'cond') and n.ast is not None and any(isinstance(c, ast.Call) and isinstance(c.func, ast.Attribute) and c.func.attr == 'send'
                                                                                                          and P.self_attr(c.func.value, g.self_name) == _wire.conn_attrs(ctx)[0] for c in ast.walk(n.ast))]
            ctx.ok(inst, send.loc(), 'call graph: %s reaches %s' % (root.qualname, checker.qualname))
        else:
            ctx.violation('TcpConnection.send:no-timeout-check-on-send', send.loc(),
                          '%s no longer reaches the read-timeout check %s: a black-holed connection produces no poll events, so it is never timed out, never reported as '
                          'disconnected and never re-dialled' % (root.qualname, checker.qualname), instance=inst)
    # poll path
    handlers = [m for m in P.methods_of(C) if any(isinstance(x, ast.Attribute) and x.attr in ('READ', 'WRITE') for x in ast.walk(m.node)) and m.name not in ('__init__', 'connect')]
    inst = 'read timeout evaluated on poll events'
    ctx.tick()
    if any(checker in P.reachable_funcs([hm], follow_field=False) for hm in handlers):
        ctx.ok(inst, checker.loc(), '')
    else:
        ctx.violation('TcpConnection:no-timeout-check-on-events', checker.loc(), 'the poll event handler does not evaluate the read timeout', instance=inst)
    # every read event refreshes the stamp, whether or not a whole frame has arrived: some function between the event handler
    # and the socket read assigns it on every normal path that follows its step towards the read
    stamp = None
    for n in ast.walk(checker.node):
        if isinstance(n, ast.Compare) and isinstance(n.left, ast.BinOp) and isinstance(n.left.op, ast.Sub) and any(U.is_clock_call(x) for x in ast.walk(n.left)):
            stamp = P.self_attr(n.left.right, checker.self_name) or stamp
    recvs = [m for m in P.methods_of(C) if any(isinstance(c.func, ast.Attribute) and c.func.attr == 'recv' for c in P.calls_in(m))]
    if stamp and recvs and handlers:
        inst = 'every read event refreshes the silence stamp'
        ctx.tick()
        recv_f = recvs[0]
        okr = False
        for g in P.methods_of(C):
            if g.name in ('__init__', 'connect') or recv_f not in P.reachable_funcs([g], follow_field=False):
                continue
            if not any(g in P.reachable_funcs([hm], follow_field=False) or g is hm for hm in handlers):
                continue
            gcfg = U.explorer(ctx, g).cfg
            sets = [U.node_containing(gcfg, st).id for st, k in U.assigns_to_attr(P, g, stamp) if U.is_clock_call(st.value)]
            if not sets:
                continue
            steps = []
            for c in P.calls_in(g):
                if g is recv_f and isinstance(c.func, ast.Attribute) and c.func.attr == 'recv':
                    steps.append(c)
                else:
                    r = P.resolve_call(g, c)
                    if any(t is recv_f or recv_f in P.reachable_funcs([t], follow_field=False) for t in r.targets):
                        steps.append(c)
            for c in steps:
                for cn in U.nodes_containing(gcfg, c):
                    succ = [d for d, l in cn.succ if not (isinstance(l, tuple) and l[0] == 'exc')]
                    if succ and all(gcfg.exit.id not in gcfg.reachable_from(d, avoid=sets + [cn.id], follow_exc=False) for d in succ if d not in sets):
                        okr = True
        if okr:
            ctx.ok(inst, checker.loc(), 'self.%s is set from the clock after every step towards the socket read' % stamp)
        else:
            ctx.violation('TcpConnection:silence-stamp-not-refreshed-by-reads', checker.loc(),
                          'no function between the poll handler and the socket read sets self.%s on every path after reading: bytes that arrive without completing a frame do not '
                          'count as a sign of life, and a peer sending one long frame over a slow link is cut off again and again' % stamp, instance=inst)
    ctx.expect_min(2)


@rule('R-readonly-id-unique', 'the identity given to an incoming read-only peer is never reused: the counter it is built from '
                              'is only ever incremented')
def r_readonly_id_unique(ctx):
    P = ctx.P
    T = transport_parts(ctx)
    f = T.roles['incoming']
    # the counter: the attribute the handshake handler increments (its value names the read-only peer)
    counter = None
    for n in ast.walk(f.node):
        if isinstance(n, ast.AugAssign) and P.self_attr(n.target, f.self_name):
            counter = P.self_attr(n.target, f.self_name)
        elif isinstance(n, ast.Assign) and U.increment_amount(P, f, n, P.self_attr(n.targets[0], f.self_name) or '') is not None:
            counter = P.self_attr(n.targets[0], f.self_name)
    if counter is None:
        # no counter at all: how is the identity of a read-only peer built?  Node(<id>) with an id that can repeat is a violation
        mk = [c for c in P.calls_in(f) if isinstance(c.func, ast.Name) and c.func.id in ('Node', 'TCPNode') and c.args]
        ctx.require(mk, 'the handshake handler neither keeps a counter nor creates a node object for read-only peers')
        idexp = U.deref(P, f, mk[0].args[0])
        ctx.tick()
        ctx.violation('%s:readonly-id-not-from-a-growing-counter' % f.qualname, f.loc(mk[0]),
                      'the identity of a new read-only peer is `%s`, which is not taken from a counter that only grows: after an earlier peer left, a new one can get the identity of '
                      'a peer that is still connected and take over its connection slot' % unparse(idexp), instance='read-only peer ids come from a counter that only grows')
        ctx.expect_min(1)
        return
    n = 0
    for m in P.methods_of(T):
        for st, kind in U.assigns_to_attr(P, m, counter):
            n += 1
            inst = '%s: `%s`' % (m.qualname, unparse(st))
            ctx.tick()
            if m.name == '__init__' and kind == 'assign' and isinstance(st.value, ast.Constant):
                ctx.ok(inst, m.loc(st), 'initialisation', nontrivial=False)
            elif U.increment_amount(P, m, st, counter) is not None:
                ctx.ok(inst, m.loc(st), 'increment')
            else:
                ctx.violation('%s:readonly-id-counter-rewritten' % m.qualname, m.loc(st),
                              'the counter that names read-only peers is changed by `%s`: a later peer gets the identity of one that is still connected and takes over its connection slot'
                              % unparse(st), instance=inst)
    # the id is taken before the increment
    ctx.expect_min(2)


@rule('R-reconnect-wiring', 'the TCP transport keeps trying: its tick callback is registered and dials every member that has no live '
                            'connection; a lost member connection is reported and re-dialled at once; an accepted connection is '
                            'registered before the node is reported connected')
def r_reconnect_wiring(ctx):
    P = ctx.P
    T = transport_parts(ctx)
    init = T.methods['__init__']
    # (1) tick callback registered
    reg = [c for c in P.calls_in(init) if isinstance(c.func, ast.Attribute) and c.func.attr == 'addOnTickCallback' and c.args]
    inst = 'transport tick callback registered'
    ctx.tick()
    tickcb = None
    if reg:
        a = reg[0].args[0]
        if isinstance(a, ast.Attribute) and isinstance(a.value, ast.Name) and a.value.id == init.self_name:
            tickcb = T.methods.get(a.attr)
    if tickcb is not None:
        ctx.ok(inst, init.loc(reg[0]), 'addOnTickCallback(self.%s)' % tickcb.name)
    else:
        ctx.violation('TCPTransport.__init__:no-tick-callback', init.loc(), 'the transport does not register a tick callback: lost connections are never re-dialled', instance=inst)
        ctx.expect_min(1)
        return
    # (2) the tick callback reaches connect() for every member
    cs = T.roles.get('dial')
    reach = P.reachable_funcs([tickcb], follow_field=False)
    inst = 'every tick dials members without a live connection'
    ctx.tick()
    loops_all = False
    for g in reach:
        for n in ast.walk(g.node):
            if isinstance(n, ast.For) and P.self_attr(n.iter, g.self_name) and any(isinstance(c, ast.Call) and cs in P.resolve_call(g, c).targets for c in ast.walk(n)):
                loops_all = P.self_attr(n.iter, g.self_name)
    if cs in reach and loops_all:
        ctx.ok(inst, tickcb.loc(), 'tick -> loop over self.%s -> %s' % (loops_all, cs.name))
    else:
        ctx.violation('TCPTransport:tick-does-not-dial', tickcb.loc(), 'the tick callback does not loop over the member set calling the dial routine', instance=inst)
    # (3) a lost member connection is reported and re-dialled
    od = T.roles['on_disc']
    ex = U.explorer(ctx, od)
    cfg = ex.cfg

    def ev(n):
        out = []
        if n.kind == 'stmt' and n.ast is not None:
            for c in [x for x in ast.walk(n.ast) if isinstance(x, ast.Call) and isinstance(x.func, ast.Attribute)]:
                if c.func.attr == '_onNodeDisconnected':
                    out.append('report')
                if cs is not None and cs in P.resolve_call(od, c).targets:
                    out.append('redial')
                if c.func.attr == '_onReadonlyNodeDisconnected':
                    out.append('report-ro')
        return out
    res = ex.run(track=ev, follow_exc=False)
    outcomes = set(cnt for fs, cnt in res.cstates.get(cfg.exit.id, ()))
    inst = 'lost member connection: reported and re-dialled'
    ctx.tick(len(outcomes))
    member = [dict(c) for c in outcomes if dict(c).get('report')]
    if member and all(d.get('redial') for d in member) and any(dict(c).get('report-ro') for c in outcomes):
        ctx.ok(inst, od.loc(), 'outcomes %s' % sorted(outcomes))
    else:
        ctx.violation('TCPTransport._onDisconnected:no-report-or-redial', od.loc(), 'on a lost connection the transport does not both report the member as disconnected and re-dial it (outcomes %s)' % sorted(outcomes), instance=inst)
    # (4) incoming: registered before reported
    inc = T.roles['incoming']
    icfg = U.explorer(ctx, inc).cfg
    regs = [n.id for n in icfg.nodes if n.kind == 'stmt' and isinstance(n.ast, ast.Assign) and isinstance(n.ast.targets[0], ast.Subscript) and P.self_attr(n.ast.targets[0].value, inc.self_name)
            and isinstance(n.ast.value, ast.Name) and n.ast.value.id == inc.params[1]]
    reps = [n for n in icfg.nodes if n.kind == 'stmt' and n.ast is not None and any(isinstance(c, ast.Call) and isinstance(c.func, ast.Attribute) and c.func.attr in ('_onNodeConnected', '_onReadonlyNodeConnected') for c in ast.walk(n.ast))]
    inst = 'accepted connection registered before the node is reported connected'
    ctx.tick()
    if regs and reps and all(r.id not in icfg.reachable_from(icfg.entry.id, avoid=regs) for r in reps):
        ctx.ok(inst, inc.loc(), '')
    else:
        ctx.violation('TCPTransport._onIncomingMessageReceived:reported-before-registered', inc.loc(), 'a node can be reported connected before its connection is registered (send() then fails although the node is "connected")', instance=inst)
    ctx.expect_min(4)


@rule('R-disc-attribution', 'a lost connection is reported as the loss of a member only if it is the connection registered '
                            'for that member: the node is found by comparing the registry entries with the connection object')
def r_disc_attribution(ctx):
    P = ctx.P
    T = transport_parts(ctx)
    od = T.roles['on_disc']
    send = T.methods['send']
    registry = (_keyed_tables(P, send, send.params[1]) or [None])[-1]
    ctx.require(registry, 'connection registry not found')
    conn = od.params[1] if len(od.params) > 1 else None
    ctx.require(conn, 'the disconnect callback takes no connection parameter')
    # functions that compute the node: the callback itself and the methods it hands the connection to
    funcs = [(od, conn)]
    for c in P.calls_in(od):
        r = P.resolve_call(od, c)
        if r.kind == 'method':
            for i, a in enumerate(c.args):
                if isinstance(a, ast.Name) and a.id == conn:
                    for t in r.targets:
                        if t.owner_cls is T and len(t.params) > i + 1:
                            funcs.append((t, t.params[i + 1]))
    inst = 'disconnect callback maps the connection to its member through the registry'
    ctx.tick()
    ok = False
    for g, cp in funcs:
        reads_reg = any(a.attr == registry and a.kind in ('read', 'call') for a in P.accesses(g))
        lsrc = U.loop_sources(g)

        def from_registry(x, g=g, lsrc=lsrc):
            # an entry of the registry: self.registry[..], or a loop variable ranging over it / its items() / values()
            if any(P.self_attr(y, g.self_name) == registry for y in ast.walk(x)):
                return True
            return isinstance(x, ast.Name) and any(P.self_attr(y, g.self_name) == registry for e_ in lsrc.get(x.id, ()) for y in ast.walk(e_))
        ident = any(isinstance(n, ast.Compare) and len(n.ops) == 1 and isinstance(n.ops[0], (ast.Is, ast.Eq))
                    and any(isinstance(x, ast.Name) and x.id == cp for x in (n.left, n.comparators[0]))
                    and any(from_registry(x) for x in (n.left, n.comparators[0]) if not (isinstance(x, ast.Name) and x.id == cp)) for n in ast.walk(g.node))
        if reads_reg and ident:
            ok = True
            where = g
    if ok:
        ctx.ok(inst, where.loc(), '%s compares self.%s[..] with the connection' % (where.qualname, registry))
    else:
        ctx.violation('%s:disconnect-attributed-without-registry' % od.qualname, od.loc(),
                      'the member reported as disconnected is not found by comparing the registered connections with the connection that died: a replaced (stale) connection '
                      'of a peer reports the peer as down although its live connection works', instance=inst)
    ctx.expect_min(1)


@rule('R-established-checked', 'an outgoing connection becomes CONNECTED only after the pending socket error was read and '
                               'found clear (readiness alone does not mean the connect succeeded)')
def r_established_checked(ctx):
    P = ctx.P
    C, send, parse, rbuf, wbuf = _wire.conn_parts(ctx)
    sock, state = _wire.conn_attrs(ctx)
    n_sites = 0
    for m in P.methods_of(C):
        if m.name == '__init__':
            continue            # a connection wrapped around an accepted socket starts established
        stores = [st for st, k in U.assigns_to_attr(P, m, state) if P.const_class_value(st.value) and P.const_class_value(st.value)[1] == 'CONNECTED']
        if not stores:
            continue
        cfg = U.explorer(ctx, m).cfg
        checks = [n for n in cfg.nodes if n.kind == 'cond' and any(isinstance(x, ast.Attribute) and x.attr == 'SO_ERROR' for x in ast.walk(n.ast))
                  and any(isinstance(c, ast.Call) and isinstance(c.func, ast.Attribute) and c.func.attr == 'getsockopt' for c in ast.walk(n.ast))]
        for st in stores:
            sn = U.node_containing(cfg, st)
            inst = '%s: `%s` only after getsockopt(SO_ERROR) returned 0' % (m.qualname, unparse(st))
            n_sites += 1
            ctx.tick()
            guarded = False
            for cn in checks:
                tt = [d for d, l in cn.succ if l == ('cond', True)]
                if sn.id in cfg.reachable_from(cfg.entry.id, avoid=[cn.id]):
                    continue
                if tt and sn.id in cfg.reachable_from(tt[0], avoid=[cn.id]):
                    continue
                guarded = True
            if guarded:
                ctx.ok(inst, m.loc(st), 'dominated by the clear edge of the SO_ERROR test')
            else:
                ctx.violation('%s:connected-without-error-check' % m.qualname, m.loc(st),
                              'the connection is marked CONNECTED on a path that did not read the pending socket error: with a poller that reports a refused connect only as '
                              'readable/writable (select) the peer is reported connected while nothing is connected', instance=inst)
    ctx.require(n_sites >= 1, 'no CONNECTING -> CONNECTED transition found')
    # ... and a pending socket error closes the connection: the error arm of every SO_ERROR test reaches disconnect() before it leaves
    for m in P.methods_of(C):
        cfg = U.explorer(ctx, m).cfg
        for cn in cfg.nodes:
            if cn.kind != 'cond' or not any(isinstance(x, ast.Attribute) and x.attr == 'SO_ERROR' for x in ast.walk(cn.ast)):
                continue
            tt = [d for d, l in cn.succ if l == ('cond', True)]
            disc = [n.id for n in cfg.nodes if n.kind == 'stmt' and n.ast is not None and any(
                isinstance(c, ast.Call) and isinstance(c.func, ast.Attribute) and c.func.attr == 'disconnect' and isinstance(c.func.value, ast.Name) and c.func.value.id == m.self_name
                for c in ast.walk(n.ast))]
            inst = '%s: a pending socket error leads to disconnect()' % m.qualname
            ctx.tick()
            if tt and (tt[0] in disc or cfg.exit.id not in cfg.reachable_from(tt[0], avoid=disc, follow_exc=False)):
                ctx.ok(inst, m.loc(cn.ast), 'the function cannot be left from the error arm without disconnect()')
            else:
                ctx.violation('%s:socket-error-ignored' % m.qualname, m.loc(cn.ast),
                              'the arm taken when getsockopt(SO_ERROR) reports an error can leave the function without disconnect(): the dead connection stays registered as the '
                              'live connection of its peer', instance=inst)
    ctx.expect_min(2)


@rule('R-callback-wiring', 'every event the transport can be asked to report (setOn...Callback) is forwarded: the stored callback '
                           'is called by a method of the transport')
def r_callback_wiring(ctx):
    P = ctx.P
    T0 = P.cls('Transport')
    n = 0
    for st in P.methods_of(T0):
        if not (st.name.startswith('setOn') and st.name.endswith('Callback')) or len(st.params) != 2:
            continue
        stored = [P.self_attr(x.targets[0], st.self_name) for x in ast.walk(st.node) if isinstance(x, ast.Assign) and isinstance(x.value, ast.Name) and x.value.id == st.params[1]]
        stored = [a for a in stored if a]
        if not stored:
            continue        # e.g. a table of utility callbacks keyed by name
        attr = stored[0]
        n += 1
        inst = '%s: the stored callback is invoked' % st.name
        ctx.tick()
        callers = []
        for cls in [T0] + P.subclasses(T0):
            for m in P.methods_of(cls):
                for c in P.calls_in(m):
                    if P.self_attr(c.func, m.self_name) == attr:
                        callers.append((m, c))
        if callers:
            ctx.ok(inst, callers[0][0].loc(callers[0][1]), '%s calls self.%s(..)' % (callers[0][0].qualname, attr))
        else:
            ctx.violation('Transport.%s:callback-never-invoked' % st.name, st.loc(), 'the callback stored by %s (self.%s) is never called: the event is silently lost '
                          '(the node is never told, e.g., that a read-only peer left)' % (st.name, attr), instance=inst)
    ctx.require(n >= 4, 'transport callback setters not found')
    # every connection object the TCP transport starts to use is watched: wherever it binds a message callback on a
    # connection for the first time (a connection it created, or one the server handed over) it also binds its disconnect handler
    T = transport_parts(ctx)
    od = T.roles['on_disc']
    # accept handlers: methods handed to the TcpServer constructor
    accept_handlers = set()
    for m in P.methods_of(T):
        for c in P.calls_in(m):
            if unparse(c.func).endswith('TcpServer'):
                for a in list(c.args) + [k.value for k in c.keywords]:
                    nm = P.self_attr(a, m.self_name)
                    if nm and nm in T.methods and len(T.methods[nm].params) == 2:
                        accept_handlers.add(nm)
    for m in P.methods_of(T):
        binds_msg = {}
        binds_disc = set()
        created = set()
        for x in ast.walk(m.node):
            if isinstance(x, ast.Assign) and isinstance(x.value, ast.Call) and unparse(x.value.func) == 'TcpConnection' and isinstance(x.targets[0], ast.Name):
                created.add(x.targets[0].id)
        for c in P.calls_in(m):
            if isinstance(c.func, ast.Attribute) and isinstance(c.func.value, ast.Name) and c.args:
                if c.func.attr == 'setOnMessageReceivedCallback':
                    binds_msg[c.func.value.id] = c
                elif c.func.attr == 'setOnDisconnectedCallback':
                    a = c.args[0]
                    if isinstance(a, ast.Call) and unparse(a.func).endswith('partial') and a.args:
                        a = a.args[0]
                    if P.self_attr(a, m.self_name) == od.name:
                        binds_disc.add(c.func.value.id)
        # "first use": the connection was created here, or it is the parameter of the accept callback (a method that is itself
        # registered as a callback and not a message handler)
        first_use = set(created)
        if len(m.params) == 2 and m.params[1] in binds_msg and m.name in accept_handlers:
            first_use.add(m.params[1])
        for v in sorted(first_use):
            if v not in binds_msg:
                continue
            inst = '%s: connection `%s` gets the transport\'s disconnect handler' % (m.qualname, v)
            ctx.tick()
            if v in binds_disc:
                ctx.ok(inst, m.loc(binds_msg[v]), 'setOnDisconnectedCallback(self.%s ..)' % od.name)
            else:
                ctx.violation('%s:connection-not-watched' % m.qualname, m.loc(binds_msg[v]),
                              'the transport starts using connection `%s` without binding its disconnect handler: when this connection dies the node is never reported '
                              'disconnected and is not re-dialled at once' % v, instance=inst)
    ctx.expect_min(6)


@rule('R-enumeration-siblings', 'the object\'s own replicated methods and those of every consumer are selected for id assignment by '
                                'the same filter (same conjuncts, modulo the object they inspect)')
def r_enumeration_siblings(ctx):
    P, R = ctx.P, ctx.R
    init = R.init

    def selections(f):
        out = []
        for n in ast.walk(f.node):
            if isinstance(n, (ast.ListComp, ast.SetComp, ast.GeneratorExp)) and len(n.generators) == 1:
                g = n.generators[0]
                it = g.iter
                if isinstance(it, ast.Call) and isinstance(it.func, ast.Name) and it.func.id == 'dir' and len(it.args) == 1 and isinstance(g.target, ast.Name):
                    obj = unparse(it.args[0])
                    var = g.target.id
                    conj = []
                    for c in g.ifs:
                        conj.extend(c.values if isinstance(c, ast.BoolOp) and isinstance(c.op, ast.And) else [c])

                    class N(ast.NodeTransformer):
                        def visit_Name(self, x):
                            if x.id == var:
                                return ast.copy_location(ast.Name(id='M', ctx=x.ctx), x)
                            if x.id == obj:
                                return ast.copy_location(ast.Name(id='OBJ', ctx=x.ctx), x)
                            return x
                    import copy
                    norm = frozenset(unparse(N().visit(copy.deepcopy(c))) for c in conj)
                    out.append((n, obj, norm))
        return out
    sel = selections(init)
    inst = 'own and consumer methods are selected by the same filter'
    ctx.tick()
    if len(sel) < 2:
        ctx.ok(inst, init.loc(), '%d selection(s) in the constructor: nothing to disagree' % len(sel), nontrivial=False)
    else:
        ref = sel[0]
        bad = [x for x in sel[1:] if x[2] != ref[2]]
        if bad:
            n, obj, norm = bad[0]
            ctx.violation('%s:method-selection-filters-differ' % init.qualname, init.loc(n),
                          'the methods of `%s` are selected with %s, those of `%s` with %s: a name that is enumerated for one kind of object and skipped for the other (e.g. the '
                          'unversioned alias) shifts every later method id when a new version is added' % (obj, sorted(norm - ref[2]) or sorted(norm), ref[1], sorted(ref[2] - norm) or sorted(ref[2])),
                          instance=inst)
        else:
            ctx.ok(inst, init.loc(sel[0][0]), '%d selections, conjuncts %s' % (len(sel), sorted(ref[2])))
    ctx.expect_min(1)


@rule('R-connecting-registered', 'a connection that is left in the CONNECTING state is registered with the poller: no normal '
                                 'exit leaves the state set to CONNECTING without a subscribe (or a reset to DISCONNECTED)')
def r_connecting_registered(ctx):
    """The transport dials only connections whose state is DISCONNECTED and learns about progress only through poller
    events.  A connection object that says CONNECTING but is not subscribed never gets an event and is never dialled
    again: the pair stays disconnected for ever."""
    P = ctx.P
    C, send, parse, rbuf, wbuf = _wire.conn_parts(ctx)
    sock, state = _wire.conn_attrs(ctx)
    n_sites = 0
    for m in P.methods_of(C):
        if m.name == '__init__':
            continue
        stores = [st for st, k in U.assigns_to_attr(P, m, state) if P.const_class_value(st.value) and P.const_class_value(st.value)[1] == 'CONNECTING']
        if not stores:
            continue
        cfg = U.explorer(ctx, m).cfg
        settle = []
        for n in cfg.nodes:
            if n.kind != 'stmt' or n.ast is None:
                continue
            for c in [x for x in ast.walk(n.ast) if isinstance(x, ast.Call)]:
                if isinstance(c.func, ast.Attribute) and c.func.attr == 'subscribe':
                    settle.append(n.id)
                if isinstance(c.func, ast.Attribute) and c.func.attr == 'disconnect' and isinstance(c.func.value, ast.Name) and c.func.value.id == m.self_name:
                    settle.append(n.id)
            if isinstance(n.ast, ast.Assign) and any(P.self_attr(t, m.self_name) == state for t in n.ast.targets) and P.const_class_value(n.ast.value) \
                    and P.const_class_value(n.ast.value)[1] == 'DISCONNECTED':
                settle.append(n.id)
        for st in stores:
            sn = U.node_containing(cfg, st)
            inst = '%s: `%s` is followed by a poller subscription on every normal exit' % (m.qualname, unparse(st))
            n_sites += 1
            ctx.tick()
            succ = [d for d, l in sn.succ if not (isinstance(l, tuple) and l[0] == 'exc')]
            leak = any(cfg.exit.id in cfg.reachable_from(d, avoid=settle) for d in succ if d not in settle)
            if leak:
                ctx.violation('%s:connecting-without-subscription' % m.qualname, m.loc(st),
                              'after `%s` the method can return (for instance through the handler of a failed connect) without subscribing to the poller and without putting the state '
                              'back to DISCONNECTED: the object then looks busy for ever and the transport never dials this peer again' % unparse(st), instance=inst)
            else:
                ctx.ok(inst, m.loc(st), 'normal exit unreachable without subscribe / reset')
    ctx.require(n_sites >= 1, 'no method of the connection class enters the CONNECTING state')
    ctx.expect_min(1)


def _clock_kind(P, f, call):
    """'monotonic' | 'wall' for a call recognised by util.is_clock_call, resolving import aliases of the module"""
    name = unparse(call.func)
    last = name.split('.')[-1]
    if 'onotonic' in last or last == 'perf_counter':
        return 'monotonic'
    imp = f.module.imports.get(name) if hasattr(f.module, 'imports') else None
    if imp and any(x and ('onotonic' in x or x == 'perf_counter') for x in imp):
        return 'monotonic'
    return 'wall'


def _feeds_interval(P, C, m, call):
    """the clock value takes part in a comparison / sum / difference: directly, through the local it is assigned to, or
    through the attribute (table) it is stored in, anywhere in the class"""
    def in_arith(pred, scope_nodes):
        for root in scope_nodes:
            for n in ast.walk(root):
                if isinstance(n, ast.Compare) or (isinstance(n, ast.BinOp) and isinstance(n.op, (ast.Sub, ast.Add))):
                    if any(pred(x) for x in ast.walk(n)):
                        return True
        return False
    if in_arith(lambda x: x is call, [m.node]):
        return True
    for st in ast.walk(m.node):
        if isinstance(st, ast.Assign) and st.value is call:
            for t in st.targets:
                if isinstance(t, ast.Name):
                    if in_arith(lambda x, t=t: isinstance(x, ast.Name) and x.id == t.id, [m.node]):
                        return True
                base = t.value if isinstance(t, ast.Subscript) else t
                a = P.self_attr(base, m.self_name)
                if a:
                    for g in P.methods_of(C):
                        if in_arith(lambda x, g=g, a=a: P.self_attr(x, g.self_name) == a, [g.node]):
                            return True
    return False


@rule('R-interval-clock', 'every clock read of the TCP transport, server and connection classes (retry back-off, bind retry, silence '
                          'timeout) uses the monotonic clock: the intervals that bound reconnection are not stretched by a wall-clock step')
def r_interval_clock(ctx):
    P = ctx.P
    n_sites = 0
    for cn in ('TCPTransport', 'TcpConnection', 'TcpServer'):
        if not P.has_cls(cn):
            continue
        C = P.cls(cn)
        for m in P.methods_of(C):
            if m.owner_cls is not C:
                continue
            for c in P.calls_in(m, include_nested=True):
                if not U.is_clock_call(c):
                    continue
                n_sites += 1
                ctx.tick()
                inst = '%s: `%s` reads the monotonic clock' % (m.qualname, unparse(c))
                if not _feeds_interval(P, C, m, c):
                    ctx.ok(inst, m.loc(c), 'value not used in a comparison or difference (no interval)', nontrivial=False)
                    continue
                if _clock_kind(P, m, c) == 'monotonic':
                    ctx.ok(inst, m.loc(c), '', nontrivial=False)
                else:
                    ctx.violation('%s:interval-from-wall-clock' % m.qualname, m.loc(c),
                                  '`%s` reads the wall clock; every time value in this class is a stamp for an interval test (retry back-off, silence timeout): after a backward step of '
                                  'the system time the test stays true for the length of the step and the peer is not re-dialled / not timed out' % unparse(c), instance=inst)
    ctx.require(n_sites >= 5, 'clock reads of the transport / connection classes not found')
    ctx.expect_min(5)
