"""Progress obligations (C05), read-only nodes (C18), leader fallback / quorum indicator (C20)."""
import ast
from . import rule
from .. import util as U
from ..pyir import AnalysisError, unparse
from .. import oracle
from .election import majority_sites, _grant_nodes, _set_state_nodes
from .raftlog import ack_calls, ae_region


def _is_clock_call(n):
    return U.is_clock_call(n)


def _deadline_writes(ctx, func, cfg):
    P, R = ctx.P, ctx.R
    out = []
    for st, kind in U.assigns_to_attr(P, func, R.electionDeadline):
        if any(_is_clock_call(x) for x in ast.walk(st.value)):
            n = U.node_containing(cfg, st)
            if n is not None:
                out.append(n)
    return out


# ----------------------------------------------------------------------------- C05
@rule('R-timer-reset', 'the election deadline is re-armed by every accepted append_entries, every granted vote and every '
                       'candidacy start; a candidacy starts only when the deadline has passed and somebody is connected')
def r_timer_reset(ctx):
    P, R = ctx.P, ctx.R
    h = R.handler
    info = ae_region(ctx)
    ex, res = info['ex'], info['res']
    cfg = ex.cfg
    dw = [n.id for n in _deadline_writes(ctx, h, cfg)]
    ctx.require(dw, 'the handler never re-arms the election deadline')
    # (a) accepted append_entries
    msg = R.handler_msg_param
    g = U.goal(ex, "%s['term'] >= self.%s" % (msg, R.currentTerm))
    accepted = None
    for nid in sorted(res.states):
        node = cfg.nodes[nid]
        if node.kind == 'stmt' and all(oracle.entails(fs, g) for fs in res.facts_at(nid)):
            accepted = nid
            break
    ctx.require(accepted is not None, 'accepted append_entries region not found')
    reach = cfg.reachable_from(accepted, avoid=dw, follow_exc=False)
    inst = 'accepted append_entries re-arms the election deadline'
    ctx.tick()
    if accepted in dw or cfg.exit.id not in reach:
        ctx.ok(inst, h.loc(cfg.nodes[accepted].ast), 'handler exit unreachable from the accepted region without the deadline write')
    else:
        ctx.violation('%s:append-entries-without-timer-reset' % h.qualname, h.loc(cfg.nodes[accepted].ast),
                      'an accepted append_entries (heartbeat) can be processed without re-arming the election deadline: the follower '
                      'starts elections although it hears the leader', instance=inst)
    # (b) grant
    rex, rres, rentry = U.region_run(ctx, 'request_vote')
    for gn in _grant_nodes(ctx, rex):
        if not rres.reached(gn.id):
            continue
        reach = cfg.reachable_from(gn.id, avoid=dw, follow_exc=False)
        inst = 'granting a vote re-arms the election deadline'
        ctx.tick()
        if cfg.exit.id in reach:
            ctx.violation('%s:grant-without-timer-reset' % h.qualname, h.loc(gn.ast), 'a vote is granted without re-arming the own election deadline', instance=inst)
        else:
            ctx.ok(inst, h.loc(gn.ast), 'exit unreachable from the grant without the deadline write')
    # (c) candidacy start in the tick
    t = R.tick
    tex = U.explorer(ctx, t)
    tcfg = tex.cfg
    tdw = [n.id for n in _deadline_writes(ctx, t, tcfg)]
    incs = [U.node_containing(tcfg, st) for st in U.increments_of(P, t, R.currentTerm)]
    ctx.require(incs, 'candidacy start (term increment) not found in the tick')
    for inc in incs:
        blk = U.straight_line_block(tcfg, inc.id)
        inst = 'candidacy start re-arms the election deadline'
        ctx.tick()
        if any(d in blk for d in tdw):
            ctx.ok(inst, t.loc(inc.ast), 'deadline write in the same straight-line block as the term increment')
        else:
            ctx.violation('%s:candidacy-without-timer-reset' % t.qualname, t.loc(inc.ast), 'a candidacy starts without re-arming the election deadline (re-election storm)', instance=inst)
        # guarded by deadline < now
        guard_ok = False
        for n in tcfg.nodes:
            ce = n.ast if n.kind == 'cond' else None
            if isinstance(ce, ast.Name):
                ce = U.single_assign_value(t, ce.id)        # `timedOut = now() > deadline` ... `if timedOut and ..:`
            if n.kind == 'cond' and isinstance(ce, ast.Compare) and len(ce.ops) == 1:
                l, r, op = ce.left, ce.comparators[0], ce.ops[0]
                la, ra = P.self_attr(l, t.self_name), P.self_attr(r, t.self_name)
                if (la == R.electionDeadline and _is_clock_call(r) and isinstance(op, (ast.Lt, ast.LtE))) or \
                        (ra == R.electionDeadline and _is_clock_call(l) and isinstance(op, (ast.Gt, ast.GtE))):
                    # dominates the increment through its true edge
                    tt = [d for d, lab in n.succ if lab == ('cond', True)]
                    if inc.id not in tcfg.reachable_from(tcfg.entry.id, avoid=[n.id]) and tt and inc.id in tcfg.reachable_from(tt[0], avoid=[n.id]):
                        ft = [d for d, lab in n.succ if lab == ('cond', False)]
                        if not ft or inc.id not in tcfg.reachable_from(ft[0], avoid=[n.id]):
                            guard_ok = True
        inst = 'candidacy only after the election deadline passed'
        ctx.tick()
        if guard_ok:
            ctx.ok(inst, t.loc(inc.ast), 'dominated by the true edge of `deadline < now`')
        else:
            ctx.violation('%s:candidacy-without-deadline-test' % t.qualname, t.loc(inc.ast),
                          'the node starts a candidacy on a path that does not test that its election deadline has passed', instance=inst)
    ctx.expect_min(4)


def sender_func(ctx):
    for f, c, d, t, tgt in U.all_send_sites(ctx):
        if t == 'append_entries':
            return f
    raise AnalysisError('nobody sends append_entries')


@rule('R-sender-total', 'in the per-follower send loop every iteration sends something (entries, chunks or snapshot data); '
                        'after the last snapshot chunk the next index is moved past the snapshot')
def r_sender_total(ctx):
    P, R = ctx.P, ctx.R
    f = sender_func(ctx)
    ex = U.explorer(ctx, f)
    cfg = ex.cfg
    sends = [c for c, d, t, tgt in U.send_sites(ctx, f) if t == 'append_entries']
    send_nodes = []
    for c in sends:
        for n in U.nodes_containing(cfg, c):
            send_nodes.append(n.id)
            # a for loop that only exists to send chunks counts as a send once entered (its range is non-empty)
            for p in n.parents:
                if isinstance(p, ast.For) and p is not None and isinstance(p.iter, ast.Call) and isinstance(p.iter.func, ast.Name) and p.iter.func.id in ('xrange', 'range'):
                    send_nodes += [m.id for m in cfg.nodes if m.ast is p and m.kind == 'iter']
    whiles = [n for n in cfg.nodes if n.kind == 'loop']
    ctx.require(whiles, 'no per-follower while loop in the sender')
    # the round visits every node: the per-node `for` loop is left only when it is exhausted (no return / break out of it)
    outer = [n for n in cfg.nodes if n.kind == 'iter' and any(P.self_attr(x, f.self_name) in (R.voters, R.observers) for x in ast.walk(n.ast.iter))
             and not any(isinstance(p_, (ast.For, ast.While)) for p_ in n.parents)]
    for o in outer:
        inst = 'a send round visits every node (the per-node loop is not left early)'
        ctx.tick()
        inside_o = [m for m in cfg.nodes if any(p_ is o.ast for p_ in m.parents)]
        early = None
        for m in inside_o:
            for d, l in m.succ:
                if isinstance(l, tuple) and l[0] == 'exc':
                    continue
                dn = cfg.nodes[d]
                if dn is o or any(p_ is o.ast for p_ in dn.parents):
                    continue
                early = m
        if early is not None:
            ctx.violation('%s:send-round-left-early' % f.qualname, f.loc(early.ast),
                          'the per-node loop of a send round can be left from inside (`%s`): the nodes that come later in the iteration get nothing in this round -- a slow or '
                          'read-only node that is served first starves the voters of heartbeats' % unparse(early.ast)[:40], instance=inst)
        else:
            ctx.ok(inst, f.loc(o.ast), 'no edge from the loop body to the outside except through the loop head')
    for w in whiles:
        # body start = true edges of the loop condition chain: nodes inside the loop reachable from head
        test_nodes = set()
        for tn in cfg.nodes:
            if tn.kind == 'cond' and tn.extra is w.ast:
                test_nodes.add(tn.id)
        inside = set(m.id for m in cfg.nodes if any(p is w.ast for p in m.parents)) - test_nodes
        starts = set()
        for tn in test_nodes:
            for d, l in cfg.nodes[tn].succ:
                if d in inside:
                    starts.add(d)
        if not starts:
            continue
        outside = [m.id for m in cfg.nodes if m.id not in inside]
        reach = set()
        for s0 in starts:
            reach |= cfg.reachable_from(s0, avoid=send_nodes + outside, follow_exc=False)
        back = [p for p, l in w.pred if p in reach]
        inst = 'every iteration of the send loop sends'
        ctx.tick()
        if back:
            ctx.violation('%s:send-loop-iteration-without-send' % f.qualname, f.loc(cfg.nodes[back[0]].ast),
                          'an iteration of the per-follower loop can complete without sending anything (the follower is never brought up to date)', instance=inst)
        else:
            ctx.ok(inst, f.loc(w.ast), 'loop head unreachable from the body start once the %d send sites are removed' % len(sends))
    # nextIndex moved past the snapshot after the last chunk
    res = U.full_run(ctx, f)
    ok_any = False
    for a in P.accesses(f):
        if a.attr == R.nextIndex and a.kind == 'elem_write':
            n = U.node_containing(cfg, a.node)
            v = a.node.value
            if any(P.self_attr(x, f.self_name) == R.log for x in ast.walk(v)) and not any(isinstance(x, ast.Name) and x.id == 'entries' for x in ast.walk(v)):
                inst = 'next index moved past the snapshot after its last chunk'
                # under a truthy "last" flag fact
                flagged = all(any(l[0] == 'truthy' and l[2] for l in fs) for fs in res.facts_at(n.id)) and bool(res.facts_at(n.id))
                ctx.tick()
                t = ex.tb.term(v)
                if flagged and t.base is not None and t.off == 1 and t.base.key.startswith('self.%s[1]' % R.log):
                    ok_any = True
                    ctx.ok(inst, f.loc(a.node), 'nextIndex := index of the snapshot entry (log[1]) + 1 under the last-chunk flag')
                else:
                    ctx.violation('%s:next-index-after-snapshot' % f.qualname, f.loc(a.node),
                                  'after a snapshot transfer the next index is set to `%s`, not to the entry following the snapshot (log[1].idx + 1)' % unparse(v), instance=inst)
                    ok_any = True
    if not ok_any:
        ctx.violation('%s:no-next-index-after-snapshot' % f.qualname, f.loc(), 'the next index is never moved past a completed snapshot transfer: it is re-sent for ever',
                      instance='next index moved past the snapshot after its last chunk')
    ctx.expect_min(2)


@rule('R-reply-exhaustive', 'every (reset, success) combination the follower can send is acted on by the leader: reset => '
                            'nextIndex taken from the reply; every reply refreshes the last response time')
def r_reply_exhaustive(ctx):
    P, R = ctx.P, ctx.R
    combos = set()
    for call, succ, reset, nxt in ack_calls(ctx):
        if isinstance(succ, ast.Constant) and (reset is None or isinstance(reset, ast.Constant)):
            combos.add((bool(reset.value) if reset is not None else False, bool(succ.value)))
    ctx.require(combos, 'no acknowledgement combos found')
    ex, res, entry = U.region_run(ctx, 'next_node_idx')
    h = R.handler
    cfg = ex.cfg
    msg = R.handler_msg_param
    # reset => nextIndex[node] = message['next_node_idx']
    want = ex.tb.term(U.parse_expr("%s['next_node_idx']" % msg))
    reset_ok = False
    for a in P.accesses(h):
        if a.attr == R.nextIndex and a.kind == 'elem_write':
            n = U.node_containing(cfg, a.node)
            if not res.reached(n.id):
                continue
            v = ex.tb.term(a.node.value)
            under_reset = all(oracle.entails(fs, U.goal(ex, "%s['reset']" % msg)) for fs in res.facts_at(n.id))
            if under_reset:
                ctx.tick()
                if all(oracle.entails(fs, ('eq', v, want)) for fs in res.facts_at(n.id)):
                    reset_ok = True
                else:
                    ctx.violation('%s:reset-next-index-value' % h.qualname, h.loc(a.node),
                                  'on a reset reply nextIndex is set to `%s`, not to the index named by the follower' % unparse(a.node.value), instance='reset handled')
                    reset_ok = True
    if (True, False) in combos or (True, True) in combos:
        if reset_ok:
            ctx.ok('reset reply: nextIndex taken from the message', h.loc(), 'combos sent by the follower: %s' % sorted(combos))
        else:
            ctx.violation('%s:reset-reply-ignored' % h.qualname, h.loc(),
                          'the follower sends reset=True replies but the leader never takes nextIndex from them (it keeps sending entries the follower rejects)',
                          instance='reset handled')
    # every reply refreshes lastResponseTime
    lrt = [U.node_containing(cfg, a.node).id for a in P.accesses(h) if a.attr == R.lastResponseTime and a.kind == 'elem_write']
    # a reply handled as leader: feasible paths from the true edge of the next_node_idx test under state == LEADER
    from ..facts import const_term
    lead_init = frozenset([('eq', ex.tb.term(U.parse_expr("%s['type']" % msg)), const_term('next_node_idx')),
                           U.goal(ex, 'self.%s == %s.LEADER' % (R.raftState, R.state_class))])
    r_lead = ex.run(start=entry, init=lead_init, avoid=lrt, follow_exc=False)
    reach = set([cfg.exit.id]) if r_lead.reached(cfg.exit.id) else set()
    inst = 'every reply refreshes the last response time'
    ctx.tick()
    if not lrt:
        ctx.violation('%s:no-response-time-refresh' % h.qualname, h.loc(), 'replies never refresh the last response time (the leader falls back although followers answer)', instance=inst)
    elif cfg.exit.id in reach:
        ctx.violation('%s:reply-without-response-time' % h.qualname, h.loc(cfg.nodes[entry].ast),
                      'a reply can be processed without refreshing the follower\'s last response time', instance=inst)
    else:
        ctx.ok(inst, h.loc(cfg.nodes[entry].ast), 'exit unreachable from the reply region without the refresh')
    # success: nextIndex follows matchIndex
    ctx.expect_min(2)


# ----------------------------------------------------------------------------- C18
@rule('R-no-vote-without-address', 'a node without its own address never starts a candidacy or grants a vote; vote requests '
                                   'go to voters only; observers are only ever sent append_entries')
def r_no_vote_without_address(ctx):
    P, R = ctx.P, ctx.R
    t = R.tick
    ex = U.explorer(ctx, t)
    res = U.full_run(ctx, t)
    cfg = ex.cfg
    for st, k in U.assigns_to_attr(P, t, R.currentTerm):
        n = U.node_containing(cfg, st)
        ok, cex = U.must(ctx, res, n.id, U.goal(ex, 'self.%s is not None' % R.selfNode))
        inst = 'candidacy requires an own address'
        if ok:
            ctx.ok(inst, t.loc(st), 'selfNode is not None entailed at the term increment')
        else:
            ctx.violation('%s:candidacy-without-address' % t.qualname, t.loc(st), 'a read-only node (no own address) can start a candidacy: %s' % res.path_str(n.id, cex), instance=inst)
    # sends
    for f, c, d, ty, tgt in U.all_send_sites(ctx):
        if ty is None:
            continue
        fcfg = U.explorer(ctx, f).cfg
        n = U.node_containing(fcfg, c)
        loops = [p for p in n.parents if isinstance(p, ast.For)]
        for lp in loops:
            attrs = set(P.self_attr(x, f.self_name) for x in ast.walk(lp.iter)) - {None}
            if ty == 'request_vote':
                inst = 'request_vote sent to voters only'
                ctx.tick()
                if attrs == {R.voters}:
                    ctx.ok(inst, f.loc(c), 'loop over self.%s' % R.voters)
                else:
                    ctx.violation('%s:request-vote-targets' % f.qualname, f.loc(c), 'vote requests are sent over `%s`, not the voter set' % unparse(lp.iter), instance=inst)
            elif R.observers in attrs:
                inst = '%s sent in a loop that includes observers' % ty
                ctx.tick()
                if ty == 'append_entries':
                    ctx.ok(inst, f.loc(c), 'observers only receive append_entries', nontrivial=False)
                else:
                    ctx.violation('%s:observer-receives-%s' % (f.qualname, ty), f.loc(c), 'read-only nodes are sent `%s` messages' % ty, instance=inst)
    ctx.expect_min(2)


@rule('R-observer-bookkeeping', 'connecting / disconnecting a read-only node touches only the observer set, the connected set '
                                'and its nextIndex/matchIndex entries')
def r_observer_bookkeeping(ctx):
    P, R = ctx.P, ctx.R
    allowed = {'A:' + R.observers, 'A:' + R.connected, 'A:' + R.nextIndex, 'A:' + R.matchIndex, 'A:' + R.serializer}
    n = 0
    for key in ('setOnReadonlyNodeConnectedCallback', 'setOnReadonlyNodeDisconnectedCallback'):
        f = R.slot_methods.get(key)
        ctx.require(f is not None, 'no method registered for %s' % key)
        w = P.writes(f)
        extra = w - allowed
        ctx.tick()
        n += 1
        if extra:
            ctx.violation('%s:observer-callback-writes-%s' % (f.qualname, '+'.join(sorted(x[2:] for x in extra))), f.loc(),
                          'the read-only connect/disconnect callback writes %s (a read-only node influences protocol state)' % sorted(extra),
                          instance='%s footprint' % f.qualname)
        else:
            ctx.ok('%s footprint' % f.qualname, f.loc(), 'writes %s' % sorted(w))
    # and it is complete: a connecting observer enters the observer set, the connected set and both index tables on every
    # path (otherwise it never receives entries / is served from a stale index); a leaving one is removed from all four
    con = R.slot_methods.get('setOnReadonlyNodeConnectedCallback')
    dis = R.slot_methods.get('setOnReadonlyNodeDisconnectedCallback')
    for f, verb, want_kinds in ((con, 'enters', {'add', 'elem_write'}), (dis, 'leaves', {'discard', 'remove', 'pop', 'elem_del'})):
        cfg = U.explorer(ctx, f).cfg
        for attr, what in ((R.observers, 'observer set'), (R.connected, 'connected set'), (R.nextIndex, 'next-index table'), (R.matchIndex, 'match-index table')):
            inst = '%s: the node %s the %s on every path' % (f.qualname, verb, what)
            ctx.tick()
            nodes = []
            for a in P.accesses(f):
                if a.attr != attr:
                    continue
                k = a.kind
                if k == 'mutcall' and isinstance(a.node, ast.Call) and isinstance(a.node.func, ast.Attribute):
                    k = a.node.func.attr
                if k in want_kinds:
                    nn = U.node_containing(cfg, a.node)
                    if nn is not None:
                        nodes.append(nn.id)
            if nodes and cfg.exit.id not in cfg.reachable_from(cfg.entry.id, avoid=nodes, follow_exc=False):
                ctx.ok(inst, f.loc(), 'normal exit unreachable without it')
            else:
                ctx.violation('%s:observer-%s-incomplete-%s' % (f.qualname, 'connect' if f is con else 'disconnect', what.replace(' ', '-')), f.loc(),
                              'a read-only node that %s is %s the %s on some path: %s'
                              % ('connects' if f is con else 'disconnects', 'not put into' if f is con else 'not removed from', what,
                                 'it is never sent entries and cannot converge' if f is con else 'the leader keeps serving / counting a node that is gone'), instance=inst)
    ctx.expect_min(10)


@rule('R-selfnode-deref', 'every attribute access on the own-node object in code reachable from the tick or the message '
                          'handler is guarded by `selfNode is not None` (read-only nodes have none)')
def r_selfnode_deref(ctx):
    P, R = ctx.P, ctx.R
    roots = [R.tick, R.handler]
    funcs = [f for f in P.reachable_funcs(roots, follow_field=False) if f.owner_cls is R.S]
    n_sites = 0
    for f in funcs:
        sn = f.self_name
        derefs = []
        for n in U.walk_no_nested(f.node):
            if isinstance(n, ast.Attribute) and P.self_attr(n.value, sn) == R.selfNode:
                derefs.append(n)
        if not derefs:
            continue
        ex = U.explorer(ctx, f)
        res = U.full_run(ctx, f)
        for d in derefs:
            n_sites += 1
            nodes = U.nodes_containing(ex.cfg, d)
            inst = '%s: `%s`' % (f.qualname, unparse(d))
            bad = None
            for n in nodes:
                ok, cex = U.must(ctx, res, n.id, U.goal(ex, 'self.%s is not None' % R.selfNode))
                if not ok:
                    bad = (n, cex)
            # conditions are split: `a is not None and a.x` -- the deref node itself carries the fact
            if bad is None:
                ctx.ok(inst, f.loc(d), 'selfNode is not None entailed')
            else:
                # become-leader etc. are only reached behind guarded call sites: accept when every caller site entails it
                callers = P.callers_of(f)
                guarded = bool(callers)
                for g, call in callers:
                    gex = U.explorer(ctx, g)
                    gres = U.full_run(ctx, g)
                    gn = U.node_containing(gex.cfg, call)
                    okc, _ = U.must(ctx, gres, gn.id, U.goal(gex, 'self.%s is not None' % R.selfNode))
                    if not okc:
                        guarded = False
                if guarded:
                    ctx.ok(inst, f.loc(d), 'entailed at every call site of %s' % f.name)
                else:
                    n, cex = bad
                    ctx.violation('%s:dereferences-selfNode-unguarded' % f.qualname, f.loc(d),
                                  '`%s` is evaluated on a path where the node may have no own address (read-only node): %s' % (unparse(d), res.path_str(n.id, cex)),
                                  instance=inst)
    ctx.require(n_sites >= 1, 'no dereference of the own node object in tick-reachable code (role vanished?)')
    ctx.expect_min(1)


# ----------------------------------------------------------------------------- C20
def _table_get(P, f, e, attr):
    """e is `self.<attr>.get(key[, default])`"""
    return isinstance(e, ast.Call) and isinstance(e.func, ast.Attribute) and e.func.attr == 'get' and P.self_attr(e.func.value, f.self_name) == attr and bool(e.args)


def fallback_site(ctx):
    """(function, majority test, counted condition ast) of the leader fallback: the majority test whose counter counts
    recent responders (its counting condition reads the last-response table, by subscript or by iterating its values)"""
    from .election import _counter_info
    P, R = ctx.P, ctx.R
    best = None
    for f, cmpn, a, counter, th, lc in majority_sites(ctx):
        if not isinstance(counter, ast.Name):
            continue
        info = _counter_info(ctx, f, counter, cmpn)
        if info is None:
            continue
        extra = info[4]
        cond, it = extra.get('cond'), extra.get('iter')
        if cond is None:
            continue
        by_sub = any(isinstance(s_, ast.Subscript) and P.self_attr(s_.value, f.self_name) == R.lastResponseTime for s_ in ast.walk(cond))
        by_iter = it is not None and any(P.self_attr(x, f.self_name) == R.lastResponseTime for x in ast.walk(it))
        by_get = any(_table_get(P, f, s_, R.lastResponseTime) for s_ in ast.walk(cond))
        if by_sub or by_iter or by_get:
            best = (f, cmpn, extra)
    if best is None:
        raise AnalysisError('leader fallback test (majority over recent responders) not found')
    return best


@rule('R-fallback-every-tick', 'a leader evaluates the fallback test on every tick; it counts voters that answered within '
                               'leaderFallbackTimeout, and the failing arm makes the node a FOLLOWER without leader')
def r_fallback_every_tick(ctx):
    P, R = ctx.P, ctx.R
    t = R.tick
    ex = U.explorer(ctx, t)
    cfg = ex.cfg
    ff, cmpn, cinfo = fallback_site(ctx)
    fex = U.explorer(ctx, ff)
    fcfg = fex.cfg
    cns = U.decision_nodes(fcfg, ff, cmpn)
    ctx.require(cns, 'the fallback majority comparison does not decide a branch')
    cn = cns[0]
    if ff is t:
        test_nodes = [cn.id]
    else:
        # the tick must call the helper; inside the helper the test must be reached on every path
        test_nodes = [U.node_containing(cfg, c).id for g, c in P.callers_of(ff) if g is t]
        ctx.require(test_nodes, 'the tick does not call %s' % ff.qualname)
        ctx.tick()
        if fcfg.exit.id in fcfg.reachable_from(fcfg.entry.id, avoid=[cn.id], follow_exc=False):
            ctx.violation('%s:fallback-helper-skips-test' % ff.qualname, ff.loc(), 'the fallback helper can return without evaluating the majority test', instance='fallback helper always tests')
    # first LEADER test in the tick
    leader_conds = []
    st_key = 'self.' + R.raftState
    ld_key = '%s.LEADER' % R.state_class
    for n in cfg.nodes:
        if n.kind != 'cond':
            continue
        lit = ex.edge_literal(n, True)      # also sees through `self._isLeader()`
        if lit is not None and lit[0] == 'eq' and {lit[1].key, lit[2].key} == {st_key, ld_key}:
            leader_conds.append(n)
    ctx.require(leader_conds, 'no `state == LEADER` block in the tick')
    first = min(leader_conds, key=lambda n: U.ordr(t, n.ast))
    tt = [d for d, l in first.succ if l == ('cond', True)][0]
    reach = cfg.reachable_from(tt, avoid=test_nodes, follow_exc=False)
    inst = 'leader tick always reaches the fallback test'
    ctx.tick()
    if cfg.exit.id in reach:
        ctx.violation('%s:leader-tick-skips-fallback' % t.qualname, t.loc(first.ast),
                      'a leader can finish a tick without evaluating the fallback test (a cut-off leader keeps reporting itself as leader)', instance=inst)
    else:
        ctx.ok(inst, ff.loc(cmpn), 'tick exit unreachable from the LEADER block without passing the test')
    # counting condition: lastResponseTime[v] > now - timeout
    c = cinfo['cond']
    varnames = set(x.id for x in ast.walk(cinfo['var']) if isinstance(x, ast.Name)) if cinfo.get('var') is not None else set()
    iter_is_table = cinfo.get('iter') is not None and any(P.self_attr(x, ff.self_name) == R.lastResponseTime for x in ast.walk(cinfo['iter']))
    inst = 'a voter counts as alive iff it answered within the fallback timeout'
    okc = False
    if isinstance(c, ast.Compare) and len(c.ops) == 1:
        l, r, op = c.left, c.comparators[0], c.ops[0]
        def is_entry(e):
            return (isinstance(e, ast.Subscript) and P.self_attr(e.value, ff.self_name) == R.lastResponseTime) or _table_get(P, ff, e, R.lastResponseTime) \
                or (iter_is_table and isinstance(e, ast.Name) and e.id in varnames)
        l_is = is_entry(l)
        other = r if l_is else l
        # a voter without an entry must not count as "answered just now"
        for g_ in (l, r):
            if _table_get(P, ff, g_, R.lastResponseTime) and len(g_.args) > 1 and any(_is_clock_call(x) for x in ast.walk(g_.args[1])):
                ctx.violation('%s:fallback-missing-entry-counts-as-recent' % ff.qualname, ff.loc(g_),
                              '`%s`: a voter that never answered (no entry) is counted as having answered now, on every tick -- with such a voter the leader never steps down'
                              % unparse(g_), instance='a voter without a response entry is not counted as alive')
        good_dir = (l_is and isinstance(op, (ast.Gt, ast.GtE))) or (not l_is and isinstance(op, (ast.Lt, ast.LtE)))
        d = other
        if isinstance(other, ast.Name):
            defs = [x for x in U.walk_no_nested(ff.node) if isinstance(x, ast.Assign) and any(isinstance(tg, ast.Name) and tg.id == other.id for tg in x.targets)]
            d = defs[-1].value if defs else None
        # now - <the configured fallback timeout itself> (not a maximum / sum with another period)
        rt = U.deref1(P, ff, d.right) if isinstance(d, ast.BinOp) else None
        shape = isinstance(d, ast.BinOp) and isinstance(d.op, ast.Sub) and _is_clock_call(d.left) and \
            isinstance(rt, ast.Attribute) and rt.attr == 'leaderFallbackTimeout'
        okc = good_dir and shape
    ctx.tick()
    if okc:
        ctx.ok(inst, ff.loc(c), '`%s` with deadline = now - conf.leaderFallbackTimeout' % unparse(c))
    else:
        ctx.violation('%s:fallback-count-condition' % ff.qualname, ff.loc(c), 'responders are counted under `%s`, which is not "answered after now - leaderFallbackTimeout"' % unparse(c), instance=inst)
    # failing arm
    op = cmpn.ops[0]
    from .election import counter_on_left
    counter_left = counter_on_left(cmpn)
    fail_when_true = (isinstance(op, (ast.LtE, ast.Lt)) and counter_left) or (isinstance(op, (ast.GtE, ast.Gt)) and not counter_left)
    arm = [d for d, l in cn.succ if l == ('cond', fail_when_true)]
    fol = [n.id for n in _set_state_nodes(ctx, fex, ff, 'FOLLOWER')]
    lead_none = [n.id for n in fcfg.nodes if n.kind == 'stmt' and isinstance(n.ast, ast.Assign) and any(P.self_attr(x, ff.self_name) == R.leaderPtr for x in n.ast.targets)
                 and isinstance(n.ast.value, ast.Constant) and n.ast.value.value is None]
    inst = 'failing fallback test steps down and forgets the leader'
    ctx.tick()
    problems = []
    if not arm:
        problems.append('no failing arm')
    else:
        if fcfg.exit.id in fcfg.reachable_from(arm[0], avoid=fol, follow_exc=False):
            problems.append('the failing arm does not switch to FOLLOWER on every path')
        if fcfg.exit.id in fcfg.reachable_from(arm[0], avoid=lead_none, follow_exc=False):
            problems.append('the failing arm does not clear the leader pointer on every path')
    if problems:
        ctx.violation('%s:fallback-arm' % ff.qualname, ff.loc(cmpn), '; '.join(problems), instance=inst)
    else:
        ctx.ok(inst, ff.loc(cmpn), 'FOLLOWER transition and leader pointer reset on all paths of the failing arm')
    ctx.expect_min(3)


@rule('R-response-time-writes', 'the last-response table is refreshed only by next_node_idx replies while leader, and '
                                '(re)initialised with the current time on becoming leader / adding a voter')
def r_response_time_writes(ctx):
    P, R = ctx.P, ctx.R
    msg = R.handler_msg_param
    for f in P.methods_of(R.S):
        if f.name == '__init__':
            continue
        for a in P.accesses(f):
            if a.attr != R.lastResponseTime or a.kind not in ('elem_write', 'write'):
                continue
            st = a.node
            inst = '%s: `%s`' % (f.qualname, unparse(st))
            if not (isinstance(st, ast.Assign) and _is_clock_call(st.value)):
                ctx.violation('%s:response-time-value' % f.qualname, f.loc(st), 'last response time set to `%s`, not to the current time' % unparse(getattr(st, 'value', st)), instance=inst)
                continue
            ex = U.explorer(ctx, f)
            res = U.full_run(ctx, f)
            n = U.node_containing(ex.cfg, st)
            if f is R.handler:
                ok1, c1 = U.must(ctx, res, n.id, U.goal(ex, "%s['type'] == 'next_node_idx'" % msg))
                ok2, c2 = U.must(ctx, res, n.id, U.goal(ex, 'self.%s == %s.LEADER' % (R.raftState, R.state_class)))
                if ok1 and ok2:
                    ctx.ok(inst, f.loc(st), 'under type == next_node_idx and state == LEADER')
                else:
                    ctx.violation('%s:response-time-refreshed-by-other-message' % f.qualname, f.loc(st),
                                  'the last response time is refreshed by something other than a next_node_idx reply received as leader', instance=inst)
            else:
                # outside the handler only an initial stamp is legitimate (a voter that just became one, or all voters when
                # this node was just elected): never a transport event -- a (re)connection is not a response
                conn_events = [m for k, m in R.slot_methods.items() if m is not None and m is not R.handler and 'onnected' in k]
                reach = P.reachable_funcs(conn_events, follow_field=False) if conn_events else set()
                if f in conn_events:
                    ctx.violation('%s:response-time-refreshed-by-connection-event' % f.qualname, f.loc(st),
                                  'the last response time of a voter is refreshed by a connection event: a cut-off leader whose links flap keeps counting silent voters as responsive '
                                  'and never steps down', instance=inst)
                else:
                    ctx.ok(inst, f.loc(st), 'initialisation with the current time (not in a connection-event callback)', nontrivial=False)
    ctx.expect_min(2)


def _mini_eval(func, env, resolve):
    """interpret a straight-line function body with ifs over small integers (the body is data)"""
    class Ret(Exception):
        pass
    result = {}

    def ev(e):
        r = resolve(e, env)
        if r is not None:
            return r[0]
        if isinstance(e, ast.Name):
            if e.id in env:
                return env[e.id]
            raise AnalysisError('hasQuorum: unbound name %s (read before it is assigned)' % e.id)
        if isinstance(e, ast.Constant):
            return e.value
        if isinstance(e, ast.BinOp):
            return U.eval_arith(ast.BinOp(left=ast.Constant(value=ev(e.left)), op=e.op, right=ast.Constant(value=ev(e.right))), {})
        if isinstance(e, ast.Compare) and len(e.ops) == 1:
            return U.eval_arith(ast.Compare(left=ast.Constant(value=ev(e.left)), ops=e.ops, comparators=[ast.Constant(value=ev(e.comparators[0]))]), {})
        if isinstance(e, ast.BoolOp):
            vals = [ev(v) for v in e.values]
            return all(vals) if isinstance(e.op, ast.And) else any(vals)
        if isinstance(e, ast.UnaryOp) and isinstance(e.op, ast.Not):
            return not ev(e.operand)
        raise AnalysisError('hasQuorum: expression `%s` not interpreted' % unparse(e))

    def run(stmts):
        for s in stmts:
            if isinstance(s, ast.Expr) and isinstance(s.value, ast.Constant):
                continue
            if isinstance(s, ast.Pass):
                continue
            if isinstance(s, ast.Assign) and len(s.targets) == 1 and isinstance(s.targets[0], ast.Name):
                r = resolve(s.value, env)
                env[s.targets[0].id] = r[0] if r is not None else ev(s.value)
            elif isinstance(s, ast.AugAssign) and isinstance(s.target, ast.Name):
                if s.target.id not in env:
                    raise AnalysisError('hasQuorum: `%s` updates a name that is not bound on this path' % unparse(s)[:40])
                env[s.target.id] = U.eval_arith(ast.BinOp(left=ast.Constant(value=env[s.target.id]), op=s.op, right=ast.Constant(value=ev(s.value))), {})
            elif isinstance(s, ast.If):
                run(s.body if ev(s.test) else s.orelse)
            elif isinstance(s, ast.Return):
                result['v'] = ev(s.value)
                raise Ret()
            else:
                raise AnalysisError('hasQuorum: statement `%s` not interpreted' % unparse(s)[:40])
    try:
        run(func.node.body)
    except Ret:
        pass
    return result.get('v')


@rule('R-hasquorum', 'hasQuorum equals "connected voters (+self) are a strict majority of voters (+self)" for every cluster '
                     'size 0..8, every number of connected voters, with and without an own address, also when the connected '
                     'set holds read-only nodes or stale (removed) nodes')
def r_hasquorum(ctx):
    P, R = ctx.P, ctx.R
    f = P.lookup_method(R.S, 'hasQuorum')
    ctx.require(f is not None, 'public property hasQuorum is gone')
    sn = f.self_name
    state = {}
    # node categories: VC voter connected, VD voter not connected, OC read-only connected, ST stale (in the connected set only)
    SETS = {'voters': frozenset(['VC', 'VD']), 'connected': frozenset(['VC', 'OC', 'ST']), 'observers': frozenset(['OC'])}

    class SetVal(object):
        def __init__(self, cats):
            self.cats = frozenset(cats)

        def size(self):
            return sum(state[c] for c in self.cats)

    def as_set(e, env):
        a = P.self_attr(e, sn)
        if a == R.voters:
            return SetVal(SETS['voters'])
        if a == R.connected:
            return SetVal(SETS['connected'])
        if a == R.observers:
            return SetVal(SETS['observers'])
        if isinstance(e, ast.Name) and isinstance(env.get(e.id), SetVal):
            return env[e.id]
        if isinstance(e, ast.Call) and isinstance(e.func, ast.Attribute) and e.func.attr in ('intersection', 'union', 'difference', 'copy') :
            l = as_set(e.func.value, env)
            if l is None:
                return None
            if e.func.attr == 'copy':
                return l
            if not e.args:
                return None
            r = as_set(e.args[0], env)
            if r is None:
                return None
            return SetVal({'intersection': l.cats & r.cats, 'union': l.cats | r.cats, 'difference': l.cats - r.cats}[e.func.attr])
        if isinstance(e, ast.BinOp) and isinstance(e.op, (ast.BitAnd, ast.BitOr, ast.Sub)):
            l, r = as_set(e.left, env), as_set(e.right, env)
            if l is None or r is None:
                return None
            return SetVal(l.cats & r.cats if isinstance(e.op, ast.BitAnd) else (l.cats | r.cats if isinstance(e.op, ast.BitOr) else l.cats - r.cats))
        if isinstance(e, ast.Call) and isinstance(e.func, ast.Name) and e.func.id in ('set', 'frozenset', 'list') and len(e.args) == 1:
            return as_set(e.args[0], env)
        return None

    def resolve(e, env):
        sv = as_set(e, env)
        if sv is not None:
            return (sv,)
        if isinstance(e, ast.Compare) and len(e.ops) == 1 and P.self_attr(e.left, sn) == R.selfNode and isinstance(e.comparators[0], ast.Constant) \
                and e.comparators[0].value is None:
            has = state['s']
            return (has if isinstance(e.ops[0], ast.IsNot) else not has,)
        if isinstance(e, ast.Call) and isinstance(e.func, ast.Name) and e.func.id == 'len' and e.args:
            sv = as_set(e.args[0], env)
            if sv is not None:
                return (sv.size(),)
            return None
        return None
    bad = None
    n_eval = 0
    try:
        for n in range(0, 9):
            for c in range(0, n + 1):
                for o in (0, 2):
                    for st in (0, 1):
                        for s in (True, False):
                            state.update({'VC': c, 'VD': n - c, 'OC': o, 'ST': st, 's': s})
                            v = _mini_eval(f, {}, resolve)
                            n_eval += 1
                            want = 2 * (c + (1 if s else 0)) > (n + (1 if s else 0))
                            if bool(v) != want and bad is None:
                                bad = (n, c, o, st, s, v, want)
    except AnalysisError as e:
        if 'not bound' in str(e) or 'unbound name' in str(e):
            # a name read before any assignment on some path: hasQuorum raises for that cluster shape
            ctx.violation('%s:reads-unbound-name' % f.qualname, f.loc(), 'for some cluster shape %s' % str(e).replace('hasQuorum: ', 'hasQuorum '), instance='hasQuorum arithmetic')
        else:
            ctx.unproven('hasQuorum arithmetic', f.loc(), str(e))
        ctx.expect_min(1)
        return
    ctx.tick(n_eval)
    if bad is None:
        ctx.ok('hasQuorum arithmetic', f.loc(), '%d evaluations (n=0..8 voters, every connected count, 0/2 read-only and 0/1 stale nodes in the connected set, with/without own address)' % n_eval)
    else:
        n, c, o, st, s, v, want = bad
        ctx.violation('SyncObj.hasQuorum:arithmetic', f.loc(),
                      'with %d other voters, %d of them connected, %d read-only and %d removed-but-still-connected nodes in the connected set and %s own address hasQuorum evaluates to %s, expected %s'
                      % (n, c, o, st, 'an' if s else 'no', v, want), instance='hasQuorum arithmetic')
    ctx.expect_min(1)


@rule('R-heartbeat', 'a leader sends append_entries whenever its heartbeat deadline has passed, and every send pass re-arms the deadline '
                     'one appendEntriesPeriod ahead; the configuration asserts election timeout > heartbeat period')
def r_heartbeat(ctx):
    P, R = ctx.P, ctx.R
    t = R.tick
    snd = sender_func(ctx)
    ex = U.explorer(ctx, t)
    cfg = ex.cfg
    res = U.full_run(ctx, t)
    calls = [c for c in P.calls_in(t) if snd in P.resolve_call(t, c).targets]
    ctx.require(calls, 'the tick never calls the append_entries sender')
    # deadline attribute: assigned clock + conf.appendEntriesPeriod in the sender
    dl = None
    for st in ast.walk(snd.node):
        if isinstance(st, ast.Assign) and P.self_attr(st.targets[0], snd.self_name) and isinstance(st.value, ast.BinOp) and isinstance(st.value.op, ast.Add) \
                and any(U.is_clock_call(x) for x in ast.walk(st.value)) and any(isinstance(x, ast.Attribute) and x.attr == 'appendEntriesPeriod' for x in ast.walk(st.value)):
            dl = (P.self_attr(st.targets[0], snd.self_name), st)
    inst = 'every send pass re-arms the heartbeat deadline'
    ctx.tick()
    if dl is None:
        ctx.violation('%s:heartbeat-deadline-not-rearmed' % snd.qualname, snd.loc(), 'the sender does not set the next heartbeat time to now + appendEntriesPeriod', instance=inst)
        ctx.expect_min(1)
        return
    scfg = U.explorer(ctx, snd).cfg
    dn = U.node_containing(scfg, dl[1])
    if scfg.exit.id in scfg.reachable_from(scfg.entry.id, avoid=[dn.id], follow_exc=False):
        ctx.violation('%s:heartbeat-deadline-not-rearmed' % snd.qualname, snd.loc(dl[1]), 'a send pass can finish without re-arming the heartbeat deadline', instance=inst)
    else:
        ctx.ok(inst, snd.loc(dl[1]), 'self.%s = now + conf.appendEntriesPeriod on every path' % dl[0])
    # the tick: under state == LEADER the sender call is guarded by `now > deadline` (or the need-send flag)
    inst = 'leader tick sends when the heartbeat deadline passed'
    ctx.tick()
    okg = False
    for c in calls:
        n = U.node_containing(cfg, c)
        for m in cfg.nodes:
            if m.kind == 'cond' and isinstance(m.ast, ast.Compare) and len(m.ast.ops) == 1:
                l, r, op = m.ast.left, m.ast.comparators[0], m.ast.ops[0]
                if (U.is_clock_call(l) and P.self_attr(r, t.self_name) == dl[0] and isinstance(op, (ast.Gt, ast.GtE))) or \
                        (U.is_clock_call(r) and P.self_attr(l, t.self_name) == dl[0] and isinstance(op, (ast.Lt, ast.LtE))):
                    tt = [d for d, lab in m.succ if lab == ('cond', True)]
                    if tt and n.id in cfg.reachable_from(tt[0], avoid=[m.id]):
                        # and the cond itself is reached on every leader tick path
                        lit_leader = all(any(l_[0] == 'eq' and {l_[1].key, l_[2].key} == {'self.' + R.raftState, '%s.LEADER' % R.state_class} for l_ in fs) for fs in res.facts_at(m.id))
                        if lit_leader:
                            okg = True
    if okg:
        ctx.ok(inst, t.loc(calls[0]), 'sender called on the true edge of `now > self.%s` inside a LEADER block' % dl[0])
    else:
        ctx.violation('%s:no-heartbeat-test' % t.qualname, t.loc(calls[0]), 'the leader tick does not call the sender on "now > heartbeat deadline": followers time out and start elections under a healthy leader', instance=inst)
    # configuration sanity asserted
    conf = P.cls('SyncObjConf')
    v = conf.methods.get('validate')
    inst = 'configuration asserts election timeout > heartbeat period and fallback timeout > heartbeat period'
    ctx.tick()
    asserts = [unparse(a.test) for a in ast.walk(v.node) if isinstance(a, ast.Assert)] if v else []

    def has(lhs, rhs):
        for a in asserts:
            if lhs in a.split('>')[0] and len(a.split('>')) > 1 and rhs in a.split('>', 1)[1]:
                return True
        return False
    if has('raftMinTimeout', 'appendEntriesPeriod') and has('raftMaxTimeout', 'raftMinTimeout') and has('leaderFallbackTimeout', 'appendEntriesPeriod'):
        ctx.ok(inst, v.loc(), '')
    else:
        ctx.violation('SyncObjConf.validate:timing-relations-not-asserted', v.loc() if v else '', 'validate() no longer asserts raftMinTimeout > appendEntriesPeriod, raftMaxTimeout > raftMinTimeout, leaderFallbackTimeout > appendEntriesPeriod', instance=inst)
    ctx.expect_min(3)
