"""Batteries: container delegation agreement (C15), replicated locks (C16)."""
import ast
import inspect
from . import rule
from .. import util as U
from ..pyir import AnalysisError, unparse
from .. import oracle

BATTERIES = ('ReplCounter', 'ReplList', 'ReplDict', 'ReplSet', 'ReplQueue', 'ReplPriorityQueue')

NODEF = object()
# frozen reference signatures of the builtin methods the batteries forward to:
#   name -> ([(param, default or NODEF)], returns a value?)
REF = {
    'list': {
        'append': ([('object', NODEF)], False), 'extend': ([('iterable', NODEF)], False),
        'insert': ([('index', NODEF), ('object', NODEF)], False), 'remove': ([('value', NODEF)], False),
        'pop': ([('index', -1)], True), 'sort': ([('key', None), ('reverse', False)], False),
        'index': ([('value', NODEF), ('start', 0), ('stop', 9223372036854775807)], True), 'count': ([('value', NODEF)], True),
        'clear': ([], False),
    },
    'dict': {
        'setdefault': ([('key', NODEF), ('default', None)], True), 'update': ([('other', NODEF)], False),
        'pop': ([('key', NODEF), ('default', NODEF)], True), 'clear': ([], False),
        'get': ([('key', NODEF), ('default', None)], True), 'keys': ([], True), 'values': ([], True), 'items': ([], True),
    },
    'set': {
        'add': ([('object', NODEF)], False), 'remove': ([('object', NODEF)], False), 'discard': ([('object', NODEF)], False),
        'pop': ([], True), 'clear': ([], False), 'update': ([('others', NODEF)], False),
    },
    'deque': {
        'append': ([('x', NODEF)], False), 'appendleft': ([('x', NODEF)], False), 'popleft': ([], True), 'pop': ([], True),
    },
}
# documented deviations: (class, method) -> reason
DEVIATIONS = {
    ('ReplDict', 'pop'): 'docstring: "return default if key not exist" -- the wrapper deliberately supplies default=None instead of raising KeyError',
    ('ReplList', 'sort'): 'only the reverse flag is exposed (a key function cannot be pickled); forwarded by keyword',
    ('ReplList', 'index'): 'start/stop are not exposed; a pure read, never replicated',
}


def container_kind(P, cls):
    init = cls.methods.get('__init__')
    if init is None:
        return None, None
    for n in ast.walk(init.node):
        if isinstance(n, ast.Assign) and P.self_attr(n.targets[0], init.self_name):
            v = n.value
            a = P.self_attr(n.targets[0], init.self_name)
            if isinstance(v, ast.List):
                return a, 'list'
            if isinstance(v, ast.Dict):
                return a, 'dict'
            if isinstance(v, ast.Call) and unparse(v.func) == 'set':
                return a, 'set'
            if isinstance(v, ast.Call) and unparse(v.func).endswith('deque'):
                return a, 'deque'
            if isinstance(v, ast.Call) and unparse(v.func) == 'int':
                return a, 'int'
    return None, None


def _xcheck_builtin(kind, name, params):
    """cross-check the frozen table with inspect.signature of the analysing interpreter where CPython exposes one"""
    import collections
    obj = {'list': list, 'dict': dict, 'set': set, 'deque': collections.deque}[kind]
    try:
        sig = inspect.signature(getattr(obj, name))
    except (ValueError, TypeError):
        return None
    ps = [p for p in sig.parameters.values() if p.name != 'self' and p.kind not in (p.VAR_POSITIONAL, p.VAR_KEYWORD)]
    if len(ps) != len(params):
        return 'table has %d parameters, interpreter reports %d' % (len(params), len(ps))
    for p, (n, d) in zip(ps, params):
        if (p.default is p.empty) != (d is NODEF):
            return 'default presence differs for %s' % p.name
        if p.default is not p.empty and p.default != d:
            return 'default differs for %s: %r vs %r' % (p.name, p.default, d)
    return True


@rule('R-delegate-agree', 'every battery method that forwards to a method of the wrapped builtin container agrees with it: '
                          'same operation, parameters forwarded in order, compatible defaults, value returned when the '
                          'builtin returns one')
def r_delegate_agree(ctx):
    P = ctx.P
    n_methods = 0
    xchecked = 0
    for cn in BATTERIES:
        if not P.has_cls(cn):
            raise AnalysisError('battery class %s gone' % cn)
        cls = P.cls(cn)
        attr, kind = container_kind(P, cls)
        if kind not in REF:
            continue
        for m in P.methods_of(cls):
            if m.name == '__init__':
                continue
            sn = m.self_name
            calls = [c for c in P.calls_in(m) if isinstance(c.func, ast.Attribute) and P.self_attr(c.func.value, sn) == attr]
            body = [s for s in m.node.body if not (isinstance(s, ast.Expr) and isinstance(s.value, ast.Constant))]
            # a public operation of the wrapper touches the wrapped container at all
            if not m.name.startswith('_') or m.name in ('__setitem__', '__getitem__', '__delitem__', '__len__', '__contains__'):
                touches = any(a_.attr == attr for a_ in P.accesses(m))
                ctx.tick()
                if not touches:
                    ctx.violation('%s.%s:wrapper-ignores-container' % (cn, m.name), m.loc(), 'the method never reads or changes self.%s: the operation has no effect / no answer' % attr,
                                  instance='%s.%s works on the wrapped %s' % (cn, m.name, kind))
            if len(calls) != 1 or len(body) != 1 or not isinstance(body[0], (ast.Expr, ast.Return)):
                # not a pure delegation (e.g. ReplQueue.get wraps popleft in try/except).  A method named like an operation of
                # the wrapped builtin must still hand each of its parameters to that operation: emulating a parameter by other
                # container calls (`sort(); if reverse: reverse()`) is a different operation (order of equal elements, errors)
                if m.name in REF[kind]:
                    same = [c for c in calls if c.func.attr == m.name]
                    ctx.tick()
                    if same:
                        passed = set(x.id for c in same for x in ast.walk(c) if isinstance(x, ast.Name))
                        lost = [p_ for p_ in m.params[1:] if p_ not in passed]
                        if lost:
                            ctx.violation('%s.%s:parameter-not-forwarded' % (cn, m.name), m.loc(same[0]),
                                          'parameter(s) %s of %s.%s are not handed to %s.%s but emulated around it: the result differs from the builtin for the inputs where the '
                                          'emulation is not exact' % (lost, cn, m.name, kind, m.name), instance='%s.%s -> %s.%s' % (cn, m.name, kind, m.name))
                        else:
                            ctx.ok('%s.%s -> %s.%s (wrapped)' % (cn, m.name, kind, m.name), m.loc(same[0]), 'every parameter reaches the builtin operation')
                continue
            c = calls[0]
            bname = c.func.attr
            if bname not in REF[kind]:
                ctx.unproven('%s.%s -> %s.%s' % (cn, m.name, kind, bname), m.loc(), 'builtin method not in the reference table')
                continue
            n_methods += 1
            params, returns = REF[kind][bname]
            xc = _xcheck_builtin(kind, bname, params)
            if xc is True:
                xchecked += 1
            elif xc is not None:
                raise AnalysisError('reference table for %s.%s disagrees with the interpreter: %s' % (kind, bname, xc))
            inst = '%s.%s -> %s.%s' % (cn, m.name, kind, bname)
            dev = DEVIATIONS.get((cn, m.name))
            problems = []
            # 1. same operation name
            if m.name != bname:
                problems.append('wrapper `%s` forwards to `%s.%s`' % (m.name, kind, bname))
            # 2. parameters forwarded in order
            mparams = m.params[1:]
            a = m.node.args
            mdefaults = dict(zip(mparams[len(mparams) - len(a.defaults):], a.defaults))
            pos_args = [unparse(x) for x in c.args]
            kw_args = dict((k.arg, unparse(k.value)) for k in c.keywords)
            if c.keywords:
                if not all(k in [p for p, d in params] and v == k for k, v in kw_args.items()):
                    problems.append('keyword forwarding `%s` does not map parameters to the same-named builtin parameters' % unparse(c))
                fwd = list(pos_args) + list(kw_args.values())
            else:
                fwd = pos_args
            if fwd != mparams:
                problems.append('parameters %s are forwarded as %s' % (mparams, fwd))
            # 3. defaults
            for i, p in enumerate(mparams):
                if c.keywords and p in kw_args:
                    bp = [(bn, bd) for bn, bd in params if bn == p]
                elif i < len(params):
                    bp = [params[i]]
                else:
                    bp = []
                if not bp:
                    if not problems:
                        problems.append('the builtin takes no parameter for `%s`' % p)
                    continue
                bn, bd = bp[0]
                if p in mdefaults:
                    md = mdefaults[p]
                    mdv = md.value if isinstance(md, ast.Constant) else (-(md.operand.value) if isinstance(md, ast.UnaryOp) and isinstance(md.op, ast.USub) and isinstance(md.operand, ast.Constant) else unparse(md))
                    if bd is NODEF:
                        if not dev:
                            problems.append('`%s=%r` is optional in the wrapper but required by %s.%s' % (p, mdv, kind, bname))
                    elif mdv != bd or type(mdv) != type(bd):
                        problems.append('default `%s=%r` differs from the builtin default %r (the wrapper\'s default is passed explicitly and means something else)' % (p, mdv, bd))
                else:
                    if bd is not NODEF and not dev:
                        problems.append('`%s` is optional in %s.%s (default %r) but required by the wrapper' % (p, kind, bname, bd))
            # 4. returned value
            st = body[0]
            if returns and not (isinstance(st, ast.Return) and st.value is c):
                problems.append('%s.%s returns a value but the wrapper does not return it' % (kind, bname))
            ctx.tick()
            if problems:
                key = '%s.%s:%s' % (cn, m.name, 'default-None-forwarded' if 'default' in problems[0] and 'differs' in problems[0] else
                                    ('missing-builtin-default' if 'required by the wrapper' in problems[0] else 'delegation-mismatch'))
                ctx.violation(key, m.loc(), '; '.join(problems), instance=inst)
            else:
                ctx.ok(inst, m.loc(), ('documented deviation: ' + dev) if dev else 'name, parameter order, defaults and returned value agree')
        # subscript / len / contains forms
        for m in P.methods_of(cls):
            body = [s for s in m.node.body if not (isinstance(s, ast.Expr) and isinstance(s.value, ast.Constant))]
            if len(body) != 1 or m.name == '__init__':
                continue
            st = body[0]
            sn = m.self_name
            mparams = m.params[1:]
            if isinstance(st, ast.Assign) and isinstance(st.targets[0], ast.Subscript) and P.self_attr(st.targets[0].value, sn) == attr:
                n_methods += 1
                ctx.tick()
                if [unparse(st.targets[0].slice), unparse(st.value)] == mparams:
                    ctx.ok('%s.%s -> container[k] = v' % (cn, m.name), m.loc(), '')
                else:
                    ctx.violation('%s.%s:item-assignment-arguments' % (cn, m.name), m.loc(), '`%s` does not store parameter 2 under parameter 1' % unparse(st), instance='%s.%s item store' % (cn, m.name))
            elif isinstance(st, ast.Return) and isinstance(st.value, ast.Subscript) and P.self_attr(st.value.value, sn) == attr:
                n_methods += 1
                ctx.tick()
                if [unparse(st.value.slice)] == mparams:
                    ctx.ok('%s.%s -> container[k]' % (cn, m.name), m.loc(), '')
                else:
                    ctx.violation('%s.%s:item-read-argument' % (cn, m.name), m.loc(), '`%s` does not index with the parameter' % unparse(st), instance='%s.%s item read' % (cn, m.name))
    ctx.require(n_methods >= 20, 'only %d delegating battery methods found' % n_methods)
    ctx.info('builtin reference table cross-checked with inspect.signature', '', '%d entries confirmed by the analysing interpreter' % xchecked)
    ctx.expect_min(20)


@rule('R-counter-ops', 'ReplCounter methods perform the arithmetic their name says and return the new value')
def r_counter_ops(ctx):
    P = ctx.P
    cls = P.cls('ReplCounter')
    attr, kind = container_kind(P, cls)
    ctx.require(kind == 'int', 'ReplCounter no longer wraps an int')
    want = {'set': ('assign', None), 'add': ('aug', ast.Add), 'sub': ('aug', ast.Sub), 'inc': ('aug1', ast.Add)}
    for name, (k, op) in sorted(want.items()):
        m = cls.methods.get(name)
        ctx.require(m is not None, 'ReplCounter.%s gone' % name)
        body = [s for s in m.node.body if not (isinstance(s, ast.Expr) and isinstance(s.value, ast.Constant))]
        ok = len(body) == 2 and isinstance(body[1], ast.Return) and P.self_attr(body[1].value, m.self_name) == attr
        st = body[0] if body else None
        if ok and k == 'assign':
            ok = isinstance(st, ast.Assign) and P.self_attr(st.targets[0], m.self_name) == attr and unparse(st.value) == m.params[1]
        elif ok and k == 'aug':
            ok = isinstance(st, ast.AugAssign) and P.self_attr(st.target, m.self_name) == attr and isinstance(st.op, op) and unparse(st.value) == m.params[1]
        elif ok and k == 'aug1':
            ok = isinstance(st, ast.AugAssign) and P.self_attr(st.target, m.self_name) == attr and isinstance(st.op, op) and isinstance(st.value, ast.Constant) and st.value.value == 1
        ctx.tick()
        if ok:
            ctx.ok('ReplCounter.%s' % name, m.loc(), unparse(st))
        else:
            ctx.violation('ReplCounter.%s:arithmetic' % name, m.loc(), 'the method does not perform `%s` on the counter and return the new value' % name, instance='ReplCounter.%s' % name)
    g = cls.methods.get('get')
    ctx.expect_min(4)


@rule('R-queue-bound', 'the bounded queues insert only while below maxsize (0 = unbounded), refuse with False otherwise, and '
                       'remove from the end opposite to insertion (FIFO) / through the heap')
def r_queue_bound(ctx):
    P = ctx.P
    for cn in ('ReplQueue', 'ReplPriorityQueue'):
        cls = P.cls(cn)
        attr, kind = container_kind(P, cls)
        put = cls.methods.get('put')
        get = cls.methods.get('get')
        ctx.require(put and get, '%s.put/get gone' % cn)
        ex = U.explorer(ctx, put)
        res = U.full_run(ctx, put)
        cfg = ex.cfg
        ins = []
        for n in cfg.nodes:
            if n.kind == 'stmt' and n.ast is not None:
                for c in [x for x in ast.walk(n.ast) if isinstance(x, ast.Call)]:
                    nm = unparse(c.func)
                    if (isinstance(c.func, ast.Attribute) and P.self_attr(c.func.value, put.self_name) == attr and c.func.attr in ('append', 'appendleft')) or nm.endswith('heappush'):
                        ins.append((n, c))
        ctx.require(ins, '%s.put does not insert' % cn)
        maxattr = None
        for n in ast.walk(put.node):
            a = P.self_attr(n, put.self_name)
            if a and a != attr:
                maxattr = a
        for n, c in ins:
            inst = '%s.put inserts only below the bound' % cn
            g = ('or', ('truthy', ex.tb.term(U.parse_expr('self.%s' % maxattr)), False),
                 ('lt', ex.tb.term(U.parse_expr('len(self.%s)' % attr)), ex.tb.term(U.parse_expr('self.%s' % maxattr))))
            ok, cex = U.must(ctx, res, n.id, g)
            if ok:
                ctx.ok(inst, put.loc(c), 'maxsize == 0 or len(data) < maxsize entailed on every path')
            else:
                ctx.violation('%s.put:insert-beyond-bound' % cn, put.loc(c), 'an item is inserted on a path where the queue may already hold maxsize items: %s' % res.path_str(n.id, cex), instance=inst)
        # return values: True after insert, False on refusal
        inst = '%s.put reports acceptance truthfully' % cn
        ins_ids = [n.id for n, c in ins]
        bad = False
        for n in cfg.nodes:
            if n.kind == 'stmt' and isinstance(n.ast, ast.Return) and isinstance(n.ast.value, ast.Constant):
                via_insert = n.id not in cfg.reachable_from(cfg.entry.id, avoid=ins_ids)
                if n.ast.value.value is True and not via_insert:
                    bad = True
                if n.ast.value.value is False and n.id in set().union(*[cfg.reachable_from(i) for i in ins_ids]):
                    bad = True
        ctx.tick()
        if bad:
            ctx.violation('%s.put:return-value' % cn, put.loc(), 'put() returns True without inserting or False after inserting', instance=inst)
        else:
            ctx.ok(inst, put.loc(), 'True only behind the insertion, False only on the refusing arm')
        # get: opposite end / heap
        inst = '%s.get removes in queue order' % cn
        gcalls = [unparse(c.func) for c in P.calls_in(get)]
        pcalls = [unparse(c.func) for n, c in ins]
        ctx.tick()
        if cn == 'ReplQueue':
            okq = (any(x.endswith('.append') for x in pcalls) and any(x.endswith('.popleft') for x in gcalls)) or \
                  (any(x.endswith('.appendleft') for x in pcalls) and any(x.endswith('.pop') for x in gcalls))
        else:
            okq = any(x.endswith('heappush') for x in pcalls) and any(x.endswith('heappop') for x in gcalls)
        if okq:
            ctx.ok(inst, get.loc(), '%s / %s' % (pcalls, [x for x in gcalls if 'pop' in x]))
        else:
            ctx.violation('%s.get:order' % cn, get.loc(), 'insertion by %s and removal by %s do not give %s order' % (pcalls, gcalls, 'FIFO' if cn == 'ReplQueue' else 'heap'), instance=inst)
        # get returns the default on an empty queue instead of raising
        inst = '%s.get returns the default when empty' % cn
        ctx.tick()
        dflt = get.params[1] if len(get.params) > 1 else None
        if dflt and any(isinstance(n, ast.Return) and isinstance(n.value, ast.Name) and n.value.id == dflt for n in ast.walk(get.node)):
            ctx.ok(inst, get.loc(), '')
        else:
            ctx.violation('%s.get:no-default' % cn, get.loc(), 'get() has no path returning the default', instance=inst)
        # observers: qsize/len/empty/full
        for nm, want in (('qsize', 'len(self.%s)' % attr), ('__len__', 'len(self.%s)' % attr), ('empty', 'len(self.%s) == 0' % attr), ('full', 'len(self.%s) == self.%s' % (attr, maxattr))):
            m = cls.methods.get(nm)
            if m is None:
                continue
            rets = [n for n in ast.walk(m.node) if isinstance(n, ast.Return)]
            ctx.tick()
            if len(rets) == 1 and unparse(rets[0].value) == want:
                ctx.ok('%s.%s' % (cn, nm), m.loc(), want, nontrivial=False)
            else:
                ctx.unproven('%s.%s' % (cn, nm), m.loc(), 'returns `%s`, reference form `%s`' % (unparse(rets[0].value) if rets else '-', want))
    ctx.expect_min(8)


@rule('R-consumer-state', 'every battery creates its state after SyncObjConsumer.__init__ recorded the infrastructure names, '
                          'and creates no attribute outside __init__ (so all of it, and only it, is serialised)')
def r_consumer_state(ctx):
    P = ctx.P
    base = P.cls('SyncObjConsumer')
    n = 0
    for cls in P.subclasses(base):
        init = cls.methods.get('__init__')
        if init is None:
            continue
        n += 1
        body = [s for s in init.node.body if not (isinstance(s, ast.Expr) and isinstance(s.value, ast.Constant))]
        first_super = bool(body) and isinstance(body[0], ast.Expr) and isinstance(body[0].value, ast.Call) and 'super' in unparse(body[0].value) and '__init__' in unparse(body[0].value)
        created = set(a.attr for a in P.accesses(init, include_nested=False) if a.kind == 'write')
        later = {}
        for m in P.methods_of(cls):
            if m is init:
                continue
            for a in P.accesses(m, include_nested=True):
                if a.kind in ('write', 'aug') and a.attr not in created and a.attr not in ('_syncObj',):
                    later[a.attr] = (m, a.node)
        ctx.tick()
        inst = '%s state layout' % cls.name
        if not first_super:
            ctx.violation('%s.__init__:state-before-super-init' % cls.name, init.loc(), 'attributes are created before SyncObjConsumer.__init__ ran: they are recorded as infrastructure and never serialised', instance=inst)
        elif later:
            a, (m, node) = sorted(later.items())[0]
            ctx.violation('%s:attribute-%s-created-outside-init' % (cls.name, a), m.loc(node), 'self.%s is created in %s, not in __init__' % (a, m.qualname), instance=inst)
        else:
            ctx.ok(inst, init.loc(), 'super().__init__() first; %d attribute(s) created in __init__ only' % len(created))
    ctx.require(n >= 6, 'battery classes not found')
    ctx.expect_min(6)


# ----------------------------------------------------------------------------- C16
def lock_impl(ctx):
    P = ctx.P
    c = P.cls('_ReplLockManagerImpl')
    for nm in ('acquire', 'release', 'prolongate', 'isAcquired'):
        if nm not in c.methods:
            raise AnalysisError('_ReplLockManagerImpl.%s gone' % nm)
    init = c.methods['__init__']
    table = unlock = None
    for n in ast.walk(init.node):
        if isinstance(n, ast.Assign):
            a = P.self_attr(n.targets[0], init.self_name)
            if a and isinstance(n.value, ast.Dict):
                table = a
            elif a and isinstance(n.value, ast.Name) and n.value.id in init.params:
                unlock = a
    if not table or not unlock:
        raise AnalysisError('lock table / auto-unlock attribute not found')
    return c, table, unlock


def _direct_expiry(P, m, n, unlock):
    if isinstance(n, ast.Compare) and len(n.ops) == 1:
        l, r = n.left, n.comparators[0]
        if isinstance(l, ast.BinOp) and isinstance(l.op, ast.Sub) and P.self_attr(r, m.self_name) == unlock:
            return (n, n.ops[0], False)
        if isinstance(r, ast.BinOp) and isinstance(r.op, ast.Sub) and P.self_attr(l, m.self_name) == unlock:
            return (n, n.ops[0], True)
    return None


class _Subst(ast.NodeTransformer):
    def __init__(self, mapping):
        self.mapping = mapping

    def visit_Name(self, node):
        if node.id in self.mapping:
            return self.mapping[node.id]
        return node


_NEG = {ast.Gt: ast.LtE, ast.GtE: ast.Lt, ast.Lt: ast.GtE, ast.LtE: ast.Gt, ast.Eq: ast.NotEq, ast.NotEq: ast.Eq}


def _expiry_compares(P, m, unlock):
    """comparisons of (now - stamp) with the auto-unlock time in m, looking through one level of helper methods
    (`self.__isExpired(stamp, now)`) by substituting the call arguments, and through a leading `not`"""
    import copy
    out = []
    cls = m.owner_cls

    def visit(n, negated):
        if isinstance(n, ast.UnaryOp) and isinstance(n.op, ast.Not):
            visit(n.operand, not negated)
            return
        d = _direct_expiry(P, m, n, unlock)
        if d is not None:
            cmpn, op, flipped = d
            if negated:
                c2 = copy.deepcopy(cmpn)
                c2.ops = [_NEG[type(op)]()]
                ast.copy_location(c2, cmpn)
                out.append((c2, c2.ops[0], flipped))
                origin[id(c2)] = cmpn
                negflag[id(c2)] = True
            else:
                out.append(d)
            return
        if isinstance(n, ast.Call) and isinstance(n.func, ast.Attribute) and isinstance(n.func.value, ast.Name) and n.func.value.id == m.self_name and cls is not None:
            h = P.lookup_method(cls, n.func.attr)
            if h is not None and h is not m:
                body = [s_ for s_ in h.node.body if not (isinstance(s_, ast.Expr) and isinstance(s_.value, ast.Constant))]
                if len(body) == 1 and isinstance(body[0], ast.Return) and _direct_expiry(P, h, body[0].value, unlock) is not None and len(n.args) == len(h.params) - 1:
                    mapping = dict(zip(h.params[1:], n.args))
                    c2 = _Subst(mapping).visit(copy.deepcopy(body[0].value))
                    for x in ast.walk(c2):
                        ast.copy_location(x, n)
                    if negated:
                        c2.ops = [_NEG[type(c2.ops[0])]()]
                    d2 = _direct_expiry(P, m, c2, unlock)
                    if d2 is not None:
                        out.append((c2, c2.ops[0], d2[2]))
                        origin[id(c2)] = n
                        negflag[id(c2)] = negated
                    return
        for c in ast.iter_child_nodes(n):
            if isinstance(c, (ast.FunctionDef, ast.Lambda)):
                continue
            visit(c, False if not isinstance(n, ast.UnaryOp) else negated)
    origin = {}
    negflag = {}
    for st in m.node.body:
        visit(st, False)
    _expiry_compares.origin = getattr(_expiry_compares, 'origin', {})
    _expiry_compares.origin.update(origin)
    _expiry_compares.neg = getattr(_expiry_compares, 'neg', {})
    _expiry_compares.neg.update(negflag)
    return out


def _dominated_by_expiry(cfg, node_id, cmpn):
    """node is reached only through the edge on which the (possibly synthetic) comparison `cmpn` is true"""
    pol = not getattr(_expiry_compares, 'neg', {}).get(id(cmpn), False)
    for cn in _cond_nodes_for(cfg, cmpn):
        tt = [d for d, l in cn.succ if l == ('cond', pol)]
        ff = [d for d, l in cn.succ if l == ('cond', not pol)]
        if node_id in cfg.reachable_from(cfg.entry.id, avoid=[cn.id]):
            continue
        if tt and node_id in cfg.reachable_from(tt[0], avoid=[cn.id]) and not (ff and node_id in cfg.reachable_from(ff[0], avoid=[cn.id])):
            return True
    return False


def _cond_nodes_for(cfg, cmpn):
    """CFG cond nodes of a (possibly synthetic, helper-inlined) expiry comparison"""
    org = getattr(_expiry_compares, 'origin', {}).get(id(cmpn), cmpn)
    direct = [x for x in U.nodes_containing(cfg, org) if x.kind == 'cond']
    if direct:
        return direct
    # the comparison kept in a boolean local (`expired = now - stamp > T` ... `if expired:`)
    return U.decision_nodes(cfg, cfg.func, org)



def _holder_terms(P, ex, m, table):
    """terms that denote the holder component (position 0) of an entry of the lock table inside method m"""
    sn = m.self_name
    out = []
    for n in U.walk_no_nested(m.node):
        # L = table.get(k[, None]) / L = table[k]  ->  L[0]
        if isinstance(n, ast.Assign) and len(n.targets) == 1 and isinstance(n.targets[0], ast.Name):
            v = n.value
            if (isinstance(v, ast.Call) and isinstance(v.func, ast.Attribute) and v.func.attr == 'get' and P.self_attr(v.func.value, sn) == table) or \
                    (isinstance(v, ast.Subscript) and P.self_attr(v.value, sn) == table):
                out.append(ex.tb.term(U.parse_expr('%s[0]' % n.targets[0].id)))
        # a, b = table[k]
        if isinstance(n, ast.Assign) and isinstance(n.targets[0], ast.Tuple) and isinstance(n.value, ast.Subscript) and P.self_attr(n.value.value, sn) == table \
                and n.targets[0].elts and isinstance(n.targets[0].elts[0], ast.Name):
            out.append(ex.tb.term(n.targets[0].elts[0]))
        # for k, (a, b) in [list(]table.items()[)]
        if isinstance(n, ast.For) and isinstance(n.target, ast.Tuple) and len(n.target.elts) == 2 and isinstance(n.target.elts[1], ast.Tuple) and n.target.elts[1].elts \
                and isinstance(n.target.elts[1].elts[0], ast.Name) and any(isinstance(c, ast.Call) and isinstance(c.func, ast.Attribute) and c.func.attr in ('items', 'iteritems')
                                                                         and P.self_attr(c.func.value, sn) == table for c in ast.walk(n.iter)):
            out.append(ex.tb.term(n.target.elts[1].elts[0]))
        # table[k][0] used directly
        if isinstance(n, ast.Subscript) and isinstance(n.slice, ast.Constant) and n.slice.value == 0 and isinstance(n.value, ast.Subscript) and P.self_attr(n.value.value, sn) == table:
            out.append(ex.tb.term(n))
    return out


def _holder_is(P, ex, res, node_id, m, table, client):
    cands = _holder_terms(P, ex, m, table)
    ct = ex.tb.term(ast.Name(id=client, ctx=ast.Load()))
    states = res.facts_at(node_id)
    return bool(states) and any(all(oracle.entails(fs, ('eq', t, ct)) for fs in states) for t in cands)


@rule('R-lock-guards', 'the lock table changes only under its guards: acquire overwrites when absent, expired or same '
                       'client; release deletes only the holder\'s entry; prolongate refreshes only the caller\'s and drops '
                       'only expired entries; isAcquired requires the holder and an unexpired stamp')
def r_lock_guards(ctx):
    P = ctx.P
    c, table, unlock = lock_impl(ctx)
    # acquire
    m = c.methods['acquire']
    ex = U.explorer(ctx, m)
    res = U.full_run(ctx, m)
    lockID, clientID, now = m.params[1:4]
    for a in P.accesses(m):
        if a.attr == table and a.kind == 'elem_write':
            n = U.node_containing(ex.cfg, a.node)
            inst = 'acquire overwrites only when absent / expired / same client'
            # local holding the current entry
            ent = None
            for d in U.walk_no_nested(m.node):
                if isinstance(d, ast.Assign) and isinstance(d.targets[0], ast.Name) and isinstance(d.value, ast.Call) and isinstance(d.value.func, ast.Attribute) \
                        and d.value.func.attr == 'get' and P.self_attr(d.value.func.value, m.self_name) == table:
                    ent = d.targets[0].id
            ctx.require(ent, 'acquire does not read the current entry into a local')
            g = ('or', ('none', ex.tb.term(ast.Name(id=ent, ctx=ast.Load())), True),
                 ('eq', ex.tb.term(U.parse_expr('%s[0]' % ent)), ex.tb.term(ast.Name(id=clientID, ctx=ast.Load()))))
            # ... or the entry that was read is known to be expired on this path (the code may keep the raw entry in one local
            # and the "live" entry in another)
            exp_lits = []
            for cmpn_, op_, flipped_ in _expiry_compares(P, m, unlock):
                if id(cmpn_) in getattr(_expiry_compares, 'origin', {}):
                    continue
                says_expired = (not flipped_ and isinstance(op_, (ast.Gt, ast.GtE))) or (flipped_ and isinstance(op_, (ast.Lt, ast.LtE)))
                lit_ = ex.tb.literal(cmpn_, says_expired)
                if lit_ is not None:
                    exp_lits.append(lit_)
            ok, cex = True, None
            for fs_ in res.facts_at(n.id):
                if oracle.entails(fs_, g) or any(oracle.entails(fs_, l_) for l_ in exp_lits):
                    continue
                ok, cex = False, fs_
                break
            if not res.facts_at(n.id):
                ok = False
            val_ok = isinstance(a.node.value, ast.Tuple) and [unparse(e) for e in a.node.value.elts] == [clientID, now] and unparse(a.node.targets[0].slice) == lockID
            if ok and val_ok:
                ctx.ok(inst, m.loc(a.node), 'entry is None or entry[0] == clientID entailed; stores (clientID, currentTime) under lockID')
            elif not ok:
                ctx.violation('_ReplLockManagerImpl.acquire:overwrite-unguarded', m.loc(a.node), 'the lock entry is overwritten on a path where another client may hold an unexpired lock: %s'
                              % res.path_str(n.id, cex), instance=inst)
            else:
                ctx.violation('_ReplLockManagerImpl.acquire:stored-entry', m.loc(a.node), 'the stored entry is `%s`, expected (clientID, currentTime) under lockID' % unparse(a.node), instance=inst)
    # acquire reports success only after (re)writing the entry with the current time
    m = c.methods['acquire']
    writes_ = [U.node_containing(ex.cfg, a.node).id for a in P.accesses(m) if a.attr == table and a.kind == 'elem_write']
    for n in ex.cfg.nodes:
        if n.kind == 'stmt' and isinstance(n.ast, ast.Return) and isinstance(n.ast.value, ast.Constant) and n.ast.value.value is True:
            inst = 'acquire returns True only after storing (clientID, currentTime)'
            ctx.tick()
            if n.id in ex.cfg.reachable_from(ex.cfg.entry.id, avoid=writes_):
                ctx.violation('_ReplLockManagerImpl.acquire:success-without-store', m.loc(n.ast),
                              'acquire() can report success without (re)writing the lock entry: the stamp is not refreshed and an expired entry of the caller stays expired, '
                              'so the next client is granted the same lock', instance=inst)
            else:
                ctx.ok(inst, m.loc(n.ast), 'unreachable when the table write is removed')
    # the local entry is discarded (treated as free) only when expired
    for d in U.walk_no_nested(m.node):
        if isinstance(d, ast.Assign) and isinstance(d.targets[0], ast.Name) and isinstance(d.value, ast.Constant) and d.value.value is None:
            n = U.node_containing(ex.cfg, d)
            inst = 'acquire treats a held lock as free only when expired'
            exp = _expiry_compares(P, m, unlock)
            ctx.tick()
            dom = any(_dominated_by_expiry(ex.cfg, n.id, cmpn) for cmpn, op, flipped in exp)
            if not dom:
                # nothing is discarded where the entry read from the table is known to be absent
                ent_ = None
                for d_ in U.walk_no_nested(m.node):
                    if isinstance(d_, ast.Assign) and isinstance(d_.targets[0], ast.Name) and isinstance(d_.value, ast.Call) and isinstance(d_.value.func, ast.Attribute) \
                            and d_.value.func.attr == 'get' and P.self_attr(d_.value.func.value, m.self_name) == table:
                        ent_ = d_.targets[0].id
                fss_ = res.facts_at(n.id)
                if ent_ and fss_ and all(oracle.entails(fs_, ('none', ex.tb.term(ast.Name(id=ent_, ctx=ast.Load())), True)) for fs_ in fss_):
                    dom = True
            if dom:
                ctx.ok(inst, m.loc(d), 'dominated by the true edge of the expiry test')
            else:
                ctx.violation('_ReplLockManagerImpl.acquire:freed-without-expiry', m.loc(d), 'the current entry is ignored on a path that did not establish its expiry', instance=inst)
    # release
    m = c.methods['release']
    ex = U.explorer(ctx, m)
    res = U.full_run(ctx, m)
    for a in P.accesses(m):
        is_pop = a.attr == table and a.kind == 'mutcall' and isinstance(a.node, ast.Call) and isinstance(a.node.func, ast.Attribute) and a.node.func.attr in ('pop', 'popitem', 'clear')
        if (a.attr == table and a.kind == 'elem_del') or is_pop:
            n = U.node_containing(ex.cfg, a.node)
            inst = 'release deletes only the holder\'s entry'
            ok = _holder_is(P, ex, res, n.id, m, table, m.params[2])
            ctx.tick()
            if ok:
                ctx.ok(inst, m.loc(a.node), 'entry[0] == clientID entailed')
            else:
                ctx.violation('_ReplLockManagerImpl.release:delete-unguarded', m.loc(a.node), 'a lock entry is deleted without checking that the caller holds it', instance=inst)
    # prolongate
    m = c.methods['prolongate']
    ex = U.explorer(ctx, m)
    res = U.full_run(ctx, m)
    for a in P.accesses(m):
        if a.attr != table or a.kind not in ('elem_write', 'elem_del'):
            continue
        n = U.node_containing(ex.cfg, a.node)
        ctx.tick()
        if a.kind == 'elem_write':
            inst = 'prolongate refreshes only the caller\'s locks'
            ok = _holder_is(P, ex, res, n.id, m, table, m.params[1])
            if ok:
                ctx.ok(inst, m.loc(a.node), 'holder == clientID entailed')
            else:
                ctx.violation('_ReplLockManagerImpl.prolongate:refresh-unguarded', m.loc(a.node), 'a lock of another client is refreshed', instance=inst)
        else:
            inst = 'prolongate drops only expired locks'
            exp = _expiry_compares(P, m, unlock)
            dom = any(_dominated_by_expiry(ex.cfg, n.id, cmpn) for cmpn, op, flipped in exp)
            if dom:
                ctx.ok(inst, m.loc(a.node), 'dominated by the true edge of the expiry test')
            else:
                ctx.violation('_ReplLockManagerImpl.prolongate:drop-unguarded', m.loc(a.node), 'a lock is dropped without an expiry test', instance=inst)
    # ... and it does refresh: an entry of the caller is rewritten with the current time
    refresh = [a for a in P.accesses(m) if a.attr == table and a.kind == 'elem_write' and isinstance(a.node, ast.Assign)
               and any(isinstance(x, ast.Name) and x.id == m.params[2] for x in ast.walk(a.node.value))]
    ctx.tick()
    if refresh:
        ctx.ok('prolongate rewrites the caller\'s entries with the current time', m.loc(refresh[0].node), unparse(refresh[0].node))
    else:
        ctx.violation('_ReplLockManagerImpl.prolongate:refreshes-nothing', m.loc(), 'prolongate never rewrites a lock entry with the current time: a lock that its live holder keeps '
                      'prolonging still expires after the auto-unlock time while the holder goes on using it', instance='prolongate refreshes the caller\'s locks')
    # isAcquired
    m = U.bool_returns_normalised(P, c.methods['isAcquired'])      # `return a and b` is looked at as `if a and b: return True`
    ex = U.explorer(ctx, m)
    res = U.full_run(ctx, m)
    n_true = 0
    for n in ex.cfg.nodes:
        if n.kind == 'stmt' and isinstance(n.ast, ast.Return) and isinstance(n.ast.value, ast.Constant) and n.ast.value.value is True:
            n_true += 1
            inst = 'isAcquired is true only for the holder of an unexpired lock'
            okh = _holder_is(P, ex, res, n.id, m, table, m.params[2])
            okt = any(_dominated_by_expiry(ex.cfg, n.id, cmpn) for cmpn, op, flipped in _expiry_compares(P, m, unlock))
            ctx.tick()
            if okh and okt and res.facts_at(n.id):
                ctx.ok(inst, m.loc(n.ast), 'holder equality entailed; dominated by the edge on which the holder-view expiry test holds')
            else:
                ctx.violation('_ReplLockManagerImpl.isAcquired:%s' % ('holder-not-checked' if not okh else 'expiry-not-checked'), m.loc(n.ast),
                              'isAcquired can return True %s' % ('for a lock held by another client' if not okh else 'for an expired lock'), instance=inst)
    ctx.require(n_true >= 1, 'isAcquired has no path that returns True')
    ctx.expect_min(6)


@rule('R-expiry-partition', 'the holder\'s view of expiry (isAcquired) and every taker\'s view (acquire, prolongate) never '
                            'overlap: no elapsed time makes the holder keep the lock while another client may take it')
def r_expiry_partition(ctx):
    P = ctx.P
    c, table, unlock = lock_impl(ctx)
    views = {}
    for nm in ('acquire', 'prolongate', 'isAcquired'):
        m = c.methods[nm]
        cmps = _expiry_compares(P, m, unlock)
        ctx.require(cmps, '%s no longer compares elapsed time with the auto-unlock time' % nm)
        for cmpn, op, flipped in cmps:
            # truth of the comparison for d - U in {-1, 0, +1}
            tv = []
            for d in (-1, 0, 1):
                if flipped:
                    a, b = 0, d
                else:
                    a, b = d, 0
                tv.append({ast.Lt: a < b, ast.LtE: a <= b, ast.Gt: a > b, ast.GtE: a >= b, ast.Eq: a == b, ast.NotEq: a != b}[type(op)])
            views.setdefault(nm, []).append((cmpn, tuple(tv), m))
            # the elapsed time is now - stamp (not stamp - now)
            sub = cmpn.comparators[0] if flipped else cmpn.left
            ctx.tick()
            nowp = m.params[-1]
            if not (isinstance(sub.left, ast.Name) and sub.left.id == nowp):
                ctx.violation('_ReplLockManagerImpl.%s:elapsed-time-operands' % nm, m.loc(cmpn), 'elapsed time is computed as `%s`, not as currentTime - stamp' % unparse(sub), instance='%s elapsed time' % nm)
    holder = views['isAcquired'][0][1]
    for nm in ('acquire', 'prolongate'):
        for cmpn, tv, m in views[nm]:
            inst = 'holder view (isAcquired) and taker view (%s) are disjoint' % nm
            ctx.tick(3)
            overlap = [d for d, h, t in zip(('d<U', 'd=U', 'd>U'), holder, tv) if h and t]
            mono = tv == tuple(sorted(tv))
            if overlap:
                ctx.violation('_ReplLockManagerImpl.%s:expiry-overlaps-holder-view' % nm, m.loc(cmpn),
                              'for %s both `%s` (taker) and the holder\'s test hold: two clients consider the lock theirs' % (overlap, unparse(cmpn)), instance=inst)
            elif not tv[2] or tv[0]:
                ctx.violation('_ReplLockManagerImpl.%s:expiry-direction' % nm, m.loc(cmpn), '`%s` is not an expiry test (true for old stamps only)' % unparse(cmpn), instance=inst)
            else:
                ctx.ok(inst, m.loc(cmpn), 'taker %s vs holder %s over (d<U, d=U, d>U)' % (tv, holder))
    ctx.tick()
    if holder[2] or not holder[0]:
        m = views['isAcquired'][0][2]
        ctx.violation('_ReplLockManagerImpl.isAcquired:holder-view-direction', m.loc(views['isAcquired'][0][0]), 'the holder considers an expired lock still held', instance='holder view')
    ctx.expect_min(2)


@rule('R-late-acquire', 'both the synchronous and the asynchronous acquisition paths report failure and release the lock when '
                        'the acquisition took longer than half the auto-unlock time; prolongation runs at least twice per '
                        'auto-unlock period')
def r_late_acquire(ctx):
    P = ctx.P
    mgr = P.cls('ReplLockManager')
    ta = mgr.methods.get('tryAcquire')
    ctx.require(ta is not None, 'ReplLockManager.tryAcquire gone')
    minit = mgr.methods.get('__init__')
    mu = None
    for n in ast.walk(minit.node):
        if isinstance(n, ast.Assign) and isinstance(n.value, ast.Name) and n.value.id == minit.params[1] and P.self_attr(n.targets[0], minit.self_name):
            mu = P.self_attr(n.targets[0], minit.self_name)
    ctx.require(mu, 'ReplLockManager does not keep its auto-unlock time')

    def mentions_unlock(e, m):
        return any(P.self_attr(x, m.self_name) == mu for x in ast.walk(e))
    # the late test may sit in tryAcquire itself (sync path) or in the nested completion callback (async path)
    funcs = [ta] + [g for q, g in sorted(P.functions.items()) if q.startswith(ta.qualname + '.')]
    tests = []
    for g in funcs:
        gcfg = U.explorer(ctx, g).cfg
        for n in gcfg.nodes:
            if n.kind == 'cond' and isinstance(n.ast, ast.Compare) and len(n.ast.ops) == 1:
                t = n.ast
                sides = [t.left, t.comparators[0]]
                for i in (0, 1):
                    if isinstance(sides[i], ast.BinOp) and isinstance(sides[i].op, ast.Div) and mentions_unlock(sides[i], ta):
                        tests.append((g, n, sides[1 - i], sides[i], t.ops[0], i == 0))
    inst = 'late-acquire test present on the sync and the async path'
    ctx.tick()
    if len(tests) < 2:
        ctx.violation('ReplLockManager.tryAcquire:late-acquire-test-missing', ta.loc(), 'only %d of the two acquisition paths test "took longer than autoUnlockTime/2"' % len(tests), instance=inst)
        ctx.expect_min(1)
        return
    shapes = set((unparse(th), type(op).__name__, flipped) for g, n, el, th, op, flipped in tests)
    if len(shapes) == 1:
        ctx.ok(inst, ta.loc(tests[0][1].ast), 'both use `elapsed %s %s`' % ({'Gt': '>', 'GtE': '>=', 'Lt': '<', 'LtE': '<='}.get(type(tests[0][4]).__name__, '?'), unparse(tests[0][3])))
    else:
        ctx.violation('ReplLockManager.tryAcquire:late-acquire-tests-differ', ta.loc(tests[1][1].ast), 'the two paths use different tests: %s' % sorted(shapes), instance=inst)

    def clock_of(g, e, depth=0):
        """the clock function an expression is read from: a call, or a local / closure variable / parameter bound to one"""
        if isinstance(e, ast.Call) and not e.args:
            return unparse(e.func)
        if isinstance(e, ast.Name) and depth < 4:
            h = g
            while h is not None:
                v = U.single_assign_value(h, e.id)
                if v is not None:
                    return clock_of(h, v, depth + 1)
                if e.id in h.params:
                    return None
                h = h.parent
        return None
    for g, n, el, th, op, flipped in tests:
        is_async = g is not ta
        inst = 'late acquisition reported as failure and released (%s path)' % ('async' if is_async else 'sync')
        ctx.tick()
        gex = U.explorer(ctx, g)
        gcfg = gex.cfg
        late_pol = (isinstance(op, (ast.Gt, ast.GtE)) and not flipped) or (isinstance(op, (ast.Lt, ast.LtE)) and flipped)
        # on every path from the "too late" edge to the end: the lock is released and the reported result is set to False

        def ev(m):
            out = []
            if m.kind == 'stmt' and m.ast is not None:
                if isinstance(m.ast, ast.Assign) and isinstance(m.ast.value, ast.Constant) and m.ast.value.value is False and isinstance(m.ast.targets[0], ast.Name) \
                        and not m.ast.targets[0].id.startswith('cond_i'):
                    out.append('false')
                if any(isinstance(x, ast.Call) and isinstance(x.func, ast.Attribute) and x.func.attr == 'release' for x in ast.walk(m.ast)):
                    out.append('release')
            return out
        starts = [d for d, lab in n.succ if lab == ('cond', True)]
        lit = gex.edge_literal(n, True)
        sets_false = releases = bool(starts)
        if starts:
            r2 = gex.run(start=starts[0], init=frozenset([lit]) if lit is not None else frozenset(), track=ev, follow_exc=False)
            ends = r2.cstates.get(gcfg.exit.id, ())
            if not ends:
                sets_false = releases = False
            for fs, cnt in ends:
                d = dict(cnt)
                sets_false = sets_false and d.get('false', 0) >= 1
                releases = releases and d.get('release', 0) >= 1
        # threshold is at most half of the auto-unlock time, direction "elapsed > threshold"
        half = isinstance(th, ast.BinOp) and isinstance(th.right, ast.Constant) and th.right.value >= 2
        direction = late_pol
        elapsed_ok = isinstance(el, ast.BinOp) and isinstance(el.op, ast.Sub)
        if sets_false and releases and half and direction and elapsed_ok:
            ctx.ok(inst, ta.loc(n.ast), 'on every path after the test: result set to False and release issued; threshold `%s`' % unparse(th))
        else:
            why = []
            if not sets_false:
                why.append('result not set to False')
            if not releases:
                why.append('lock not released')
            if not half:
                why.append('threshold `%s` is not at most half the auto-unlock time' % unparse(th))
            if not direction:
                why.append('comparison direction')
            ctx.violation('ReplLockManager.tryAcquire:late-acquire-handling', ta.loc(n.ast), '; '.join(why), instance=inst)
        # both ends of the elapsed time are read from the same clock
        if elapsed_ok:
            inst = 'elapsed time subtracts two readings of the same clock (%s path)' % ('async' if is_async else 'sync')
            ctx.tick()
            c1, c2 = clock_of(g, el.left), clock_of(g, el.right)
            if c1 is None or c2 is None:
                ctx.unproven(inst, ta.loc(n.ast), 'origin of `%s` not traced to clock calls' % unparse(el))
            elif c1 == c2:
                ctx.ok(inst, ta.loc(n.ast), 'both from %s()' % c1)
            else:
                ctx.violation('ReplLockManager.tryAcquire:elapsed-mixes-clocks', ta.loc(n.ast),
                              '`%s` subtracts a reading of %s() from a reading of %s(): the difference is meaningless, the late-acquisition test never (or always) fires' % (unparse(el), c2, c1),
                              instance=inst)
    # the asynchronous path reports to the caller: the completion callback calls the user callback on every path
    for g in funcs:
        if g is ta:
            continue
        gcfg = U.explorer(ctx, g).cfg
        ucb = [p_ for p_ in ta.params if p_ == 'callback'] or [p_ for p_ in ta.params[1:] if any(
            isinstance(c, ast.Call) and isinstance(c.func, ast.Name) and c.func.id == p_ for c in ast.walk(g.node))]
        if not ucb:
            continue
        calls = [n.id for n in gcfg.nodes if n.kind in ('stmt', 'cond') and n.ast is not None and any(
            isinstance(c, ast.Call) and isinstance(c.func, ast.Name) and c.func.id == ucb[0] for c in ast.walk(n.ast))]
        inst = 'asynchronous acquisition reports its result to the user callback'
        ctx.tick()
        if calls and gcfg.exit.id not in gcfg.reachable_from(gcfg.entry.id, avoid=calls, follow_exc=False):
            ctx.ok(inst, ta.loc(g.node), '%s calls `%s(..)` on every path' % (g.name, ucb[0]))
        else:
            ctx.violation('ReplLockManager.tryAcquire:async-result-not-reported', ta.loc(g.node),
                          'the completion callback of the asynchronous tryAcquire can return without calling the user callback: the client is never told whether it holds the lock',
                          instance=inst)
    # the elapsed time measures from before the acquire command was issued
    inst = 'attempt time taken before the acquire is issued'
    ctx.tick()
    first_assign = [s for s in ta.node.body if isinstance(s, ast.Assign)]
    if first_assign and U.is_clock_call(first_assign[0].value) and first_assign[0].lineno < min(n.lineno for g, n, *_ in tests):
        ctx.ok(inst, ta.loc(first_assign[0]), unparse(first_assign[0]))
    else:
        ctx.unproven(inst, ta.loc(), 'attempt time assignment not the first statement')
    # prolongation period
    th = mgr.methods.get('_autoAcquireThread')
    if th is not None:
        for n in ast.walk(th.node):
            if isinstance(n, ast.Compare) and mentions_unlock(n, th):
                div = [x for x in ast.walk(n) if isinstance(x, ast.BinOp) and isinstance(x.op, ast.Div) and isinstance(x.right, ast.Constant)]
                inst = 'locks are prolonged at least twice per auto-unlock period'
                ctx.tick()
                if div and div[0].right.value >= 2:
                    ctx.ok(inst, th.loc(n), 'period autoUnlockTime / %s' % div[0].right.value)
                else:
                    ctx.violation('ReplLockManager._autoAcquireThread:prolongation-period', th.loc(n), 'prolongation period `%s` is not a fraction <= 1/2 of the auto-unlock time' % unparse(n), instance=inst)
    ctx.expect_min(3)


@rule('R-none-is-a-value', 'a container wrapper never decides that a key / element is absent from `lookup(..) is None`: None is a '
                           'legal stored value, absence is decided with `in` (or by the wrapped container itself)')
def r_none_is_a_value(ctx):
    """Contradiction-style rule with an expected count of zero on a correct tree; the positive example that keeps it
    from passing vacuously is fixtures/noneabsent (checked on every run)."""
    P = ctx.P
    n_methods = 0

    def scan(P_, cls_names):
        found = []
        count = 0
        for cn in cls_names:
            if not P_.has_cls(cn):
                continue
            cls = P_.cls(cn)
            attr, kind = container_kind(P_, cls)
            if kind not in ('dict', 'list', 'set'):
                continue
            for m in P_.methods_of(cls):
                if m.name == '__init__':
                    continue
                count += 1
                sn = m.self_name
                # locals bound to a lookup that yields None for a missing key: data.get(k) / data.get(k, None)
                looked = {}
                for n in U.walk_no_nested(m.node):
                    if isinstance(n, ast.Assign) and len(n.targets) == 1 and isinstance(n.targets[0], ast.Name):
                        v = n.value
                        if isinstance(v, ast.Call) and isinstance(v.func, ast.Attribute) and v.func.attr == 'get' and P_.self_attr(v.func.value, sn) == attr \
                                and (len(v.args) == 1 or (len(v.args) == 2 and isinstance(v.args[1], ast.Constant) and v.args[1].value is None)):
                            looked[n.targets[0].id] = v
                for n in U.walk_no_nested(m.node):
                    if not isinstance(n, ast.If):
                        continue
                    for t in ast.walk(n.test):
                        hit = None
                        if isinstance(t, ast.Compare) and len(t.ops) == 1 and isinstance(t.ops[0], (ast.Is, ast.IsNot, ast.Eq, ast.NotEq)) \
                                and isinstance(t.comparators[0], ast.Constant) and t.comparators[0].value is None:
                            l = t.left
                            if isinstance(l, ast.Name) and l.id in looked:
                                hit = looked[l.id]
                            elif isinstance(l, ast.Call) and isinstance(l.func, ast.Attribute) and l.func.attr == 'get' and P_.self_attr(l.func.value, sn) == attr:
                                hit = l
                        if hit is None:
                            continue
                        # the branch writes the container: the None test stands for "absent"
                        writes = any((isinstance(x, (ast.Assign, ast.AugAssign, ast.Delete)) and any(
                            isinstance(tg, ast.Subscript) and P_.self_attr(tg.value, sn) == attr
                            for tg in (x.targets if isinstance(x, (ast.Assign, ast.Delete)) else [x.target]) for tg in ast.walk(tg)))
                            or (isinstance(x, ast.Call) and isinstance(x.func, ast.Attribute) and P_.self_attr(x.func.value, sn) == attr and x.func.attr in
                                ('setdefault', 'update', 'pop', 'add', 'append', 'insert', 'remove', 'discard', 'clear'))
                            for st_ in (n.body + n.orelse) for x in ast.walk(st_))
                        if writes:
                            found.append((m, n, hit))
        return found, count
    found, n_methods = scan(P, BATTERIES)
    for m, n, hit in found:
        ctx.violation('%s:none-stands-for-absent' % m.qualname, m.loc(n),
                      '`%s` is tested against None to decide whether to write the container: a stored None is treated as a missing key (the wrapped container '
                      'would keep it)' % unparse(hit), instance='%s: absence decided by `in`' % m.qualname)
    ctx.tick(n_methods)
    if not found:
        ctx.ok('no wrapper method of %d decides absence by a None lookup result' % n_methods, '', '')
    # the positive example: the rule must fire on the fixture
    import os
    from ..pyir import Program
    from ..report import VERIF
    fx = os.path.join(VERIF, 'fixtures', 'noneabsent')
    try:
        PF = Program(fx)
        ff, _ = scan(PF, ['SampleDict'])
    except AnalysisError:
        ff = []
    ctx.require(len(ff) == 1, 'the rule does not fire on its positive example fixtures/noneabsent')
    ctx.ok('positive example fixtures/noneabsent matched', 'fixtures/noneabsent/pysyncobj/sample.py', 'SampleDict.setdefault', nontrivial=False)
    ctx.expect_min(2)


@rule('R-heap-discipline', 'the list behind the replicated priority queue is changed only through heapq (heappush / heappop ...): any '
                           'direct append / insert / sort / item store can break the heap invariant and with it the order of get()')
def r_heap_discipline(ctx):
    P = ctx.P
    n_cls = 0
    for cls in P.classes.values():
        if cls.module.name != 'batteries':
            continue
        heap_attrs = set()
        for m in P.methods_of(cls):
            for c in P.calls_in(m):
                if isinstance(c.func, ast.Attribute) and isinstance(c.func.value, ast.Name) and c.func.value.id == 'heapq' and c.args and P.self_attr(c.args[0], m.self_name):
                    heap_attrs.add(P.self_attr(c.args[0], m.self_name))
        for ha in sorted(heap_attrs):
            n_cls += 1
            inst = '%s: self.%s is only changed through heapq' % (cls.name, ha)
            ctx.tick()
            bad = None
            for m in P.methods_of(cls):
                if m.name == '__init__':
                    continue
                for a in P.accesses(m):
                    if a.attr != ha:
                        continue
                    if a.kind in ('elem_write', 'elem_del', 'aug') or (a.kind == 'mutcall' and isinstance(a.node, ast.Call) and isinstance(a.node.func, ast.Attribute)
                                                                      and a.node.func.attr in ('append', 'insert', 'extend', 'sort', 'reverse', 'remove', 'pop')):
                        bad = (m, a)
            if bad is None:
                ctx.ok(inst, '', 'heappush / heappop are the only writers outside __init__')
            else:
                m, a = bad
                ctx.violation('%s:heap-changed-directly' % m.qualname, m.loc(a.node),
                              '`%s` changes the heap list without heapq: the heap invariant (parent <= children) is not maintained for every sequence of puts, so get() can return '
                              'items out of order' % unparse(a.node)[:60], instance=inst)
    ctx.require(n_cls >= 1, 'no heapq-managed list found in batteries')
    ctx.expect_min(1)


@rule('R-reset-replaces', 'reset(newData) of a container battery replaces the container by the given one (an assignment from the '
                          'parameter), it does not merge into the old contents')
def r_reset_replaces(ctx):
    P = ctx.P
    n = 0
    for cn in BATTERIES:
        if not P.has_cls(cn):
            continue
        cls = P.cls(cn)
        attr, kind = container_kind(P, cls)
        m = cls.methods.get('reset')
        if m is None or attr is None or len(m.params) < 2:
            continue
        n += 1
        par = m.params[1]
        inst = '%s.reset replaces the %s' % (cn, kind)
        ctx.tick()
        assigns = [st for st, k in U.assigns_to_attr(P, m, attr) if k == 'assign' and any(isinstance(x, ast.Name) and x.id == par for x in ast.walk(st.value))]
        cfg = U.explorer(ctx, m).cfg
        ids = [U.node_containing(cfg, st).id for st in assigns]
        if assigns and cfg.exit.id not in cfg.reachable_from(cfg.entry.id, avoid=ids, follow_exc=False):
            ctx.ok(inst, m.loc(assigns[0]), unparse(assigns[0]))
        else:
            ctx.violation('%s.reset:does-not-replace' % cn, m.loc(), 'reset(%s) does not assign self.%s from its argument on every path: elements of the old container that are not in the '
                          'new data survive (every replica agrees on the wrong contents, so only a comparison with the builtin shows it)' % (par, attr), instance=inst)
    ctx.require(n >= 2, 'container batteries with reset() not found')
    ctx.expect_min(2)


@rule('R-lock-client-identity', 'the lock manager hands the current time to every lock-table operation, and its default client '
                                'id distinguishes processes as well as objects')
def r_lock_client_identity(ctx):
    P = ctx.P
    c, table, unlock = lock_impl(ctx)
    mgr = P.cls('ReplLockManager')
    impl_attr = None
    init = mgr.methods.get('__init__')
    for n in ast.walk(init.node):
        if isinstance(n, ast.Assign) and isinstance(n.value, ast.Call) and isinstance(n.value.func, ast.Name) and n.value.func.id == c.name:
            impl_attr = P.self_attr(n.targets[0], init.self_name)
    ctx.require(impl_attr, 'ReplLockManager does not create its implementation object')
    n_calls = 0
    for m in P.methods_of(mgr):
        for call in P.calls_in(m, include_nested=True):
            if not (isinstance(call.func, ast.Attribute) and P.self_attr(call.func.value, m.self_name) == impl_attr):
                continue
            tgt = c.methods.get(call.func.attr)
            if tgt is None:
                continue
            # the parameter of the implementation that carries the time: the one compared with the stored stamp (named by position)
            tpos = [i for i, p_ in enumerate(tgt.params[1:]) if 'time' in p_.lower()]
            if not tpos or tpos[0] >= len(call.args):
                continue
            n_calls += 1
            a = call.args[tpos[0]]
            inst = '%s: `%s` passes the current time' % (m.qualname, unparse(call)[:60])
            ctx.tick()
            v = a
            if isinstance(a, ast.Name):
                # a local (also of the enclosing function) assigned from the clock
                g = m
                while g is not None and isinstance(v, ast.Name):
                    vv = U.single_assign_value(g, a.id)
                    if vv is not None:
                        v = vv
                        break
                    g = g.parent
            if U.is_clock_call(v):
                ctx.ok(inst, m.loc(call), unparse(a))
            else:
                ctx.violation('%s:stale-time-to-lock-table' % m.qualname, m.loc(call),
                              '`%s` is handed to %s.%s as the current time, but it is not a clock read: expiry is then judged against an old instant (a holder cut off from the '
                              'cluster keeps seeing its lock as valid after others were given it)' % (unparse(a), c.name, call.func.attr), instance=inst)
    ctx.require(n_calls >= 3, 'calls of the lock implementation with a time argument not found')
    # default client id
    inst = 'default client id contains the process id and the object id'
    ctx.tick()
    ids = [st for st in ast.walk(init.node) if isinstance(st, ast.Assign) and isinstance(st.targets[0], ast.Name) and st.targets[0].id in init.params
           and any(isinstance(x, ast.Call) for x in ast.walk(st.value))]
    if ids:
        names = set(unparse(x.func).split('.')[-1] for x in ast.walk(ids[0].value) if isinstance(x, ast.Call))
        if {'getpid', 'id'} <= names:
            ctx.ok(inst, init.loc(ids[0]), unparse(ids[0].value)[:70])
        else:
            ctx.violation('ReplLockManager.__init__:client-id-not-unique', init.loc(ids[0]),
                          'the default client id `%s` lacks %s: two clients on one host can get the same id, and acquire() treats the second as the re-entrant holder'
                          % (unparse(ids[0].value)[:70], ' and '.join(sorted({'getpid', 'id'} - names))), instance=inst)
    else:
        ctx.unproven(inst, init.loc(), 'default id construction not recognised')
    ctx.expect_min(3)


# operations of the wrapped builtins whose result depends on the internal layout of the container (insertion / resize
# history of the hash table), not on its contents: equal containers on two replicas can answer differently
LAYOUT_DEPENDENT = {
    'set': {'pop': 'set.pop() removes whichever element the hash table yields first'},
}


@rule('R-deterministic-ops', 'a replicated battery operation is a function of the contents of its container: it does not delegate to a '
                             'builtin operation whose result depends on the container\'s internal layout')
def r_deterministic_ops(ctx):
    """Replicas reach equal contents along different histories (log replay vs. snapshot restore: unpickling rebuilds a
    set's hash table).  `set.pop()` then removes different elements on different replicas and the replicas differ from
    there on.  Also flagged: picking the first element of an iteration over a set (`next(iter(s))`)."""
    P = ctx.P
    n_ops = 0
    for cn in BATTERIES:
        if not P.has_cls(cn):
            continue
        cls = P.cls(cn)
        attr, kind = container_kind(P, cls)
        if kind not in LAYOUT_DEPENDENT:
            continue
        for m in P.methods_of(cls):
            if m.owner_cls is not cls or m.name == '__init__':
                continue
            repl = any('replicated' in unparse(d) for d in m.decorators)
            if not repl:
                continue
            n_ops += 1
            ctx.tick()
            bad = []
            for c in P.calls_in(m):
                if isinstance(c.func, ast.Attribute) and P.self_attr(c.func.value, m.self_name) == attr and c.func.attr in LAYOUT_DEPENDENT[kind] and not c.args:
                    bad.append((c, LAYOUT_DEPENDENT[kind][c.func.attr]))
                if isinstance(c.func, ast.Name) and c.func.id == 'next' and c.args and isinstance(c.args[0], ast.Call) and unparse(c.args[0].func) == 'iter' \
                        and c.args[0].args and P.self_attr(c.args[0].args[0], m.self_name) == attr:
                    bad.append((c, 'the first element of an iteration over a %s depends on its hash table' % kind))
            inst = '%s.%s is a function of the contents' % (cn, m.name)
            if bad:
                c, why = bad[0]
                ctx.violation('%s.%s:layout-dependent-result' % (cn, m.name), m.loc(c),
                              '`%s` in a replicated operation: %s; replicas with equal contents but different histories (one of them restored from a snapshot) change differently '
                              'and stay different' % (unparse(c), why), instance=inst)
            else:
                ctx.ok(inst, m.loc(), '', nontrivial=False)
    ctx.require(n_ops >= 3, 'replicated operations of the set battery not found')
    ctx.expect_min(3)
