"""Package-wide lint shared by all properties: a name that is read but bound nowhere (NameError on that path).

The classic way a statement deletion or a half-finished rename passes the test suite is that the broken path is one
the tests never take (a restore-from-snapshot branch, an error handler): the function then raises NameError exactly
where the property needs it to work, and a surrounding catch-all often swallows it.  The rule reports, for the
functions a property depends on, every name that is loaded but is neither a parameter, nor assigned / imported /
defined anywhere in the function, its enclosing functions or its module, nor a builtin."""
import ast
import builtins
from . import rule
from .. import util as U
from ..pyir import AnalysisError

_BUILTINS = set(dir(builtins)) | {'__file__', '__name__', '__doc__', '__class__', 'unicode', 'long', 'xrange', 'basestring', 'raw_input', 'reduce', 'unichr', 'WindowsError'}


def _module_names(m):
    names = set()
    for n in ast.walk(m.tree):
        if isinstance(n, ast.Import):
            for a in n.names:
                names.add((a.asname or a.name).split('.')[0])
        elif isinstance(n, ast.ImportFrom):
            for a in n.names:
                names.add(a.asname or a.name)
    for st in ast.walk(m.tree):
        if isinstance(st, (ast.FunctionDef, ast.ClassDef)):
            names.add(st.name)
    # module-level bindings (also inside module-level if / try blocks)

    def top(body):
        for st in body:
            if isinstance(st, (ast.Assign, ast.AugAssign, ast.AnnAssign)):
                for t in (st.targets if isinstance(st, ast.Assign) else [st.target]):
                    for x in ast.walk(t):
                        if isinstance(x, ast.Name):
                            names.add(x.id)
            elif isinstance(st, (ast.If, ast.Try, ast.With, ast.For, ast.While)):
                for f in ('body', 'orelse', 'finalbody'):
                    top(getattr(st, f, []) or [])
                for h in getattr(st, 'handlers', []) or []:
                    top(h.body)
                    if h.name:
                        names.add(h.name)
    top(m.tree.body)
    return names


def _bound_in(fnode):
    out = set()
    a = fnode.args
    for x in list(getattr(a, 'posonlyargs', [])) + a.args + a.kwonlyargs:
        out.add(x.arg)
    if a.vararg:
        out.add(a.vararg.arg)
    if a.kwarg:
        out.add(a.kwarg.arg)
    for n in ast.walk(fnode):
        if isinstance(n, ast.Name) and isinstance(n.ctx, (ast.Store, ast.Del)):
            out.add(n.id)
        elif isinstance(n, ast.ExceptHandler) and n.name:
            out.add(n.name)
        elif isinstance(n, (ast.FunctionDef, ast.ClassDef)) and n is not fnode:
            out.add(n.name)
        elif isinstance(n, (ast.Global, ast.Nonlocal)):
            out.update(n.names)
        elif isinstance(n, ast.arg):
            out.add(n.arg)
        elif isinstance(n, (ast.Import, ast.ImportFrom)):
            for al in n.names:
                out.add((al.asname or al.name).split('.')[0])
    return out


def undefined_names(P, f):
    """[(name, node)] loaded in f (not in nested defs) and bound nowhere"""
    bound = set()
    g = f
    while g is not None:
        bound |= _bound_in(g.node)
        g = g.parent
    cache = P.__dict__.setdefault('_module_names', {})
    if f.module.name not in cache:
        cache[f.module.name] = _module_names(f.module)
    bound |= cache[f.module.name] | _BUILTINS
    if f.owner_cls is not None:
        # class-level names are not visible in methods, but a class body name used as a default etc. is not a load in the body
        pass
    out = []
    for n in U.walk_no_nested(f.node):
        if isinstance(n, ast.Name) and isinstance(n.ctx, ast.Load) and n.id not in bound:
            out.append((n.id, n))
    # names of the inline-view bookkeeping are never real
    return [(a, b) for a, b in out if not a.startswith('cond_i')]


def _scope(ctx, prop):
    """functions the property depends on: by role for SyncObj, by class for the other modules"""
    P, R = ctx.P, ctx.R
    from .ownership import _role_funcs
    funcs = set()
    role_props = {
        'handler': 'C01 C02 C03 C04 C05 C06 C10 C11 C18 C20', 'tick': 'C01 C03 C04 C05 C18 C20', 'drain': 'C02 C05 C10 C19', 'apply': 'C01 C02 C12 C17',
        'dispatch': 'C01 C11 C12 C15 C17', 'loader': 'C01 C06 C09 C10 C17', 'compaction': 'C01 C06 C09 C17 C18', 'mutation': 'C10 C18', 'restore': 'C09 C10',
        'gate': 'C10', 'sender': 'C05 C09 C11 C18', 'become_leader': 'C03 C04 C20', 'set_state': 'C03', 'conn_event': 'C14 C18 C20', 'sweep': 'C02',
    }
    try:
        roles = _role_funcs(ctx)
    except AnalysisError:
        roles = {}
    for role, props in role_props.items():
        if prop in props.split():
            funcs |= roles.get(role, set())
    class_props = {
        'FileJournal': 'C06 C08', 'ResizableFile': 'C08 C11', 'MemoryJournal': 'C08', 'MetaStorer': 'C06 C08', 'Serializer': 'C06 C09',
        'TcpConnection': 'C11 C13 C14', 'TCPTransport': 'C14 C18', 'Transport': 'C14 C18', 'TcpServer': 'C14', 'FastQueue': 'C02 C19',
        '_ReplLockManagerImpl': 'C16', 'ReplLockManager': 'C16', 'ReplDict': 'C15', 'ReplList': 'C15', 'ReplSet': 'C15', 'ReplQueue': 'C15',
        'ReplPriorityQueue': 'C15', 'ReplCounter': 'C15', 'SyncObjConsumer': 'C09 C15',
    }
    for cn, props in class_props.items():
        if prop in props.split() and P.has_cls(cn):
            funcs |= set(P.methods_of(P.cls(cn)))
    return funcs


@rule('L-undefined-name', 'no function the property depends on reads a name that is bound nowhere (a NameError on that path, '
                          'typically one the tests never take)')
def l_undefined_name(ctx):
    P = ctx.P
    funcs = _scope(ctx, ctx.prop)
    n = 0
    bad = 0
    for f in sorted(funcs, key=lambda x: x.qualname):
        n += 1
        und = undefined_names(P, f)
        for g in [x for q, x in P.functions.items() if q.startswith(f.qualname + '.')]:
            und += undefined_names(P, g)
        ctx.tick()
        seen = set()
        for name, node in und:
            if name in seen:
                continue
            seen.add(name)
            bad += 1
            ctx.violation('%s:reads-undefined-name-%s' % (f.qualname, name), f.loc(node),
                          '`%s` is read but never assigned, imported or defined in this function, its enclosing functions or its module: the statement raises NameError '
                          'whenever it is reached' % name, instance='%s: every name read is bound somewhere' % f.qualname)
    if not bad:
        ctx.ok('%d functions in scope: every name read is bound somewhere' % n, '', '')
    ctx.expect_min(1)


@rule('L-none-call', 'no function the property depends on calls a value, or sends a message to a node, that is known to be None '
                     'at that point (a guard tested with the wrong polarity)')
def l_none_call(ctx):
    P, R = ctx.P, ctx.R
    funcs = _scope(ctx, ctx.prop)
    n_calls = 0
    bad = 0
    for f in sorted(funcs, key=lambda x: x.qualname):
        cands = []
        for c in P.calls_in(f):
            fn = c.func
            if isinstance(fn, ast.Name) and (fn.id in f.params or P._is_local(f, fn.id)):
                cands.append((c, fn, 'called'))
            elif isinstance(fn, ast.Attribute) and P.self_attr(fn, f.self_name) and f.owner_cls is not None and P.lookup_method(f.owner_cls, fn.attr) is None:
                cands.append((c, fn, 'called'))
            # transport.send(<node>, ..): the addressee
            if isinstance(fn, ast.Attribute) and fn.attr == 'send' and f.owner_cls is R.S and P.self_attr(fn.value, f.self_name) == R.transport and c.args \
                    and isinstance(c.args[0], (ast.Name, ast.Attribute)):
                cands.append((c, c.args[0], 'the addressee of a send'))
        if not cands:
            continue
        try:
            ex = U.explorer(ctx, f)
            res = U.full_run(ctx, f)
        except AnalysisError:
            continue
        for c, e, what in cands:
            nodes = [n for n in U.nodes_containing(ex.cfg, c) if res.reached(n.id)]
            if not nodes:
                continue
            n_calls += 1
            ctx.tick()
            t = ex.tb.term(e)
            if t.volatile:
                continue
            if all(bool(res.facts_at(n.id)) and all(('none', t, True) in fs for fs in res.facts_at(n.id)) for n in nodes):
                bad += 1
                ctx.violation('%s:none-%s' % (f.qualname, 'called' if what == 'called' else 'addressed'), f.loc(c),
                              '`%s` is %s on every path reaching `%s`, where it is known to be None (the guard in front of it has the wrong polarity): the statement raises, '
                              'or the message goes nowhere' % (ast.unparse(e), what, ast.unparse(c)[:50]), instance='%s: `%s` is not None where it is %s' % (f.qualname, ast.unparse(e), what))
    if not bad:
        ctx.ok('%d call / send sites through values in scope: none is known to be None' % n_calls, '', '')
    ctx.expect_min(1)
