"""Durability / journal rules (C06, C07, C08; R-bounded-write shared with C11)."""
import ast
import struct
from . import rule
from .. import util as U
from ..pyir import AnalysisError, unparse
from .. import oracle
from .raftlog import log_op_sites, loader_func, JOURNAL_OPS
from .election import _grant_nodes


# ----------------------------------------------------------------------------- journal primitives
def journal_parts(ctx):
    """roles inside journal.py: the resizable file class (mmap slice store), the file journal, the publish helper"""
    P = ctx.P
    cache = P.__dict__.get('_journal_parts')
    if cache:
        return cache
    fj = None
    for c in P.subclasses(P.cls('Journal')):
        ft = P.field_types(c)
        if any('ResizableFile' in v or True for v in ft.values()) and any(
                isinstance(n, ast.Call) and isinstance(n.func, ast.Attribute) and n.func.attr == 'write' for m in P.methods_of(c) for n in ast.walk(m.node)):
            fj = c
    if fj is None:
        raise AnalysisError('no Journal implementation writes to a file')
    # the file attribute: attr whose .write is called
    file_attr = None
    for m in P.methods_of(fj):
        for n in ast.walk(m.node):
            if isinstance(n, ast.Call) and isinstance(n.func, ast.Attribute) and n.func.attr == 'write':
                a = P.self_attr(n.func.value, m.self_name)
                if a:
                    file_attr = a
    types = P.field_types(fj).get(file_attr, set())
    if not types:
        raise AnalysisError('type of the journal file attribute unknown')
    rf = P.cls(sorted(types)[0])
    # publish helper: method writing at the header offset constant
    publish = None
    for m in P.methods_of(fj):
        for n in ast.walk(m.node):
            if isinstance(n, ast.Call) and isinstance(n.func, ast.Attribute) and n.func.attr == 'write' and P.self_attr(n.func.value, m.self_name) == file_attr \
                    and n.args and isinstance(n.args[0], ast.Name) and n.args[0].id.isupper():
                publish = m
                publish_const = n.args[0].id
    if publish is None:
        raise AnalysisError('publish helper (write at the header offset constant) not found')
    mirror = None
    add = fj.methods.get('add')
    for n in ast.walk(add.node):
        if isinstance(n, ast.Call) and isinstance(n.func, ast.Attribute) and n.func.attr == 'append':
            a = P.self_attr(n.func.value, add.self_name)
            if a:
                mirror = a
    # the running end offset: the one attribute add() assigns (the mirror is appended to, not assigned)
    stored = []
    for n in ast.walk(add.node):
        tg = []
        if isinstance(n, ast.AugAssign):
            tg = [n.target]
        elif isinstance(n, ast.Assign):
            tg = n.targets
        for t in tg:
            a = P.self_attr(t, add.self_name)
            if a and a != mirror and a not in stored and a not in P.inert_attrs(fj):       # statistics counters are not the offset
                stored.append(a)
    if len(stored) != 1:
        raise AnalysisError('running end offset of the file journal not identified (add() assigns %s)' % (stored or 'no attribute'))
    offset_attr = stored[0]
    parts = {'fj': fj, 'file_attr': file_attr, 'rf': rf, 'publish': publish, 'publish_const': publish_const, 'mirror': mirror, 'offset_attr': offset_attr}
    P.__dict__['_journal_parts'] = parts
    return parts


def _calls_of(P, func, pred):
    return [c for c in P.calls_in(func) if pred(c)]


@rule('R-write-then-publish', 'FileJournal.add writes the record bytes before publishing the new end offset, publishes '
                              'exactly the running end offset, and keeps the in-memory mirror in step')
def r_write_then_publish(ctx):
    P = ctx.P
    jp = journal_parts(ctx)
    fj, fa, pub = jp['fj'], jp['file_attr'], jp['publish']
    add = fj.methods['add']
    ex = U.explorer(ctx, add)
    cfg = ex.cfg
    writes = [c for c in P.calls_in(add) if isinstance(c.func, ast.Attribute) and c.func.attr == 'write' and P.self_attr(c.func.value, add.self_name) == fa]
    pubs = [c for c in P.calls_in(add) if pub in P.resolve_call(add, c).targets]
    ctx.require(writes and pubs, 'FileJournal.add lost its record write or its publish')
    wn = [U.node_containing(cfg, c).id for c in writes]
    pn = [U.node_containing(cfg, c).id for c in pubs]
    inst = 'record write precedes publish'
    ctx.tick()
    if any(p in cfg.reachable_from(cfg.entry.id, avoid=wn) for p in pn):
        ctx.violation('%s.add:publish-before-write' % fj.name, add.loc(pubs[0]), 'the end offset is published on a path that has not written the record yet '
                      '(a kill in between leaves a published range with garbage)', instance=inst)
    else:
        ctx.ok(inst, add.loc(pubs[0]), 'publish unreachable when the record write is removed')
    inst = 'every append reaches the record write and the publish'
    ctx.tick()
    r1 = cfg.reachable_from(cfg.entry.id, avoid=wn, follow_exc=False)
    r2 = cfg.reachable_from(cfg.entry.id, avoid=pn, follow_exc=False)
    if cfg.exit.id in r1 or cfg.exit.id in r2:
        ctx.violation('%s.add:append-without-%s' % (fj.name, 'write' if cfg.exit.id in r1 else 'publish'), add.loc(),
                      'add() can return without %s (the entry is acknowledged but not durable)' % ('writing the record' if cfg.exit.id in r1 else 'publishing the new end offset'), instance=inst)
    else:
        ctx.ok(inst, add.loc(), 'normal exit unreachable without both')
    # offset arithmetic, decided on facts: with E the end offset on entry, the record is written at E, and the value
    # published -- which is also the in-memory end offset from then on -- is E + len(<written bytes>)
    w = writes[0]
    off = jp['offset_attr']
    inst = 'published offset is the running end offset'
    problems = []
    p = pubs[0]
    if len(w.args) < 2 or not p.args:
        problems.append('record write / publish call without offset and data arguments')
    else:
        E = 'end_offset_on_entry'
        init = frozenset([('eq', ex.tb.term(U.parse_expr('self.%s' % off)), ex.tb.term(U.parse_expr(E)))])
        res = ex.run(init=init)
        data = w.args[1]
        wnode = U.node_containing(cfg, w)
        pnode = U.node_containing(cfg, p)
        okw, _ = U.must(ctx, res, wnode.id, ('eq', ex.tb.term(w.args[0]), ex.tb.term(U.parse_expr(E))))
        if not okw:
            problems.append('the record is written at `%s`, which is not the end offset the journal had on entry' % unparse(w.args[0]))
        want = ex.tb.term(U.parse_expr('%s + len(%s)' % (E, unparse(data))))
        okp, _ = U.must(ctx, res, pnode.id, ('eq', ex.tb.term(p.args[0]), want))
        if not okp:
            problems.append('the published value `%s` is not <end offset on entry> + len(<written bytes `%s`>)' % (unparse(p.args[0]), unparse(data)))
        okm, _ = U.must(ctx, res, pnode.id, ('eq', ex.tb.term(U.parse_expr('self.%s' % off)), ex.tb.term(p.args[0])))
        if not okm:
            problems.append('the in-memory end offset differs from the published value `%s` at the publish' % unparse(p.args[0]))
        later = [n for n in cfg.nodes if n.id in cfg.reachable_from(pnode.id, follow_exc=False) and n.id != pnode.id and n.ast is not None
                 and ('A:' + off) in ex.eff.of(n)[0]]
        if later:
            problems.append('the in-memory end offset is changed again after the publish (`%s`)' % unparse(later[0].ast)[:60])
    ctx.tick()
    if problems:
        ctx.violation('%s.add:offset-arithmetic' % fj.name, add.loc(w), '; '.join(problems), instance=inst)
    else:
        ctx.ok(inst, add.loc(p), 'write(E, data); publish(E + len(data)) == in-memory end offset, entailed on every path')
    # mirror
    inst = 'in-memory mirror appended'
    ctx.tick()
    apps = [c for c in P.calls_in(add) if isinstance(c.func, ast.Attribute) and c.func.attr == 'append' and P.self_attr(c.func.value, add.self_name) == jp['mirror']]
    if apps:
        ctx.ok(inst, add.loc(apps[0]), 'mirror.append((command, idx, term))')
    else:
        ctx.violation('%s.add:mirror-not-updated' % fj.name, add.loc(), 'add() does not append to the in-memory mirror', instance=inst)
    ctx.expect_min(4)


@rule('R-offset-coherent', 'the in-memory end offset of the file journal and the end offset published in the file header agree '
                           'whenever a record is written and whenever an operation returns: a store to one is paired with a publish of '
                           'the same value before any record write or return')
def r_offset_coherent(ctx):
    P = ctx.P
    jp = journal_parts(ctx)
    fj, fa, pub, off = jp['fj'], jp['file_attr'], jp['publish'], jp['offset_attr']
    hdr = jp['publish_const']

    def record_write(m, c):
        return isinstance(c.func, ast.Attribute) and c.func.attr == 'write' and P.self_attr(c.func.value, m.self_name) == fa \
            and c.args and not (isinstance(c.args[0], ast.Name) and c.args[0].id == hdr)
    writers = [m for m in P.methods_of(fj) if m is not pub and any(record_write(m, c) for c in P.calls_in(m))]
    ctx.require(writers, 'no record writer in the file journal')
    n_checked = 0
    for m in P.methods_of(fj):
        if m.name == '__init__' or m is pub:
            continue        # the constructor reads the published offset (R-record-layout, reader loop)
        stores = [st for st, k in U.assigns_to_attr(P, m, off)]
        ex = U.explorer(ctx, m)
        cfg = ex.cfg
        pubs = [(U.node_containing(cfg, c), c) for c in P.calls_in(m) if pub in P.resolve_call(m, c).targets and c.args]
        if not stores and not pubs:
            continue
        res = U.full_run(ctx, m)
        offt = ex.tb.term(U.parse_expr('self.%s' % off))
        coherent = [n.id for n, c in pubs if res.reached(n.id) and U.must(ctx, res, n.id, ('eq', ex.tb.term(c.args[0]), offt))[0]]
        sinks = [cfg.exit.id]
        for n in cfg.nodes:
            if n.kind in ('stmt', 'cond') and n.ast is not None:
                for c in [x for x in ast.walk(n.ast) if isinstance(x, ast.Call)]:
                    if record_write(m, c) or any(t in writers for t in P.resolve_call(m, c).targets):
                        sinks.append(n.id)
        store_nodes = [U.node_containing(cfg, st).id for st in stores]
        for st in stores:
            sn = U.node_containing(cfg, st)
            inst = '%s: `%s` is published before the next record write / return' % (m.qualname, unparse(st))
            n_checked += 1
            ctx.tick()
            # (a) the same constant was published on every path to the store
            same = [n.id for n, c in pubs if unparse(c.args[0]) == unparse(st.value) and not any(isinstance(x, ast.Name) and not x.id.isupper() for x in ast.walk(st.value))
                    and not any(P.self_attr(x, m.self_name) for x in ast.walk(st.value))]
            pre = bool(same) and sn.id not in cfg.reachable_from(cfg.entry.id, avoid=same, follow_exc=False)
            # (b) or a publish of the in-memory value follows before any sink
            starts = [d for d, l in sn.succ if not (isinstance(l, tuple) and l[0] == 'exc')]
            reach = set()
            for d in starts:
                if d in coherent:
                    continue
                if d in sinks:
                    reach.add(d)
                    continue
                reach |= cfg.reachable_from(d, avoid=coherent, follow_exc=False)
            hit = [i for i in sinks if i in reach and i != sn.id]
            if pre or not hit:
                ctx.ok(inst, m.loc(st), 'published before (same constant)' if pre else 'a publish of the in-memory end offset dominates every later record write and the normal exit')
            else:
                tgt = cfg.nodes[hit[0]]
                ctx.violation('%s:end-offset-stored-not-published' % m.qualname, m.loc(st),
                              'after `%s` the journal %s while the file header still publishes the previous end offset: a kill at that point leaves a published range '
                              'whose bytes were overwritten (the reopened journal is not a range of the previous entries)'
                              % (unparse(st), 'returns' if tgt.id == cfg.exit.id else 'writes records (`%s`)' % unparse(tgt.ast)[:50]), instance=inst)
        for n, c in pubs:
            if n.id in coherent or not res.reached(n.id):
                continue
            inst = '%s: `%s` (not the in-memory end offset at that point) is followed by the matching store' % (m.qualname, unparse(c))
            n_checked += 1
            ctx.tick()
            starts = [d for d, l in n.succ if not (isinstance(l, tuple) and l[0] == 'exc')]
            reach = set()
            for d in starts:
                if d in store_nodes or d in coherent:
                    continue
                if d in sinks:
                    reach.add(d)
                    continue
                reach |= cfg.reachable_from(d, avoid=store_nodes + coherent, follow_exc=False)
            hit = [i for i in sinks if i in reach]
            if hit:
                ctx.violation('%s:end-offset-published-not-stored' % m.qualname, m.loc(c),
                              '`%s` publishes an end offset that differs from the in-memory one, and the journal can %s before the in-memory offset is brought in line'
                              % (unparse(c), 'return' if hit[0] == cfg.exit.id else 'write records'), instance=inst)
            else:
                ctx.ok(inst, m.loc(c), 'every path to a record write / the normal exit passes a store of the in-memory offset or a publish of it')
    # the publish helper itself: it writes the header on every path, unless it skips the write because a cached copy of the
    # published value -- primed from the file when the journal is opened -- already equals the argument
    pcfg = U.explorer(ctx, pub).cfg
    hw = [n.id for n in pcfg.nodes if n.kind in ('stmt', 'cond') and n.ast is not None and any(
        isinstance(c, ast.Call) and isinstance(c.func, ast.Attribute) and c.func.attr == 'write' and P.self_attr(c.func.value, pub.self_name) == fa for c in ast.walk(n.ast))]
    inst = 'the publish helper writes the header whenever the value differs from what the file holds'
    ctx.tick()
    if not hw:
        ctx.violation('%s:publish-writes-nothing' % pub.qualname, pub.loc(), 'the publish helper no longer writes the header', instance=inst)
    elif pcfg.exit.id not in pcfg.reachable_from(pcfg.entry.id, avoid=hw, follow_exc=False):
        ctx.ok(inst, pub.loc(), 'header write on every path')
    else:
        cached = set()
        for n in pcfg.nodes:
            if n.kind == 'cond':
                for x in ast.walk(n.ast):
                    a = P.self_attr(x, pub.self_name)
                    if a:
                        cached.add(a)
        init = fj.methods.get('__init__')
        primed = bool(cached)
        for a in cached:
            inits = [st for st, k in U.assigns_to_attr(P, init, a)] if init is not None else []
            ok_a = bool(inits)
            for st in inits:
                v = st.value
                if isinstance(v, ast.Name) and U.single_assign_value(init, v.id) is not None:
                    v = U.single_assign_value(init, v.id)
                from_file = any(isinstance(c, ast.Call) and any(t.owner_cls is fj and any(isinstance(y, ast.Call) and isinstance(y.func, ast.Attribute) and y.func.attr == 'read'
                                                                                              and y.args and isinstance(y.args[0], ast.Name) and y.args[0].id == hdr
                                                                                              for y in ast.walk(t.node)) for t in P.resolve_call(init, c).targets)
                                for c in ast.walk(v))
                if not from_file:
                    ok_a = False
            primed = primed and ok_a
        if primed:
            ctx.ok(inst, pub.loc(), 'write skipped only against self.%s, which the constructor primes from the file header' % ', self.'.join(sorted(cached)))
        else:
            ctx.violation('%s:publish-skipped-on-unprimed-cache' % pub.qualname, pub.loc(),
                          'the publish helper can return without writing the header (it compares with %s), and that cached value is not read from the file when the journal is '
                          'opened: after a reopen, an operation that publishes the constructor\'s default value is silently not persisted'
                          % (', '.join('self.' + a for a in sorted(cached)) or 'nothing that identifies the published value'), instance=inst)
    ctx.expect_min(2)


@rule('R-record-layout', 'the byte layout constants of the journal reader, writer and tail-drop agree with the struct '
                         'formats: length field size, header size, record framing (size + body + size)')
def r_record_layout(ctx):
    P = ctx.P
    jp = journal_parts(ctx)
    fj, fa = jp['fj'], jp['file_attr']
    add = fj.methods['add']
    fmts = []
    for n in ast.walk(add.node):
        if isinstance(n, ast.Call) and isinstance(n.func, ast.Attribute) and n.func.attr == 'pack' and n.args and isinstance(n.args[0], ast.Constant):
            fmts.append((n.args[0].value, n))
    ctx.require(len(fmts) >= 2, 'writer formats not found in FileJournal.add')
    # length format = the one packing len(...)
    len_fmt = [f for f, n in fmts if any(isinstance(x, ast.Call) and isinstance(x.func, ast.Name) and x.func.id == 'len' for x in n.args[1:])]
    hdr_fmt = [f for f, n in fmts if f not in len_fmt]
    ctx.require(len_fmt and hdr_fmt, 'cannot tell the length format from the header format')
    L = struct.calcsize(len_fmt[0])
    H = struct.calcsize(hdr_fmt[0])
    n_checked = 0
    for m in P.methods_of(fj):
        if m is add:
            continue
        for n in ast.walk(m.node):
            # unpack formats on the reader side
            if isinstance(n, ast.Call) and isinstance(n.func, ast.Attribute) and n.func.attr == 'unpack' and n.args and isinstance(n.args[0], ast.Constant):
                f = n.args[0].value
                n_checked += 1
                ctx.tick()
                if f in (len_fmt[0], hdr_fmt[0]):
                    ctx.ok('%s: unpack format %r matches the writer' % (m.qualname, f), m.loc(n), '', nontrivial=True)
                elif struct.calcsize(f) == L and m is jp['publish']:
                    pass
                else:
                    ok_other = False
                    for g in P.methods_of(fj):
                        for x in ast.walk(g.node):
                            if isinstance(x, ast.Call) and isinstance(x.func, ast.Attribute) and x.func.attr == 'pack' and x.args and isinstance(x.args[0], ast.Constant):
                                if x.args[0].value == f or f in x.args[0].value:
                                    ok_other = True
                    if ok_other:
                        ctx.ok('%s: unpack format %r has a matching pack' % (m.qualname, f), m.loc(n), '')
                    else:
                        ctx.violation('%s:unpack-format-%s' % (m.qualname, f), m.loc(n), 'reader unpacks %r but the writer packs %r / %r' % (f, len_fmt[0], hdr_fmt[0]),
                                      instance='reader/writer format agreement')
            # read(offset +- K, K2)
            if isinstance(n, ast.Call) and isinstance(n.func, ast.Attribute) and n.func.attr == 'read' and P.self_attr(n.func.value, m.self_name) == fa and len(n.args) == 2:
                a0, a1 = n.args
                if isinstance(a1, ast.Constant) and isinstance(a1.value, int):
                    n_checked += 1
                    ctx.tick()
                    if a1.value == L:
                        ctx.ok('%s: `%s` reads a length field of %d bytes' % (m.qualname, unparse(n), L), m.loc(n), '')
                    else:
                        ctx.violation('%s:length-field-read-size' % m.qualname, m.loc(n), '`%s` reads %d bytes, the length field has %d' % (unparse(n), a1.value, L), instance='length field size')
                if isinstance(a0, ast.BinOp) and isinstance(a0.right, ast.Constant) and isinstance(a0.right.value, int) and not isinstance(a0.left, ast.Name) is False:
                    if isinstance(a0.left, ast.Name) and not a0.left.id.isupper():
                        n_checked += 1
                        ctx.tick()
                        if a0.right.value == L:
                            ctx.ok('%s: `%s` skips one length field' % (m.qualname, unparse(a0)), m.loc(n), '')
                        else:
                            ctx.violation('%s:length-field-skip' % m.qualname, m.loc(n), '`%s` moves by %d bytes, the length field has %d' % (unparse(a0), a0.right.value, L), instance='length field skip')
            # offset advance by size + K  => K == 2 * L
            if isinstance(n, ast.AugAssign) and isinstance(n.target, ast.Name) and isinstance(n.value, ast.BinOp) and isinstance(n.value.right, ast.Constant) \
                    and isinstance(n.value.right.value, int) and isinstance(n.value.left, ast.Name):
                n_checked += 1
                ctx.tick()
                if n.value.right.value == 2 * L and isinstance(n.value.op, ast.Add):
                    ctx.ok('%s: `%s` steps over size + body + size' % (m.qualname, unparse(n)), m.loc(n), 'framing overhead 2 x %d' % L)
                else:
                    ctx.violation('%s:record-step' % m.qualname, m.loc(n), '`%s`: a record occupies size + body + size = body + %d bytes' % (unparse(n), 2 * L), instance='record step')
            # header slices record[:K] / record[K:]
            if isinstance(n, ast.Subscript) and isinstance(n.slice, ast.Slice) and isinstance(n.value, ast.Name):
                for b in (n.slice.lower, n.slice.upper):
                    if isinstance(b, ast.Constant) and isinstance(b.value, int):
                        n_checked += 1
                        ctx.tick()
                        if b.value == H:
                            ctx.ok('%s: `%s` splits at the %d-byte (idx, term) header' % (m.qualname, unparse(n), H), m.loc(n), '')
                        else:
                            ctx.violation('%s:record-header-split' % m.qualname, m.loc(n), '`%s`: the (idx, term) header has %d bytes' % (unparse(n), H), instance='header split')
    # reader loop: walks while the offset is strictly below the published end, and leaves the end offset behind
    init = fj.methods.get('__init__')
    inst = 'reader walks records while offset < published end offset'
    ctx.tick()
    loops = [n for n in ast.walk(init.node) if isinstance(n, ast.While)]
    okw = False
    if loops and isinstance(loops[0].test, ast.Compare) and len(loops[0].test.ops) == 1 and isinstance(loops[0].test.ops[0], ast.Lt):
        lname = unparse(loops[0].test.left)
        rname = unparse(loops[0].test.comparators[0])
        rdef = [d for d in ast.walk(init.node) if isinstance(d, ast.Assign) and unparse(d.targets[0]) == rname]
        ldef = [d for d in ast.walk(init.node) if isinstance(d, ast.Assign) and unparse(d.targets[0]) == lname]
        stores = [d for d in ast.walk(init.node) if isinstance(d, ast.Assign) and P.self_attr(d.targets[0], init.self_name) == jp['offset_attr'] and unparse(d.value) == lname
                  and d.lineno > loops[0].lineno]
        hdr = jp['publish_const']

        def reads_header(e):
            # the published end offset: read(<header offset constant>, ..) directly or through a method of the journal
            for c in ast.walk(e):
                if not isinstance(c, ast.Call):
                    continue
                if isinstance(c.func, ast.Attribute) and c.func.attr == 'read' and c.args and isinstance(c.args[0], ast.Name) and c.args[0].id == hdr:
                    return True
                for t in P.resolve_call(init, c).targets:
                    if t.owner_cls is fj and t is not init and any(isinstance(x, ast.Call) and isinstance(x.func, ast.Attribute) and x.func.attr == 'read' and x.args
                                                                  and isinstance(x.args[0], ast.Name) and x.args[0].id == hdr for x in ast.walk(t.node)):
                        return True
            return False
        okw = bool(rdef) and reads_header(rdef[-1].value) and bool(ldef) and unparse(ldef[0].value).isupper() and bool(stores)
    if okw:
        n_checked += 1
        ctx.ok(inst, init.loc(loops[0]), '`%s`; running end offset stored after the loop' % unparse(loops[0].test))
    else:
        ctx.violation('%s.__init__:reader-loop-bound' % fj.name, init.loc(loops[0]) if loops else init.loc(),
                      'the reopening reader does not walk `offset < published end offset` from the first record offset and store the end offset afterwards', instance=inst)
    # ... and does not stop early at a record the writer can produce: a guard on the record size in front of a break /
    # return must be false for every size >= the fixed (idx, term) part (an empty command gives exactly that size)
    if loops:
        loop = loops[0]
        size_vars = set()
        for d in ast.walk(loop):
            if isinstance(d, ast.Assign) and len(d.targets) == 1 and isinstance(d.targets[0], ast.Name) and any(
                    isinstance(c, ast.Call) and isinstance(c.func, ast.Attribute) and c.func.attr == 'unpack' and c.args and isinstance(c.args[0], ast.Constant)
                    and c.args[0].value == len_fmt[0] for c in ast.walk(d.value)):
                size_vars.add(d.targets[0].id)

        def exits(stmts, guards, in_inner_loop):
            for st in stmts:
                if isinstance(st, (ast.Break, ast.Return, ast.Raise)) and not (isinstance(st, ast.Break) and in_inner_loop):
                    yield st, list(guards)
                elif isinstance(st, ast.If):
                    for x in exits(st.body, guards + [(st.test, True)], in_inner_loop):
                        yield x
                    for x in exits(st.orelse, guards + [(st.test, False)], in_inner_loop):
                        yield x
                elif isinstance(st, (ast.For, ast.While)):
                    for x in exits(st.body, guards, True):
                        yield x
                elif isinstance(st, (ast.With, ast.Try)):
                    for x in exits(st.body, guards, in_inner_loop):
                        yield x
        for st, guards in exits(loop.body, [], False):
            inst2 = 'reader does not stop at a record the writer can produce'
            ctx.tick()
            consts = [c.value for g, pol in guards for c in ast.walk(g) if isinstance(c, ast.Constant) and isinstance(c.value, int) and not isinstance(c.value, bool)]
            cands = sorted(set(v for v in [H, H + 1, H + 2, 2 * H, 255, 256, 65535, 65536, 2 ** 31, 2 ** 32 - 1] + [c + d for c in consts for d in (-1, 0, 1)] if v >= H))
            names = set(x.id for g, pol in guards for x in ast.walk(g) if isinstance(x, ast.Name))
            if not guards or not names or not names <= size_vars:
                ctx.unproven(inst2, init.loc(st), 'early exit `%s` of the reader loop is not guarded by a test on the record size alone' % unparse(st)[:40])
                continue
            hit = None
            try:
                for v in cands:
                    env = dict((nm, v) for nm in names)
                    if all(bool(U.eval_arith(g, env)) == pol for g, pol in guards):
                        hit = v
                        break
            except AnalysisError:
                ctx.unproven(inst2, init.loc(st), 'guard of the early exit not evaluated')
                continue
            if hit is not None:
                ctx.violation('%s.__init__:reader-stops-at-valid-record' % fj.name, init.loc(st),
                              'the reopening reader leaves its loop when the record size is %d, but add() writes records of every size >= %d (the fixed part, for an empty command): '
                              'that record and everything after it is lost on reopen, and the next append overwrites it' % (hit, H), instance=inst2)
            else:
                ctx.ok(inst2, init.loc(st), 'guard false for every record size >= %d' % H)
    # writer: size field on both sides of the body
    for n in ast.walk(add.node):
        if isinstance(n, ast.Assign) and isinstance(n.value, ast.BinOp):
            names = [x.id for x in ast.walk(n.value) if isinstance(x, ast.Name)]
            if len(names) == 3 and names[0] == names[2] and names[0] != names[1]:
                n_checked += 1
                ctx.ok('writer frames the body with the size field on both sides', add.loc(n), unparse(n.value))
    ctx.require(n_checked >= 6, 'layout constants not found (reader changed shape)')
    ctx.expect_min(6)


@rule('R-bounded-write', 'the mmap slice store in the resizable file happens only when offset+size <= capacity is '
                         'established: by the guard, or by growing to a size proven >= offset+size')
def r_bounded_write(ctx):
    P = ctx.P
    jp = journal_parts(ctx)
    rf = jp['rf']
    stores = []
    for m in P.methods_of(rf):
        for n in ast.walk(m.node):
            if isinstance(n, ast.Assign) and isinstance(n.targets[0], ast.Subscript) and isinstance(n.targets[0].slice, ast.Slice) \
                    and P.self_attr(n.targets[0].value, m.self_name):
                stores.append((m, n))
    ctx.require(stores, 'no slice store into the memory map')
    for m, st in stores:
        ex = U.explorer(ctx, m)
        res = U.full_run(ctx, m)
        cfg = ex.cfg
        n = U.node_containing(cfg, st)
        upper = ex.tb.term(st.targets[0].slice.upper)
        mm_attr = P.self_attr(st.targets[0].value, m.self_name)
        inst = '%s: `%s` within capacity' % (m.qualname, unparse(st.targets[0]))
        bad = None
        for fs in res.facts_at(n.id):
            ctx.tick()
            ok = False
            for l in fs:
                if l[0] in ('le', 'lt') and l[1].key == upper.key:
                    bound = l[2]
                    # (a) bound aliases the current capacity
                    cap_alias = _is_capacity(fs, bound, mm_attr)
                    # (b) bound is the argument of a resize/extend call on the path
                    grown = False
                    for p, lab in res.path(n.id, fs):
                        pa = cfg.nodes[p].ast
                        if pa is None:
                            continue
                        for c in [x for x in ast.walk(pa) if isinstance(x, ast.Call) and isinstance(x.func, ast.Attribute)]:
                            if c.func.attr == 'resize' and c.args and (ex.tb.term(c.args[0]).key == bound.key or oracle.entails(fs, ('eq', ex.tb.term(c.args[0]), bound))):
                                grown = True
                    if cap_alias or grown:
                        ok = True
            if not ok:
                bad = fs
                break
        if bad is None and res.facts_at(n.id):
            ctx.ok(inst, m.loc(st), 'on all %d path classes: %s <= capacity (guard) or <= the size the file was grown to' % (len(res.facts_at(n.id)), upper.key))
        else:
            ctx.violation('%s:slice-store-after-single-resize' % m.qualname, m.loc(st),
                          'the slice store `%s` is reached on a path where %s <= capacity is not established (a record larger than the grown file raises / truncates): %s'
                          % (unparse(st.targets[0]), upper.key, res.path_str(n.id, bad) if bad is not None else ''), instance=inst)
        # a failed in-place resize (platforms without mremap: the handler of the resize call) must still grow the file by
        # the missing amount and map it again before the store -- the tests never take this branch on Linux
        for t in [x for x in ast.walk(m.node) if isinstance(x, ast.Try)]:
            rz = [c for s_ in t.body for c in ast.walk(s_) if isinstance(c, ast.Call) and isinstance(c.func, ast.Attribute) and c.func.attr == 'resize' and c.args]
            if not rz:
                continue
            for hd in t.handlers:
                inst2 = '%s: failed resize is made up for by growing the file' % m.qualname
                ctx.tick()
                if hd.body and isinstance(hd.body[-1], ast.Raise):
                    ctx.ok(inst2, m.loc(hd), 're-raised', nontrivial=False)
                    continue
                helpers = [(c, tg) for s_ in hd.body for c in ast.walk(s_) if isinstance(c, ast.Call) for tg in P.resolve_call(m, c).targets if tg.owner_cls is rf]
                problems = []
                if not helpers:
                    # the growth written out in the handler itself: write(b'..' * (new size - capacity)), then the map is assigned again
                    def _is_cap0(e):
                        if isinstance(e, ast.Name):
                            v_ = U.single_assign_value(m, e.id)
                            e = v_ if v_ is not None else e
                        return isinstance(e, ast.Call) and isinstance(e.func, ast.Attribute) and e.func.attr == 'size' and P.self_attr(e.func.value, m.self_name) == mm_attr
                    grows0 = []
                    for s_ in hd.body:
                        for w in ast.walk(s_):
                            if isinstance(w, ast.Call) and isinstance(w.func, ast.Attribute) and w.func.attr == 'write' and w.args and isinstance(w.args[0], ast.BinOp) \
                                    and isinstance(w.args[0].op, ast.Mult):
                                amt = w.args[0].right if isinstance(w.args[0].left, ast.Constant) else w.args[0].left
                                if isinstance(amt, ast.BinOp) and isinstance(amt.op, ast.Sub) and unparse(amt.left) == unparse(rz[0].args[0]) and _is_cap0(amt.right):
                                    grows0.append(w)
                    remap0 = [d for s_ in hd.body for d in ast.walk(s_) if isinstance(d, ast.Assign) and P.self_attr(d.targets[0], m.self_name) == mm_attr
                              and isinstance(d.value, ast.Call) and unparse(d.value.func).endswith('mmap')]
                    if grows0 and remap0 and U.ordr(m, grows0[0]) < U.ordr(m, remap0[-1]):
                        ctx.ok(inst2, m.loc(hd), 'the handler appends (new size - capacity) bytes and maps the file again')
                        continue
                    problems.append('the handler neither re-raises nor grows the file by (new size - capacity) and maps it again')
                for c, hlp in helpers:
                    a0 = c.args[0] if c.args else None
                    def _is_cap(e):
                        if isinstance(e, ast.Name):
                            v_ = U.single_assign_value(m, e.id)
                            e = v_ if v_ is not None else e
                        return isinstance(e, ast.Call) and isinstance(e.func, ast.Attribute) and e.func.attr == 'size' and P.self_attr(e.func.value, m.self_name) == mm_attr
                    if not (isinstance(a0, ast.BinOp) and isinstance(a0.op, ast.Sub) and unparse(a0.left) == unparse(rz[0].args[0]) and _is_cap(a0.right)):
                        problems.append('`%s` is not called with (new size - current size)' % unparse(c))
                        continue
                    par = hlp.params[1] if len(hlp.params) > 1 else None
                    hcfg = U.explorer(ctx, hlp).cfg
                    grows = [U.node_containing(hcfg, w) for w in P.calls_in(hlp) if isinstance(w.func, ast.Attribute) and w.func.attr == 'write' and w.args
                             and isinstance(w.args[0], ast.BinOp) and isinstance(w.args[0].op, ast.Mult)
                             and any(isinstance(x, ast.Name) and x.id == par for x in (w.args[0].left, w.args[0].right))]
                    remaps = [U.node_containing(hcfg, d) for d in ast.walk(hlp.node) if isinstance(d, ast.Assign) and P.self_attr(d.targets[0], hlp.self_name) == mm_attr
                              and isinstance(d.value, ast.Call) and unparse(d.value.func).endswith('mmap')]
                    if not grows or hcfg.exit.id in hcfg.reachable_from(hcfg.entry.id, avoid=[g.id for g in grows], follow_exc=False):
                        problems.append('%s does not append `%s` bytes to the file on every path' % (hlp.qualname, par))
                    elif not remaps or any(hcfg.exit.id in hcfg.reachable_from(g.id, avoid=[r.id for r in remaps], follow_exc=False) for g in grows):
                        problems.append('%s does not map the grown file again' % hlp.qualname)
                if problems:
                    ctx.violation('%s:resize-fallback' % m.qualname, m.loc(hd), '; '.join(problems) + ': where mmap.resize() is not available the following slice store exceeds the '
                                  'mapping and the record is not written', instance=inst2)
                else:
                    ctx.ok(inst2, m.loc(hd), 'helper appends the missing bytes and re-maps')
    ctx.expect_min(1)


def _is_capacity(fs, t, mm_attr):
    seen = set()
    todo = [t]
    while todo:
        x = todo.pop()
        if x.key in seen:
            continue
        seen.add(x.key)
        if x.key.startswith('self.%s.size(' % mm_attr):
            return True
        for l in fs:
            if l[0] == 'eq':
                if l[1] == x:
                    todo.append(l[2])
                elif l[2] == x:
                    todo.append(l[1])
    return False


@rule('R-meta-atomic', 'the journal metadata file is only ever replaced: written under another name, then moved onto the path')
def r_meta_atomic(ctx):
    P = ctx.P
    ms = P.cls('MetaStorer')
    path_attr = None
    init = ms.methods.get('__init__')
    for n in ast.walk(init.node):
        if isinstance(n, ast.Assign) and isinstance(n.value, ast.Name) and n.value.id in init.params:
            path_attr = P.self_attr(n.targets[0], init.self_name)
    ctx.require(path_attr, 'MetaStorer path attribute not found')
    n_w = 0
    for m in P.methods_of(ms):
        ex = U.explorer(ctx, m)
        cfg = ex.cfg
        for c in P.calls_in(m):
            if isinstance(c.func, ast.Name) and c.func.id == 'open' and len(c.args) >= 2 and isinstance(c.args[1], ast.Constant) \
                    and any(ch in str(c.args[1].value) for ch in 'wa+'):
                n_w += 1
                inst = '%s: `%s`' % (m.qualname, unparse(c))
                ctx.tick()
                tgt = c.args[0]
                if P.self_attr(tgt, m.self_name) == path_attr:
                    ctx.violation('%s:meta-written-in-place' % m.qualname, m.loc(c), 'the metadata file is opened for writing under its final name (a kill leaves a torn file)', instance=inst)
                    continue
                moves = []
                for c2 in P.calls_in(m):
                    nm = unparse(c2.func)
                    if nm in ('shutil.move', 'os.rename', 'os.replace', 'atomicReplace') and len(c2.args) == 2 \
                            and P.self_attr(c2.args[1], m.self_name) == path_attr and unparse(c2.args[0]) == unparse(tgt):
                        moves.append(U.node_containing(cfg, c2).id)
                wn = U.node_containing(cfg, c)
                if moves and cfg.exit.id not in cfg.reachable_from(wn.id, avoid=moves, follow_exc=False):
                    ctx.ok(inst, m.loc(c), 'written as `%s`, then moved onto the path on every normal path' % unparse(tgt))
                else:
                    ctx.violation('%s:tmp-not-moved' % m.qualname, m.loc(c), 'the temporary file `%s` is not moved onto the metadata path on every path' % unparse(tgt), instance=inst)
    ctx.require(n_w >= 1, 'MetaStorer never writes')
    ctx.expect_min(1)


@rule('R-head-drop-atomic', 'dropping the head of a journal never publishes an empty range before the kept entries are durable again')
def r_head_drop_atomic(ctx):
    P = ctx.P
    jp = journal_parts(ctx)
    fj = jp['fj']
    m = fj.methods.get('deleteEntriesTo')
    ctx.require(m is not None, 'FileJournal.deleteEntriesTo gone')
    cfg = U.explorer(ctx, m).cfg
    clears = [U.node_containing(cfg, c) for c in P.calls_in(m) if any(t.name == 'clear' for t in P.resolve_call(m, c).targets)]
    pub_first = [U.node_containing(cfg, c) for c in P.calls_in(m) if jp['publish'] in P.resolve_call(m, c).targets
                 and c.args and isinstance(c.args[0], ast.Name) and c.args[0].id.isupper()]
    readd = [U.node_containing(cfg, c) for c in P.calls_in(m) if any(t.name == 'add' for t in P.resolve_call(m, c).targets)]
    ctx.tick()
    inst = 'head drop does not pass through an empty published range'
    emptied = clears + pub_first
    if emptied and readd and any(r.id in cfg.reachable_from(e.id) for e in emptied for r in readd):
        ctx.violation('%s.deleteEntriesTo:clear-then-readd' % fj.name, m.loc(emptied[0].ast),
                      'the head drop clears the journal (publishes the empty range) and then re-appends the kept suffix: a kill in between '
                      'loses entries the operation was meant to keep', instance=inst)
    else:
        ctx.ok(inst, m.loc(), 'no clear / empty publish followed by re-append')
    # an early return that leaves the journal as it is agrees with the list model `journal[n:]` only for n == 0 (or an empty
    # journal): evaluated for lengths 0..4 and positions 0..length+1
    par = m.params[1] if len(m.params) > 1 else None
    lenkey = 'len(self.%s)' % jp['mirror']

    def early(stmts, guards):
        for st in stmts:
            if isinstance(st, ast.Return):
                yield st, list(guards)
                return
            if isinstance(st, ast.If):
                for x in early(st.body, guards + [(st.test, True)]):
                    yield x
                for x in early(st.orelse, guards + [(st.test, False)]):
                    yield x
                continue
            if any(isinstance(c, ast.Call) for c in ast.walk(st)) or isinstance(st, (ast.Assign, ast.AugAssign, ast.Delete)):
                # first effect: what follows is not an early return any more (a local computed from the mirror is fine)
                if not (isinstance(st, ast.Assign) and isinstance(st.targets[0], ast.Name) and not any(
                        isinstance(c, ast.Call) and not (isinstance(c.func, ast.Name) and c.func.id == 'len') for c in ast.walk(st.value))):
                    return
    for st, guards in early(m.node.body, []):
        inst = 'an early return of the head drop keeps exactly what the list model keeps'
        ctx.tick()
        hit = None
        try:
            for n_ in range(0, 5):
                for e_ in range(0, n_ + 2):
                    env = {par: e_, lenkey: n_}
                    if all(bool(U.eval_arith(g, env)) == pol for g, pol in guards) and e_ > 0 and n_ > 0 and hit is None:
                        hit = (n_, e_)
        except AnalysisError:
            ctx.unproven(inst, m.loc(st), 'guard of the early return not evaluated')
            continue
        if hit:
            ctx.violation('%s.deleteEntriesTo:early-return-keeps-head' % fj.name, m.loc(st),
                          'with %d entries and position %d the method returns without dropping anything, an in-memory list keeps `journal[%d:]` (%d entries)'
                          % (hit[0], hit[1], hit[1], max(0, hit[0] - hit[1])), instance=inst)
        else:
            ctx.ok(inst, m.loc(st), 'taken only for position 0 or an empty journal')
    ctx.expect_min(1)


@rule('R-tail-drop-monotone', 'dropping the tail walks the end offset backwards only, counts the entries to remove before '
                              'the mirror is cut, and finally publishes and stores the new end offset')
def r_tail_drop(ctx):
    P = ctx.P
    jp = journal_parts(ctx)
    fj = jp['fj']
    m = fj.methods.get('deleteEntriesFrom')
    ctx.require(m is not None, 'FileJournal.deleteEntriesFrom gone')
    cfg = U.explorer(ctx, m).cfg
    off = jp['offset_attr']
    # the local walking offset: assigned from self.<off>
    local = None
    for n in ast.walk(m.node):
        if isinstance(n, ast.Assign) and P.self_attr(n.value, m.self_name) == off and isinstance(n.targets[0], ast.Name):
            local = n.targets[0].id
    ctx.require(local, 'walk-back offset local not found')
    # every update of the walking offset is a subtraction: `local -= e` or `local = local - e`
    updates = []
    other = []
    for n in ast.walk(m.node):
        if isinstance(n, ast.AugAssign) and isinstance(n.target, ast.Name) and n.target.id == local:
            (updates if isinstance(n.op, ast.Sub) else other).append(n)
        elif isinstance(n, ast.Assign) and any(isinstance(t, ast.Name) and t.id == local for t in n.targets):
            if P.self_attr(n.value, m.self_name) == off:
                continue        # the initial copy of the end offset
            v = n.value
            if isinstance(v, ast.BinOp) and isinstance(v.op, ast.Sub) and isinstance(v.left, ast.Name) and v.left.id == local:
                updates.append(n)
            else:
                other.append(n)
    inst = 'offset only walks backwards'
    ctx.tick()
    if updates and not other:
        ctx.ok(inst, m.loc(updates[0]), '%d update(s), all subtractions' % len(updates))
    else:
        ctx.violation('%s.deleteEntriesFrom:offset-not-monotone' % fj.name, m.loc((other or [None])[0]), 'the walking offset is not only decreased', instance=inst)
    # final store + publish on all normal paths (the walked offset itself, or a local that is a copy taken after the walk)
    finals = {local}
    for n in ast.walk(m.node):
        if isinstance(n, ast.Assign) and len(n.targets) == 1 and isinstance(n.targets[0], ast.Name) and isinstance(n.value, ast.Name) and n.value.id in finals \
                and U.single_assign_value(m, n.targets[0].id) is n.value \
                and not any(isinstance(p, (ast.While, ast.For)) for p in (U.node_containing(cfg, n).parents if U.node_containing(cfg, n) is not None else ())):
            finals.add(n.targets[0].id)
    stores = [U.node_containing(cfg, n).id for n in ast.walk(m.node) if isinstance(n, ast.Assign) and P.self_attr(n.targets[0], m.self_name) == off
              and isinstance(n.value, ast.Name) and n.value.id in finals]
    pubs_all = [c for c in P.calls_in(m) if jp['publish'] in P.resolve_call(m, c).targets]
    pubs = [U.node_containing(cfg, c).id for c in pubs_all if c.args and isinstance(c.args[0], ast.Name) and c.args[0].id in finals
            and not any(isinstance(p, (ast.While, ast.For)) for p in U.node_containing(cfg, c).parents)]
    inst = 'new end offset stored and published'
    ctx.tick()
    bad = []
    if not stores or cfg.exit.id in cfg.reachable_from(cfg.entry.id, avoid=stores, follow_exc=False):
        bad.append('the new end offset is not stored in self.%s on every path' % off)
    if not pubs or cfg.exit.id in cfg.reachable_from(cfg.entry.id, avoid=pubs, follow_exc=False):
        bad.append('the final end offset is not published after the walk on every path')
    for c in pubs_all:
        if not (c.args and isinstance(c.args[0], ast.Name) and c.args[0].id in finals):
            bad.append('`%s` publishes something other than the walking offset' % unparse(c))
    if bad:
        ctx.violation('%s.deleteEntriesFrom:final-offset' % fj.name, m.loc(), '; '.join(bad), instance=inst)
    else:
        ctx.ok(inst, m.loc(), 'self.%s = %s and publish(%s) dominate the normal exit' % (off, local, local))
    # count computed before the mirror is cut
    mirror = jp['mirror']
    cuts = [U.node_containing(cfg, n).id for n in ast.walk(m.node) if isinstance(n, ast.Delete) and any(P.self_attr(getattr(t, 'value', None), m.self_name) == mirror for t in n.targets)]
    counts = [n for n in ast.walk(m.node) if isinstance(n, ast.Assign) and any(isinstance(x, ast.Call) and isinstance(x.func, ast.Name) and x.func.id == 'len'
                                                                              and x.args and P.self_attr(x.args[0], m.self_name) == mirror for x in ast.walk(n.value))]
    inst = 'number of records to drop computed before the mirror is cut'
    ctx.tick()
    if not cuts:
        ctx.violation('%s.deleteEntriesFrom:mirror-not-cut' % fj.name, m.loc(), 'the in-memory mirror is not truncated', instance=inst)
    elif counts and all(U.node_containing(cfg, c).id not in cfg.reachable_from(k) for c in counts for k in cuts):
        ctx.ok(inst, m.loc(counts[0]), '`%s` is evaluated before `del mirror[from:]`' % unparse(counts[0]))
    else:
        ctx.violation('%s.deleteEntriesFrom:count-after-cut' % fj.name, m.loc(), 'the number of records to walk back is computed from the mirror after it was cut (nothing is removed from the file)', instance=inst)
    # loop bound: removed < toRemove, step 1
    ctx.expect_min(3)


@rule('R-journal-siblings', 'MemoryJournal and FileJournal implement exactly the abstract operations of Journal with equal '
                            'arity; every FileJournal mutator updates both the mirror and the file')
def r_journal_siblings(ctx):
    P = ctx.P
    j = P.cls('Journal')
    abstract = [m for m in P.methods_of(j) if any(isinstance(n, ast.Raise) for n in ast.walk(m.node))]
    ctx.require(len(abstract) >= 8, 'abstract Journal interface shrank')
    for c in P.subclasses(j):
        for am in abstract:
            im = c.methods.get(am.name)
            inst = '%s.%s' % (c.name, am.name)
            ctx.tick()
            if im is None:
                ctx.violation('%s:missing-%s' % (c.name, am.name), c.module.path_rel, '%s does not implement Journal.%s' % (c.name, am.name), instance=inst)
            elif len(im.params) != len(am.params):
                ctx.violation('%s.%s:arity' % (c.name, am.name), im.loc(), 'arity differs from the abstract method', instance=inst)
            else:
                ctx.ok(inst, im.loc(), 'implemented with %d parameters' % (len(im.params) - 1), nontrivial=False)
    jp = journal_parts(ctx)
    fj = jp['fj']
    for name in ('add', 'clear', 'deleteEntriesFrom', 'deleteEntriesTo'):
        m = fj.methods[name]
        w = ctx.P.writes(m)
        reach = P.reachable_funcs([m])
        touches_mirror = any(('A:' + jp['mirror']) in P.writes(g) for g in reach if g.owner_cls is fj)
        touches_file = any(g is jp['publish'] or any(isinstance(c.func, ast.Attribute) and c.func.attr == 'write' and P.self_attr(c.func.value, g.self_name) == jp['file_attr']
                                                     for c in P.calls_in(g)) for g in reach if g.owner_cls is fj)
        inst = '%s.%s updates mirror and file' % (fj.name, name)
        ctx.tick()
        if touches_mirror and touches_file:
            ctx.ok(inst, m.loc(), '')
        else:
            ctx.violation('%s.%s:one-sided-update' % (fj.name, name), m.loc(), 'the operation updates %s but not %s (reopened journal differs from the running one)'
                          % (('the mirror', 'the file') if touches_mirror else ('the file', 'the mirror')), instance=inst)
    # the memory journal: add appends the triple in (command, idx, term) order
    mj = P.cls('MemoryJournal')
    for c in (mj, fj):
        add = c.methods['add']
        for n in ast.walk(add.node):
            if isinstance(n, ast.Call) and isinstance(n.func, ast.Attribute) and n.func.attr == 'append' and n.args and isinstance(n.args[0], ast.Tuple):
                names = [x.id for x in n.args[0].elts if isinstance(x, ast.Name)]
                ctx.tick()
                if names == add.params[1:]:
                    ctx.ok('%s.add stores (command, idx, term) in parameter order' % c.name, add.loc(n), '')
                else:
                    ctx.violation('%s.add:entry-field-order' % c.name, add.loc(n), 'the stored tuple %s is not in the parameter order %s' % (names, add.params[1:]), instance='entry field order')
    ctx.expect_min(12)


# ----------------------------------------------------------------------------- C06
def serializer_funcs(ctx):
    S = ctx.P.cls('Serializer')
    for nm in ('serialize', 'checkSerializing', 'deserialize', 'setTransmissionData', 'getTransmissionData'):
        if nm not in S.methods:
            raise AnalysisError('Serializer.%s gone' % nm)
    return S


@rule('R-dump-before-trim', 'the serializer reports SUCCESS only after the dump reached its final name: inline mode sets '
                            'the success marker after the atomic rename; the forked child exits 0 only after it; the '
                            'parent accepts only wait status == 0')
def r_dump_before_trim(ctx):
    P = ctx.P
    S = serializer_funcs(ctx)
    ser = S.methods['serialize']
    ex = U.explorer(ctx, ser)
    cfg = ex.cfg
    renames = [U.node_containing(cfg, c).id for c in P.calls_in(ser) if unparse(c.func) in ('atomicReplace', 'os.rename', 'os.replace')]
    ctx.require(renames, 'Serializer.serialize lost its atomic rename')
    # file-mode success markers: pid = -1 after the "File case" i.e. reachable from the tmp-file computation, and os._exit(0)
    pid_attr = None
    for n in ast.walk(ser.node):
        if isinstance(n, ast.Assign) and isinstance(n.value, ast.UnaryOp) and isinstance(n.value.operand, ast.Constant) and n.value.operand.value == 1:
            pid_attr = P.self_attr(n.targets[0], ser.self_name)
    ctx.require(pid_attr, 'success marker assignment (pid = -1) not found')
    fname_attr = None
    for n in ast.walk(ser.node):
        if isinstance(n, ast.Compare) and isinstance(n.ops[0], ast.Is) and isinstance(n.comparators[0], ast.Constant) and n.comparators[0].value is None:
            a = P.self_attr(n.left, ser.self_name)
            if a:
                fname_attr = a
    res = U.full_run(ctx, ser)
    succ_nodes = []
    for n in cfg.nodes:
        if n.kind != 'stmt':
            continue
        if isinstance(n.ast, ast.Assign) and P.self_attr(n.ast.targets[0], ser.self_name) == pid_attr and isinstance(n.ast.value, ast.UnaryOp) \
                and isinstance(n.ast.value.operand, ast.Constant) and n.ast.value.operand.value == 1:
            succ_nodes.append((n, 'inline success marker'))
        for c in [x for x in ast.walk(n.ast) if isinstance(x, ast.Call)]:
            if unparse(c.func) == 'os._exit' and c.args and isinstance(c.args[0], ast.Constant) and c.args[0].value == 0:
                succ_nodes.append((n, 'child exit 0'))
    ctx.require(succ_nodes, 'no success report in Serializer.serialize')
    for n, what in succ_nodes:
        # in-memory mode (file name is None) has no file to rename
        in_memory = fname_attr is not None and all(oracle.entails(fs, ('none', ex.tb.term(U.parse_expr('self.%s' % fname_attr)), True)) for fs in res.facts_at(n.id)) \
            and bool(res.facts_at(n.id))
        inst = '%s behind the atomic rename' % what
        ctx.tick()
        if in_memory:
            ctx.ok('%s (in-memory mode, no file)' % what, ser.loc(n.ast), 'file name is None on every path', nontrivial=False)
            continue
        if n.id in cfg.reachable_from(cfg.entry.id, avoid=renames):
            ctx.violation('Serializer.serialize:success-before-rename', ser.loc(n.ast),
                          '%s is reachable on a file-mode path that has not renamed the temporary dump onto the dump file (the journal is then trimmed although no complete dump exists)' % what,
                          instance=inst)
        else:
            ctx.ok(inst, ser.loc(n.ast), 'unreachable when the rename is removed')
    # exceptions in the write/rename block must lead to the failure marker, not to success
    # parent side: SUCCESS for the forked child only under wait status == 0
    chk = S.methods['checkSerializing']
    cex = U.explorer(ctx, chk)
    cres = U.full_run(ctx, chk)
    waits = [c for c in P.calls_in(chk) if unparse(c.func) == 'os.waitpid']
    if waits:
        wn = U.node_containing(cex.cfg, waits[0])
        status_var = None
        if isinstance(wn.ast, ast.Assign) and isinstance(wn.ast.targets[0], ast.Tuple) and len(wn.ast.targets[0].elts) == 2:
            status_var = wn.ast.targets[0].elts[1].id
        ctx.require(status_var, 'waitpid result not unpacked into (pid, status)')
        for n in cex.cfg.nodes:
            if n.kind == 'stmt' and isinstance(n.ast, ast.Return) and n.ast.value is not None and 'SUCCESS' in unparse(n.ast.value) \
                    and n.id in cex.cfg.reachable_from(wn.id):
                inst = 'forked dump: SUCCESS only for wait status == 0'
                g = ('eq', cex.tb.term(ast.Name(id=status_var, ctx=ast.Load())), cex.tb.term(ast.Constant(value=0)))
                ok, cx = U.must(ctx, cres, n.id, g)
                wif = [m.id for m in cex.cfg.nodes if m.kind == 'cond' and 'WIFEXITED' in unparse(m.ast)]
                via_wif = wif and n.id not in cex.cfg.reachable_from(wn.id, avoid=wif)
                if ok or via_wif:
                    ctx.ok(inst, chk.loc(n.ast), 'raw wait status == 0 entailed' if ok else 'behind os.WIFEXITED')
                else:
                    ctx.violation('Serializer.checkSerializing:success-without-clean-exit', chk.loc(n.ast),
                                  'SUCCESS is reported for the forked dump writer without establishing that the raw wait status is 0 '
                                  '(a child killed by a signal decodes to exit status 0): %s' % cres.path_str(n.id, cx), instance=inst)
    ctx.expect_min(2)


@rule('R-restart-keeps-journal', 'at start-up the journal is replaced by the dump only when it does not contain the dump '
                                 'position; a kept journal is trimmed exactly to the dump position')
def r_restart_keeps_journal(ctx):
    P, R = ctx.P, ctx.R
    loader = loader_func(ctx)
    ex = U.explorer(ctx, loader)
    cfg = ex.cfg
    ctx.require(len(loader.params) == 2, 'loader lost its clear-journal parameter')
    cj = loader.params[1]
    init = [ex.tb.literal(U.parse_expr(cj), False)]
    res = ex.run(init=frozenset(init))
    logsym = 'A:' + R.log
    clears = [(f, c) for f, c, via in log_op_sites(ctx, 'clear') if f is loader]
    ctx.require(clears, 'loader never clears the journal')
    for f, c in clears:
        n = U.node_containing(cfg, c)
        inst = 'start-up: journal cleared only when it does not contain the dump position'
        bad = None
        for fs in res.facts_at(n.id):
            ctx.tick()
            justified = False
            for l in fs:
                if l[0] in ('ne', 'lt', 'le'):
                    ts = oracle.lit_terms(l)
                    # a position computed from the dump's index, or a log slice at a computed position
                    for t in ts:
                        if logsym in t.deps and any(d.startswith('L:') for d in t.deps):
                            justified = True
                        if l[0] in ('lt', 'le') and _derived_from_dump_index(fs, t, R):
                            justified = True
            if not justified:
                bad = fs
                break
        if bad is not None:
            ctx.violation('%s:journal-cleared-unless-head-equals-dump' % loader.qualname, loader.loc(c),
                          'on start-up (clearJournal=False) the journal is cleared on a path whose only tests of the journal look at its length / its entries at '
                          'constant positions: a journal that still starts before the dump and holds newer acknowledged entries is discarded: %s'
                          % res.path_str(n.id, bad), witness={'facts': U.facts_str(bad, 30)}, instance=inst)
        elif res.facts_at(n.id):
            ctx.ok(inst, loader.loc(c), 'every start-up path to the clear carries a mismatch located through the dump index (%d path classes)' % len(res.facts_at(n.id)))
        else:
            ctx.ok(inst, loader.loc(c), 'clear unreachable with clearJournal=False', nontrivial=False)
    # kept journal trimmed exactly to the dump position
    for f, c, via in log_op_sites(ctx, 'deleteEntriesTo'):
        if f is not loader:
            continue
        n = U.node_containing(cfg, c)
        inst = 'start-up: kept journal trimmed to the dump position'
        arg = ex.tb.term(c.args[0])
        okall = True
        for fs in res.facts_at(n.id):
            ctx.tick()
            ok = False
            for l in fs:
                if l[0] == 'eq':
                    for a, b in ((l[1], l[2]), (l[2], l[1])):
                        if b.shape == '(%s - %s)' and len(b.sub) == 2 and logsym in b.sub[1].deps and b.sub[0].key == arg.key:
                            ok = True
            if not ok:
                okall = False
        if okall and res.facts_at(n.id):
            ctx.ok(inst, loader.loc(c), 'trim index `%s` is the index that located the dump in the journal' % arg.key)
        else:
            ctx.violation('%s:trim-not-at-dump-position' % loader.qualname, loader.loc(c),
                          'the kept journal is trimmed to `%s`, which is not the index used to locate the dump inside the journal: the next restart no longer '
                          'finds the dump position and discards the journal' % arg.key, instance=inst)
    ctx.expect_min(1)


def _derived_from_dump_index(fs, t, R):
    """t is (an alias of) <dump entry index> - <log first index>"""
    logsym = 'A:' + R.log
    seen = set()
    todo = [t]
    while todo:
        x = todo.pop()
        if x.key in seen:
            continue
        seen.add(x.key)
        if x.shape == '(%s - %s)' and len(x.sub) == 2 and logsym in x.sub[1].deps:
            return True
        for l in fs:
            if l[0] == 'eq':
                if l[1] == x:
                    todo.append(l[2])
                elif l[2] == x:
                    todo.append(l[1])
    return False


@rule('R-durable-before-ack', 'the file journal add() that precedes every positive acknowledgement reaches the record write '
                              'and the publish on all paths (see R-ack-after-store for the ordering in the handler)')
def r_durable_before_ack(ctx):
    P, R = ctx.P, ctx.R
    jp = journal_parts(ctx)
    fj = jp['fj']
    add = fj.methods['add']
    reach = P.reachable_funcs([add])
    rf_write = jp['rf'].methods.get('write')
    ctx.tick()
    inst = 'FileJournal.add reaches the mmap store'
    if rf_write in reach and jp['publish'] in reach:
        ctx.ok(inst, add.loc(), 'call graph: add -> %s.write (record) and add -> publish -> %s.write (header)' % (jp['rf'].name, jp['rf'].name))
    else:
        ctx.violation('%s.add:not-durable' % fj.name, add.loc(), 'add() no longer reaches the file write / publish', instance=inst)
    # the SyncObj log role is created from the journal file configured by the user
    init = R.init
    inst = 'log created from conf.journalFile'
    ctx.tick()
    ok = False
    for n in ast.walk(init.node):
        if isinstance(n, ast.Call) and isinstance(n.func, ast.Name) and n.func.id == 'createJournal' and n.args and isinstance(n.args[0], ast.Attribute) \
                and n.args[0].attr == 'journalFile':
            ok = True
    if ok:
        ctx.ok(inst, init.loc(), '')
    else:
        ctx.violation('SyncObj.__init__:journal-file-ignored', init.loc(), 'the log is not created from conf.journalFile', instance=inst)
    ctx.expect_min(2)


# ----------------------------------------------------------------------------- C07
@rule('R-vote-durable', 'currentTerm and votedFor reach durable storage before a vote / vote request leaves the node, and '
                        'are reloaded at start instead of being reset to constants')
def r_vote_durable(ctx):
    P, R = ctx.P, ctx.R
    init = R.init
    const_inits = []
    for attr in (R.currentTerm, R.votedFor):
        for st, kind in U.assigns_to_attr(P, init, attr):
            if isinstance(st.value, ast.Constant):
                const_inits.append((attr, st))
    # durable sinks: MetaStorer.storeMeta, journal setters that persist
    sinks = set()
    jp = journal_parts(ctx)
    for c in P.subclasses(P.cls('Journal')):
        for m in P.methods_of(c):
            if m.name in JOURNAL_OPS or m.name in ('__init__', '_destroy', 'flush'):
                continue
            reach = P.reachable_funcs([m])
            if any(g.qualname == 'MetaStorer.storeMeta' for g in reach) or any(('A:' + a) in P.writes(m) for a in ('__meta',)):
                sinks.add(m.name)
    # does any SyncObj code pass a term/vote dependent value to a journal method other than add?
    persisted_sites = []
    for f in P.methods_of(R.S):
        for c in P.calls_in(f):
            if isinstance(c.func, ast.Attribute) and P.self_attr(c.func.value, f.self_name) == R.log and c.func.attr not in JOURNAL_OPS:
                if any(P.self_attr(x, f.self_name) in (R.currentTerm, R.votedFor) for a in c.args for x in ast.walk(a)):
                    persisted_sites.append((f, c))
    ctx.tick(3)
    if const_inits and not persisted_sites:
        attr, st = const_inits[0]
        ctx.violation('SyncObj:term-and-vote-not-persisted', init.loc(st),
                      'self.%s and self.%s are initialised from constants at every start and no code path hands them to durable storage '
                      '(journal metadata holds only the commit index): a restarted voter can vote twice in one term' % (R.currentTerm, R.votedFor),
                      instance='term and vote persisted')
        ctx.expect_min(1)
        return
    # persistence exists (at least partially): every vote-relevant event must be followed by a persisting call before the next send
    for attr, st in const_inits:
        ctx.violation('SyncObj.__init__:%s-reset-at-start' % attr, init.loc(st), 'self.%s is reset to a constant at start although it is persisted elsewhere' % attr,
                      instance='reloaded at start')
    events = []
    for f in (R.handler, R.tick):
        ex = U.explorer(ctx, f)
        cfg = ex.cfg
        persist_nodes = [U.node_containing(cfg, c).id for g, c in persisted_sites if g is f]
        for attr in (R.currentTerm, R.votedFor):
            for st, kind in U.assigns_to_attr(P, f, attr):
                n = U.node_containing(cfg, st)
                sends = [U.node_containing(cfg, c).id for c, d, t, tgt in U.send_sites(ctx, f)]
                reach = cfg.reachable_from(n.id, avoid=persist_nodes, follow_exc=False)
                inst = '%s: `%s` persisted before the next send' % (f.qualname, unparse(st))
                ctx.tick()
                hit = [s for s in sends if s in reach and s != n.id]
                if hit:
                    ctx.violation('%s:send-before-persisting-%s' % (f.qualname, attr), f.loc(st),
                                  'after `%s` a message can be sent before the new value is handed to durable storage' % unparse(st), instance=inst)
                else:
                    ctx.ok(inst, f.loc(st), '')
    ctx.expect_min(1)


@rule('R-commit-persisted-value', 'the commit index handed to the journal for persistence is the node\'s own commit index '
                                  '(never the leader\'s, which may be ahead of what this node verified)')
def r_commit_persisted_value(ctx):
    P, R = ctx.P, ctx.R
    n_sites = 0
    for f in P.methods_of(R.S):
        for c in P.calls_in(f):
            if isinstance(c.func, ast.Attribute) and c.func.attr == 'setRaftCommitIndex' and P.self_attr(c.func.value, f.self_name) == R.log and c.args:
                n_sites += 1
                ex = U.explorer(ctx, f)
                res = U.full_run(ctx, f)
                n = U.node_containing(ex.cfg, c)
                inst = '%s: `%s`' % (f.qualname, unparse(c))
                g = ('eq', ex.tb.term(c.args[0]), ex.tb.term(U.parse_expr('self.%s' % R.commitIndex)))
                ok, cex = U.must(ctx, res, n.id, g)
                if ok:
                    ctx.ok(inst, f.loc(c), 'argument is the own commit index')
                else:
                    ctx.violation('%s:persists-foreign-commit-index' % f.qualname, f.loc(c),
                                  'the journal is told to persist `%s`, which is not this node\'s commit index: after a restart the node replays its journal beyond the prefix '
                                  'it verified against the leader' % unparse(c.args[0]), instance=inst)
    ctx.require(n_sites >= 1, 'nobody hands the commit index to the journal')
    ctx.expect_min(1)


@rule('R-commit-index-setter-only', 'the commit index a journal stores changes only through its setter, called by the owner of the '
                                    'journal: no journal operation (append, drop, clear, timer) sets or rewrites it')
def r_commit_index_setter_only(ctx):
    """`the stored commit index is one that was actually set`: inside the journal classes the value lives in whatever
    the setter writes from its parameter; any other method of the class that writes that store, or calls the setter
    itself, stores a commit index nobody set."""
    P = ctx.P
    base = P.cls('Journal')
    n_cls = 0
    for ci in [base] + list(P.subclasses(base)):
        setter = ci.methods.get('setRaftCommitIndex')
        if setter is None or ci is base:
            continue
        n_cls += 1
        par = setter.params[1] if len(setter.params) > 1 else None
        store = set()
        for a in P.accesses(setter):
            if a.kind in ('write', 'elem_write') and par is not None and isinstance(a.node, ast.Assign) and any(isinstance(x, ast.Name) and x.id == par for x in ast.walk(a.node.value)):
                store.add(a.attr)
        inst = '%s: stored commit index written only by the setter' % ci.name
        bad = False
        for m in P.methods_of(ci):
            if m is setter or m.name == '__init__' or m.owner_cls is not ci:
                continue
            ctx.tick()
            for c in P.calls_in(m, include_nested=True):
                if setter in P.resolve_call(m, c).targets:
                    bad = True
                    ctx.violation('%s:journal-operation-sets-commit-index' % m.qualname, m.loc(c),
                                  '`%s`: a journal operation overwrites the stored commit index with a value its owner never set (the owner reads it back after a restart)' % unparse(c),
                                  instance=inst)
            for a in P.accesses(m):
                if a.attr in store and a.kind in ('write', 'elem_write', 'del', 'mutcall', 'aug'):
                    # rewriting the whole store from the loaded file is the loader's business (__init__), nothing else's
                    bad = True
                    ctx.violation('%s:journal-operation-rewrites-commit-store' % m.qualname, m.loc(a.node),
                                  '`%s` changes self.%s, where the setter keeps the commit index' % (unparse(a.node)[:60], a.attr), instance=inst)
        if not bad:
            ctx.ok(inst, setter.loc(), 'store %s; no other method writes it or calls the setter' % (sorted(store) or 'none (value not kept)'))
    ctx.require(n_cls >= 2, 'journal implementations with a commit-index setter not found')
    ctx.expect_min(2)
