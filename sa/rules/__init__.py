"""Rule modules.  Each rule is registered with @rule(id, doc) and takes a report.Ctx."""
REGISTRY = {}


def rule(rule_id, doc):
    def deco(fn):
        REGISTRY[rule_id] = (fn, doc)
        return fn
    return deco


def load_all():
    from . import election, raftlog, callbacks, membership, raftmisc, storage, snapshot, wire, batteries, versions, ownership, lints  # noqa
    return REGISTRY
